"""C22: finite-difference b-vectors satisfy the completeness relation.

spec  : BShells.tla  - integer reciprocal lattices (integer Gram matrix G/gs), Monkhorst-Pack mesh vectors as integer
                       triples, shells = level sets of the integer quadratic form inside the search box, exact rational
                       weights; the shell-selection loop (one step per shell) with exact Gauss-Jordan elimination
                       instead of the SVD; the C22 clauses (whole shells, b -> -b, completeness, k+b=k'+G)
        MC_BShells   - catalogue of 10 lattices x meshes; TLC proves that the SPECIFICATION's procedure (Wannier90 "pair"
                       rule) always ends with a stencil that satisfies every clause.  The rules "latt" / "rank3" model
                       find_bk_vectors as it is written; they are run on demand, only for the lattice/mesh pairs on which
                       the real code finds no stencil, to decide whether that failure is the recorded known finding
        BShellsRec   - record validation of the real BKVectors.from_kpoints / reorder_mmn results
bind  : code -> spec : what binds the CODE's own stencils: records of from_kpoints (bk_grid, rationalised wk,
                       neighbours, G; shuffled k-points, reduced coordinates with noise 1e-9 and outside [0, 1),
                       search_supercell 2 and 3, b-vectors re-ordered by reorder_mmn) validated by TLC clause by clause
        spec -> code : find_bk_vectors must return a stencil wherever TLC proved that one exists in the search box;
                       the weights get_shell_weights returns for the specification's complete shell sets must be the
                       exact ones.  The replay of the other internals (k_to_shells, is_parallel_shell, the status
                       strings of get_shell_weights) is informative only: C22 does not prescribe them
"""
import os
import copy
import random
import itertools
from fractions import Fraction

import numpy as np

from .. import tlc, ftable
from ..common import Report, MachineryError, seed
from ._fdutil import rationalise, quiet_call, Scratch, accepted_kwargs, Skipped

PROPS = {
    "C22": dict(level="model_checking",
                technique="TLC exhaustive on BShells.tla/MC_BShells.tla (the specification's shell selection over a catalogue of integer "
                          "reciprocal lattices x meshes, exact rational weights) + TLC validation (BShellsRec.tla) of recorded "
                          "BKVectors.from_kpoints / reorder_mmn results + find_bk_vectors / get_shell_weights on the TLC states",
                text="TLC proves the C22 clauses (whole level sets, closure under b -> -b with equal weights, sum_b w_b b b^T = 1 in exact "
                     "rationals, unique neighbour and lattice shift for every k and b) for the SPECIFICATION's procedure (Wannier90 rule) on "
                     "cubic, fcc, bcc, two tetragonal, orthorhombic, two hexagonal, a monoclinic and a triclinic integer reciprocal lattice "
                     "and the configured meshes. The CODE's own stencils are bound by record validation: BKVectors.from_kpoints is run on "
                     "every lattice x every mesh with n_i <= 4 (thorough: plus a fixed list of 51 meshes with an n_i of 5 or 6) with "
                     "shuffled k-points, reduced coordinates carrying noise 1e-9 and integer shifts, rotated/scaled bases, "
                     "search_supercell 2 (3 and 1 on three meshes per lattice each), and after reorder_mmn; the recorded bk_grid / wk / neighbours "
                     "/ G are validated clause by clause by TLC. find_bk_vectors must find a stencil wherever the specification does; a "
                     "failure is the known finding only where the specification's model of the code's own rule predicts it.",
                note="weights cross the TLC boundary as rationals num/den (den <= 10^4, verified within 1e-9 of the float); shells are level "
                     "sets inside the search box and, computed exactly in Python for every record and by TLC for small meshes, inside a box "
                     "two super-cells wider; the replay of k_to_shells / is_parallel_shell / get_shell_weights status is informative "
                     "(mechanism_replay), random real lattices are numeric_only",
                ref="DESIGN.md 3.7"),
}

TLC_WORKERS = int(os.environ.get("VERIF_TLC_WORKERS", "4"))
KEY_KNOWN = "find_bk_vectors:no_stencil_found"
KEY_UNPRED = "find_bk_vectors:no_stencil_found:unpredicted"
CODE_TOL = 1e-5          # bk_complete_tol handed to the code for the exact lattices (its default, made explicit)
RANDOM_TOL = 1e-9        # bk_complete_tol handed to the code for random real lattices; the harness then demands 1e-8


# ----------------------------------------------------------------------------------------------- helpers
def cart_basis(G, gs, A):
    """a float Cartesian basis (rows) whose Gram matrix is G / gs: the integer basis when there is one, else Cholesky"""
    if A:
        B = np.array(A, dtype=float)
    else:
        B = np.linalg.cholesky(np.array(G, dtype=float) / gs)
    if np.abs(B @ B.T - np.array(G, dtype=float) / gs).max() > 1e-13:
        raise MachineryError(f"basis does not reproduce the Gram matrix {G}/{gs}")
    return B


def box_latt(N, ss=2):
    lim = [ss * n for n in N]
    return np.array([(i, j, k) for i in range(-lim[0], lim[0] + 1) for j in range(-lim[1], lim[1] + 1)
                     for k in range(-lim[2], lim[2] + 1)])


def as_set(arr):
    return frozenset(tuple(int(x) for x in v) for v in arr)


def stencil_of(wk, bk_grid):
    """set of (n, (num, den)); None when a weight cannot be rationalised"""
    out = set()
    for w, b in zip(wk, bk_grid):
        r = rationalise(w)
        if r is None:
            return None
        out.add((tuple(int(x) for x in b), r))
    return frozenset(out)


def numeric_clauses(B, N, wk, bk_grid, bk_cart=None):
    """float version of the stencil clauses (used when a weight has no small denominator, and for random lattices)"""
    basis = B / np.array(N, dtype=float)[:, None]
    bc = np.array(bk_grid, dtype=float) @ basis
    comp = np.einsum("b,ba,bc->ac", wk, bc, bc)
    res = dict(complete=float(np.abs(comp - np.eye(3)).max()))
    tab = {tuple(int(x) for x in b): float(w) for b, w in zip(bk_grid, wk)}
    res["neg"] = max((abs(tab.get(tuple(-x for x in b), np.inf) - w) for b, w in tab.items()), default=np.inf)
    if bk_cart is not None:
        res["bk_cart"] = float(np.abs(bc - bk_cart).max())
    return res


def mesh_points(N):
    return [(a, b, c) for a in range(N[0]) for b in range(N[1]) for c in range(N[2])]


def qf_matrix(G, N):
    """the integer quadratic form of BShells!GmOf"""
    lc = int(np.lcm.reduce(np.array(N, dtype=np.int64)))
    f = np.array([lc // int(n) for n in N], dtype=np.int64)
    return np.array(G, dtype=np.int64) * f[:, None] * f[None, :]


def whole_in_box(G, N, bk, ss):
    """exact: the b-vectors are the union of whole level sets of the quadratic form inside the box |n_i| <= ss N_i"""
    gm = qf_matrix(G, N)
    box = box_latt(N, ss).astype(np.int64)
    q = np.einsum("ni,ij,nj->n", box, gm, box)
    bk = np.array(bk, dtype=np.int64).reshape(-1, 3)
    qs = np.unique(np.einsum("ni,ij,nj->n", bk, gm, bk))
    sel = np.isin(q, qs) & (q > 0)
    return as_set(box[sel]) == as_set(bk)


def random_rotation(rng):
    q, r_ = np.linalg.qr(np.array([[rng.gauss(0, 1) for _ in range(3)] for _ in range(3)]))
    return q * np.sign(np.linalg.det(q))


class Code:
    """the one place where names of the package are used"""

    def __init__(self, skipped):
        from wannierberri.w90files import bkvectors
        self.mod = bkvectors
        self.BKVectors = bkvectors.BKVectors
        self.skipped = skipped

    # ---- public entry points of the property
    def from_kpoints(self, B, N, kred, kptirr, ss, tol):
        fn = self.BKVectors.from_kpoints
        kw = accepted_kwargs(fn, search_supercell=ss, bk_complete_tol=tol)
        if "search_supercell" not in kw and ss != 2:
            raise _NotCallable("from_kpoints has no search_supercell argument")
        return quiet_call(fn, recip_lattice=B, mp_grid=np.array(N), kpoints_red=kred, kptirr=kptirr, **kw)

    def find_bk_vectors(self, B, N, ss, tol):
        fn = self.BKVectors.find_bk_vectors
        kw = accepted_kwargs(fn, search_supercell=ss, bk_complete_tol=tol)
        if "search_supercell" not in kw and ss != 2:
            raise _NotCallable("find_bk_vectors has no search_supercell argument")
        return quiet_call(fn, B, np.array(N), **kw)

    # ---- internals (informative replay only): every use is guarded
    def k_to_shells(self, klatt, kcart):
        """-> list of frozensets of mesh vectors, or None when the helper is gone / has another shape"""
        fn = getattr(self.BKVectors, "k_to_shells", None)
        if fn is None:
            self.skipped.add("k_to_shells")
            return None
        try:
            r = quiet_call(fn, klatt, kcart)
            return [as_set(s) for s in r[0]]
        except Exception as ex:  # noqa
            self.skipped.add("k_to_shells", ex)
            return None

    def is_parallel(self, sel_cart, new_cart):
        fn = getattr(self.mod, "is_parallel_shell", None)
        pr = getattr(self.BKVectors, "get_projector_shell_cart", None)
        if fn is None or pr is None:
            self.skipped.add("is_parallel_shell")
            return None
        try:
            return bool(fn([pr(x) for x in sel_cart], new_cart, tol=1e-7))
        except Exception as ex:  # noqa
            self.skipped.add("is_parallel_shell", ex)
            return None

    def shell_weights(self, shells_latt, shells_cart):
        """-> ("complete", wk, bk_grid) | ("not_complete", text, None) | None (helper gone / unknown shape)"""
        fn = getattr(self.BKVectors, "get_shell_weights", None)
        if fn is None:
            self.skipped.add("get_shell_weights")
            return None
        kw = accepted_kwargs(fn, msg_if_fail=True, bk_complete_tol=CODE_TOL)
        try:
            r = quiet_call(fn, shells_latt, shells_cart, **kw)
        except (TypeError, AttributeError) as ex:
            self.skipped.add("get_shell_weights", ex)
            return None
        except Exception as ex:  # noqa  (without msg_if_fail an incomplete set is reported by an exception)
            return ("not_complete", type(ex).__name__, None)
        if isinstance(r, (tuple, list)) and len(r) == 3:
            try:
                arrs = [np.asarray(x) for x in r]
                wk = [a for a in arrs if a.ndim == 1][0]
                bg = [a for a in arrs if a.ndim == 2 and a.shape[1] == 3 and np.issubdtype(a.dtype, np.integer)][0]
                if len(wk) != len(bg):
                    raise ValueError("lengths differ")
                return ("complete", wk, bg)
            except Exception as ex:  # noqa
                self.skipped.add("get_shell_weights", ex)
                return None
        return ("not_complete", str(r)[:40], None)


class _NotCallable(Exception):
    pass


def record_of(G, gs, N, ss, bkv, kint, kptirr, fn="from_kpoints"):
    """BKVectors object -> JSON record; returns (record, problems)"""
    problems = []
    wk = [rationalise(w) for w in bkv.wk]
    if any(w is None for w in wk):
        return None, ["weights_not_rational"]
    rec = dict(fn=fn, G=[list(r) for r in G], gs=gs, N=list(N), SS=ss,
               bk=[[int(x) for x in b] for b in bkv.bk_grid], wk=[list(w) for w in wk])
    if kptirr is not None:
        irr = list(kptirr)
        if sorted(int(k) for k in bkv.neighbours.keys()) != sorted(irr) or sorted(int(k) for k in bkv.G.keys()) != sorted(irr):
            problems.append("neighbour_keys")
            return rec, problems
        kg = np.array(bkv.kpt_grid)
        if kg.shape != (len(kint), 3) or np.any(kg != np.array(kint)):
            problems.append("kpt_grid")
        nnb = len(rec["bk"])
        for ik in irr:
            if np.shape(bkv.neighbours[ik]) != (nnb,) or np.shape(bkv.G[ik]) != (nnb, 3):
                problems.append("neighbour_shape")
                return rec, problems
        rec.update(kpts=[[int(x) for x in k] for k in kint], kptirr=[int(i) for i in irr],
                   nb=[[int(x) for x in bkv.neighbours[ik]] for ik in irr],
                   gv=[[[int(x) for x in g] for g in bkv.G[ik]] for ik in irr])
    return rec, problems


def mc_cfg(meshes, lats, rules, variant="ok", invariants=None, only=(), ssc=2):
    inv = invariants if invariants is not None else ["Admits", "SelFunctional", "SelNegClosed", "SelWhole", "SelComplete", "SelOddMoments",
                                                     "SelNeighbours", "SelShape"]
    return ("SPECIFICATION Spec\nCONSTANTS\n"
            f"  MESHES = {tlc.tla_value(set(100 * m[0] + 10 * m[1] + m[2] for m in meshes))}\n  LATS = {tlc.tla_value(set(lats))}\n"
            f"  RULES = {tlc.tla_value(set(rules))}\n  PAIRSEL = {tlc.tla_value(set(only))}\n"
            f"  SSC = {ssc}\n  Variant = \"{variant}\"\n" + "".join(f"INVARIANT {i}\n" for i in inv) + "CHECK_DEADLOCK FALSE\n")


LATS = ["cubic", "fcc", "bcc", "tetra2", "tetraS2", "ortho", "hex", "hex60", "mono", "tri"]
SS3_MESHES = [(1, 1, 1), (2, 1, 2), (1, 2, 3)]
SS1_MESHES = [(1, 1, 1), (1, 2, 2), (2, 1, 1)]     # search_supercell = 1: the selected shells touch the faces of the search box


def run_mc(name, cfg, dump=True):
    st = tlc.run_tlc("MC_BShells.tla", cfg, name, workers=TLC_WORKERS, dump=dump, coverage=False, timeout=3000)
    if st.get("timeout"):
        raise MachineryError(f"TLC timed out on {name}")
    if st.get("error") and not st.get("violation"):
        raise MachineryError(f"TLC error on {name}: {st['error'][:600]}")
    return st


def runs_of(st):
    """dump -> {(lat, N, rule): [states ordered along the run]}"""
    runs = {}
    for s in ftable.dump_states(st):
        runs.setdefault((s["lat"], tuple(s["L"]["N"]), s["rule"]), []).append(s)
    for k in runs:
        runs[k].sort(key=lambda s: (s["st"]["branch"] != "init", s["st"]["pc"] == "fail", s["st"]["q"]))
    return runs


def thorough_meshes():
    """all meshes with n_i <= 4 and a FIXED third of the 152 meshes that contain a 5 or a 6 (no seed involved: the known
    finding is decided per lattice/mesh by the model, but the list of inputs must be the same in every run)"""
    small = list(itertools.product(range(1, 5), repeat=3))
    big = sorted(m for m in itertools.product(range(1, 7), repeat=3) if max(m) > 4)
    return sorted(small + [m for i, m in enumerate(big) if i % 3 == 0])


# ----------------------------------------------------------------------------------------------- the check
def check(pid, tier):
    rep = Report(pid, tier, "model_checking")
    scratch = Scratch(pid)
    try:
        return _check(rep, tier, scratch)
    except Exception:
        if rep.violations:
            rep.finish()
        raise
    finally:
        scratch.cleanup()


def _check(rep, tier, scratch):
    thorough = tier == "thorough"
    rng = random.Random(seed() * 7919 + 22)
    skipped = Skipped()
    code = Code(skipped)
    rep.rule("TLC runs the shell-selection state machine of the specification for every (lattice, mesh); a case = one recorded "
             "from_kpoints / reorder_mmn result validated by TLC, one find_bk_vectors call where TLC proved that a stencil exists, or one "
             "TLC state replayed on a helper of the code; distinct by (function, lattice, mesh, inputs)")
    rep.assume("reciprocal lattices have an integer Gram matrix G/gs (scaled by 0.5..3 and rotated for the recorded calls); shells = level "
               "sets of the quadratic form inside the search box handed to the code (search_supercell = 2; 3 and 1 on a few meshes)")
    rep.assume("weights are rationals with denominator <= 10^4 (verified within 1e-9 of the float)")

    small = [m for m in itertools.product((1, 2), repeat=3)]
    if thorough:
        meshes = [m for m in itertools.product((1, 2, 3), repeat=3)] + [(4, 4, 4), (1, 1, 4), (4, 3, 2), (2, 4, 1)]
    else:
        meshes = small + [(1, 1, 3), (3, 2, 1), (2, 3, 2)]

    # ---------------- spec: the specification's procedure always ends with a stencil that satisfies C22
    st = run_mc(scratch.name("c22_pair"), mc_cfg(meshes, LATS, ["pair"]))
    ftable.spec_violation(rep, st, "c22_pair")
    rep.add_tlc("c22_pair", st)
    runs = runs_of(st)
    branches = {}
    lattices = {}
    exists = {}
    for (lat, N, rule), states in runs.items():
        lattices[lat] = states[0]["L"]
        for s in states:
            branches[s["st"]["branch"]] = branches.get(s["st"]["branch"], 0) + 1
        exists[(lat, N)] = states[-1]["st"]["pc"] == "done"
    for b in ("init", "parallel", "dependent", "incomplete", "complete"):
        if not branches.get(b):
            raise MachineryError(f"vacuous model c22_pair: branch {b} never taken")
    if not st.get("violation") and (len(runs) != len(LATS) * len(meshes) or not all(exists.values())):
        raise MachineryError("c22_pair: a run is missing or did not end with a stencil although no invariant failed")
    rep.part("c22_pair", branches=branches, runs=len(runs))

    # sensitivity: a completeness test that only looks at the diagonal of sum w b b^T must be rejected by the specification
    st0 = run_mc(scratch.name("c22_diagonly"), mc_cfg([(1, 1, 1), (2, 2, 2), (2, 1, 1)], ["cubic", "hex", "mono", "tri"], ["pair"], variant="diagonly"),
                 dump=False)
    if not st0.get("violation") or st0["violation"][1] != "SelComplete":
        raise MachineryError("sensitivity self-test failed: MC_BShells with Variant=diagonly should violate SelComplete")
    rep.part("c22_diagonly", sensitivity_violation=st0["violation"][1])

    failures = []      # calls on which the code found no stencil: decided at the end with the model of the code's own rule

    # ---------------- spec -> code: replay of the TLC states
    mech = dict(k_to_shells=dict(agree=0, differ=0), is_parallel_shell=dict(equals_span=0, equals_pair_only=0, neither=0),
                get_shell_weights_status=dict(agree=0, differ=0))
    nrep = 0
    for (lat, N, rule), states in sorted(runs.items()):
        L = states[0]["L"]
        B = cart_basis(L["G"], L["gs"], L["A"])
        basis = B / np.array(N, dtype=float)[:, None]
        klatt = box_latt(N)
        code_shells = code.k_to_shells(klatt, klatt @ basis)
        sel = []
        ish = -1
        for s in states[1:]:
            stt = s["st"]
            if stt["branch"] == "exhausted":
                continue
            ish += 1
            new = frozenset(stt["last"])
            nrep += 1
            if code_shells is not None:
                # informative: the helper's i-th shell is the specification's i-th level set
                rep.case(("k_to_shells", lat, N, ish), nontrivial=len(new) > 2)
                ok = ish < len(code_shells) and code_shells[ish] == new
                mech["k_to_shells"]["agree" if ok else "differ"] += 1
            new_latt = np.array(sorted(new))
            new_cart = new_latt @ basis
            got_par = code.is_parallel([np.array(sorted(x)) @ basis for x in sel], new_cart)
            if got_par is not None:
                rep.case(("is_parallel_shell", lat, N, ish), nontrivial=len(sel) > 0)
                if got_par == stt["par"][0]:
                    mech["is_parallel_shell"]["equals_span"] += 1
                elif got_par == stt["par"][1]:
                    mech["is_parallel_shell"]["equals_pair_only"] += 1
                else:
                    mech["is_parallel_shell"]["neither"] += 1
            if stt["branch"] == "parallel":
                continue
            tmp = sel + [new]
            r = code.shell_weights([np.array(sorted(x)) for x in tmp], [np.array(sorted(x)) @ basis for x in tmp])
            exp = stt["branch"]
            if r is not None:
                rep.case(("get_shell_weights", lat, N, rule, ish))
                mech["get_shell_weights_status"]["agree" if (r[0] == "complete") == (exp == "complete") else "differ"] += 1
                if exp == "complete" and r[0] == "complete":
                    # the weights of a linearly independent complete set are unique: this comparison is C22 itself
                    gotw = stencil_of(r[1], r[2])
                    expw = frozenset((n, tuple(stt["w"][j])) for j, sh in enumerate(stt["sel"]) for n in sh)
                    if gotw != expw:
                        rep.violation("get_shell_weights:weights", dict(lattice=lat, G=L["G"], gs=L["gs"], mesh=N, expected=sorted(expw),
                                                                         got=sorted(gotw) if gotw else [float(x) for x in r[1]]))
                    if nrep % 40 == 1:
                        rep.sample(dict(fn="get_shell_weights", lattice=lat, mesh=N, shells=[len(x) for x in tmp], weights=[list(w) for w in stt["w"]]))
            if exp in ("incomplete", "complete"):
                sel = tmp
    rep.part("mechanism_replay", **mech,
             note="informative only (C22 does not prescribe these internals): agreement of k_to_shells with the level sets, of "
                  "is_parallel_shell (called with Cartesian vectors) with the 'span' / 'pair' rule, of the complete / not complete answer "
                  "of get_shell_weights with the exact elimination, on the states of the specification's runs")

    # ---------------- find_bk_vectors end to end: a stencil must be returned wherever TLC proved that one exists in the box
    same_as_spec = 0
    for (lat, N), ok in sorted(exists.items()):
        L = lattices[lat]
        B = cart_basis(L["G"], L["gs"], L["A"])
        rep.case(("find_bk_vectors", lat, N))
        try:
            wk, bk_cart, bk_grid = code.find_bk_vectors(B, N, 2, CODE_TOL)
        except Exception as ex:  # noqa
            failures.append(dict(lattice=lat, mesh=N, ss=2, rule="latt" if L["A"] else None, where="find_bk_vectors", recip_lattice=B.tolist(),
                                 error=repr(ex)[:200]))
            continue
        sts = runs[(lat, N, "pair")][-1]["st"]
        same_as_spec += stencil_of(wk, bk_grid) == frozenset((n, tuple(sts["w"][j])) for j, sh in enumerate(sts["sel"]) for n in sh)
    rep.part("find_bk_vectors_vs_spec", calls=len(exists), stencil_equals_specification=same_as_spec,
             note="informative: how often the code selects the same stencil as the Wannier90 rule (C22 does not prescribe the choice)")

    # ---------------- code -> spec: recorded from_kpoints calls validated by TLC
    if thorough:
        all_meshes = thorough_meshes()
    else:
        all_meshes = list(itertools.product(range(1, 5), repeat=3))
    recs = []
    meta = []
    nnum = 0
    full_nb = 0
    classes = dict(exact=0, noise=0, noise_shift=0, rotated=0, ss3=0, ss1=0, reorder_mmn=0, wide_box_tlc=0)
    nreorder_want = 4 if thorough else 2

    def one_call(lat, N, ss):
        nonlocal nnum, full_nb
        L = lattices[lat]
        scale = rng.choice([1.0, 0.5, 2.0, 1.0, 3.0, 1.25])
        B0 = cart_basis(L["G"], L["gs"], L["A"])
        rot = (not L["A"]) or rng.random() < 0.5
        B = B0 * scale
        if rot:
            # a random proper rotation of the Cartesian frame (the Gram matrix, hence the record, is unchanged)
            B = B @ random_rotation(rng)
        kpts = mesh_points(N)
        rng.shuffle(kpts)
        nk = len(kpts)
        if nk <= 27:
            kptirr = None if rng.random() < 0.5 else list(range(nk))
        else:
            kptirr = sorted(rng.sample(range(nk), 5))
        irr_eff = list(range(nk)) if kptirr is None else kptirr
        mode = rng.choice(["exact", "noise", "noise_shift"])
        kint = np.array(kpts, dtype=int)
        if mode == "noise_shift":
            kint = kint + np.array([[rng.randint(-1, 1) for _ in range(3)] for _ in range(nk)]) * np.array(N)[None, :]
        kred = kint / np.array(N, dtype=float)[None, :]
        if mode != "exact":
            kred = kred + np.array([[rng.uniform(-1e-9, 1e-9) for _ in range(3)] for _ in range(nk)])
        rep.case(("from_kpoints", lat, N, ss))
        info = dict(lattice=lat, recip_lattice=B.tolist(), mp_grid=list(N), scale=scale, rotated=rot, search_supercell=ss, kpoints=mode)
        try:
            bkv = code.from_kpoints(B, N, kred, kptirr, ss, CODE_TOL)
        except _NotCallable as ex:
            skipped.add("search_supercell", ex)
            return None
        except Exception as ex:  # noqa
            try:
                code.find_bk_vectors(B, N, ss, CODE_TOL)
            except Exception as ex2:  # noqa
                failures.append(dict(info, mesh=N, ss=ss, rule="rank3" if rot else "latt", where="from_kpoints", error=repr(ex2)[:200]))
                return None
            rep.violation("from_kpoints:raised", dict(info, error=repr(ex)[:300], what="find_bk_vectors alone succeeds on the same input",
                                                      kpoints_red=kred.tolist(), kptirr=kptirr))
            return None
        # scale the weights back to the units of G/gs
        bkv_w = copy.copy(bkv)
        bkv_w.wk = np.array(bkv.wk) * scale ** 2
        rec, problems = record_of(L["G"], L["gs"], N, ss, bkv_w, kint, irr_eff)
        num = numeric_clauses(B, N, bkv.wk, bkv.bk_grid, bkv.bk_cart)
        if num["bk_cart"] > 1e-9:
            rep.violation("from_kpoints:bk_cart", dict(info, deviation=num["bk_cart"]))
        if problems == ["weights_not_rational"]:
            # no small denominator: decide numerically (never seen on the catalogue)
            nnum += 1
            if num["complete"] > 10 * CODE_TOL or num["neg"] > 1e-8:
                rep.violation("from_kpoints:numeric", dict(info, deviations=num))
            return None
        for p in problems:
            rep.violation("from_kpoints:" + p, dict(info))
        if problems:
            return None
        if ss >= 2 and not whole_in_box(L["G"], N, rec["bk"], ss + 2):
            rep.violation("from_kpoints:partial_shell_beyond_search_box",
                          dict(info, bk_grid=rec["bk"], what="a mesh vector of the same length as a selected b-vector lies outside the search box "
                                                             "of the code and is missing from the stencil"))
        if int(np.prod(N)) <= 8 and ss >= 2:
            rec["SSW"] = ss + 2
            classes["wide_box_tlc"] += 1
        if kptirr is None or len(irr_eff) == nk:
            full_nb += 1
        classes[mode] += 1
        classes["rotated"] += rot
        classes["ss3"] += ss == 3
        classes["ss1"] += ss == 1
        recs.append(rec)
        meta.append(info)
        return dict(bkv=bkv, scale=scale, kint=kint, irr=irr_eff, info=info, L=L)

    for lat in LATS:
        nre = 0
        for N in all_meshes:
            out = one_call(lat, N, 2)
            # reorder_mmn: the b-vectors of a second object (another order) are brought into the order of this one; the pairing of
            # wk with bk must survive (multi-shell stencils, where it matters)
            if out is not None and nre < nreorder_want and len(set(np.round(out["bkv"].wk, 9))) > 1 and len(out["irr"]) == len(out["kint"]):
                r2 = reorder_probe(rep, skipped, out, rng)
                if r2 is not None:
                    nre += 1
                    classes["reorder_mmn"] += 1
                    recs.append(r2)
                    meta.append(dict(out["info"], fn="reorder_mmn"))
        for N in SS3_MESHES:
            one_call(lat, N, 3)
        for N in SS1_MESHES:
            one_call(lat, N, 1)
    if not recs:
        raise MachineryError("no from_kpoints record produced")
    if nnum > len(recs) // 20:
        raise MachineryError(f"{nnum} records had weights without a small denominator")
    for cl in ("exact", "noise", "noise_shift", "rotated"):
        if not classes[cl]:
            raise MachineryError(f"no record of the class {cl}")
    stv, bad = ftable.validate_records("BShellsRec.tla", ftable.REC_CFG, recs, scratch.name("c22"), timeout=3000, chunk=400)
    rep.add_tlc("c22_records", stv)
    rep.add_traces(len(recs))
    for i, clauses in sorted(bad.items()):
        for c in clauses:
            rep.violation(recs[i]["fn"] + ":" + c, dict(meta[i], failing_clauses=clauses, record={k: v for k, v in recs[i].items() if k in ("G", "gs", "N", "SS", "bk", "wk")}))
    rep.part("records", n=len(recs), with_all_neighbours=full_nb, numeric_fallback=nnum, classes=classes)
    rep.sample({k: recs[0][k] for k in ("fn", "G", "gs", "N", "bk", "wk")})

    # ---------------- binding self-test: corrupted records must be rejected
    cands = [r for r in recs if "nb" in r and len(r["kpts"]) > 1 and len(r["bk"]) >= 6]
    if not cands:
        raise MachineryError("no record suitable for the binding self-test")
    r0 = cands[0]
    c1 = copy.deepcopy(r0)
    c1["nb"][0][0] = (c1["nb"][0][0] + 1) % len(c1["kpts"])
    c2 = copy.deepcopy(r0)
    f2 = Fraction(c2["wk"][0][0], c2["wk"][0][1]) + Fraction(1, 7)
    c2["wk"][0] = [f2.numerator, f2.denominator]
    c3 = copy.deepcopy(r0)
    c3["gv"][0][0][2] += 1
    c4 = copy.deepcopy(r0)
    del c4["bk"][-1], c4["wk"][-1]
    for j in range(len(c4["nb"])):
        del c4["nb"][j][-1], c4["gv"][j][-1]
    _, b2 = ftable.validate_records("BShellsRec.tla", ftable.REC_CFG, [c1, c2, c3, c4, r0], scratch.name("c22_selftest"))
    want = {0: "k_plus_b", 1: "complete", 2: "k_plus_b", 3: "neg_closed"}
    for j, cl in want.items():
        if cl not in b2.get(j, []):
            raise MachineryError(f"binding self-test failed: corrupted record {j} not rejected by clause {cl}: {b2.get(j)}")
    if 4 in b2:
        raise MachineryError(f"binding self-test failed: the uncorrupted record is rejected: {b2[4]}")
    rep.part("binding_selftest", corrupted_records_rejected={str(k): v for k, v in b2.items()})

    # ---------------- the calls on which the code found no stencil: known finding only where the model of the code's rule predicts it
    resolve_failures(rep, failures, scratch)

    # ---------------- numeric only: random real lattices
    nrand = 60 if thorough else 20
    worst = dict(complete=0.0, neg=0.0, bk_cart=0.0)
    nr_raise = 0
    nr_ok = 0
    for _ in range(nrand):
        while True:
            B = np.array([[rng.uniform(-1, 1) for _ in range(3)] for _ in range(3)]) + np.eye(3) * rng.choice([1.0, 1.5])
            if abs(np.linalg.det(B)) > 0.4 and np.linalg.cond(B) < 6:
                break
        N = tuple(rng.randint(1, 4) for _ in range(3))
        kpts = mesh_points(N)
        rng.shuffle(kpts)
        kptirr = sorted(rng.sample(range(len(kpts)), min(len(kpts), 4)))
        kg = np.array(kpts) + np.array([[rng.randint(-1, 1) for _ in range(3)] for _ in kpts]) * np.array(N)[None, :]
        kred = kg / np.array(N, dtype=float)[None, :] + np.array([[rng.uniform(-1e-9, 1e-9) for _ in range(3)] for _ in kpts])
        rep.case(("random_lattice", N, round(float(B[0, 0]), 6)))
        try:
            bkv = code.from_kpoints(B, N, kred, kptirr, 2, RANDOM_TOL)
        except Exception as ex:  # noqa
            try:
                code.find_bk_vectors(B, N, 2, RANDOM_TOL)
            except Exception:  # noqa
                nr_raise += 1
                continue
            rep.violation("from_kpoints:raised", dict(recip_lattice=B.tolist(), mp_grid=list(N), error=repr(ex)[:300], kpoints_red=kred.tolist(),
                                                      kptirr=kptirr, what="find_bk_vectors alone succeeds on the same input"))
            continue
        nr_ok += 1
        num = numeric_clauses(B, N, bkv.wk, bkv.bk_grid, bkv.bk_cart)
        for k in worst:
            worst[k] = max(worst[k], num[k])
        okn = True
        for ik in kptirr:
            for ib in range(len(bkv.wk)):
                if np.any(kg[ik] + bkv.bk_grid[ib] != kg[bkv.neighbours[ik][ib]] + bkv.G[ik][ib] * np.array(N)):
                    okn = False
        if num["complete"] > 1e-8 or num["neg"] > 1e-8 or num["bk_cart"] > 1e-9 or not okn:
            rep.violation("from_kpoints:random_lattice", dict(recip_lattice=B.tolist(), mp_grid=list(N), deviations=num, neighbours_ok=okn))
    if nr_raise > nrand // 2:
        rep.violation("find_bk_vectors:no_stencil_found:random_lattices",
                      dict(what="find_bk_vectors finds no stencil on most generic lattices (cond < 6, meshes <= 4)", failed=nr_raise, of=nrand))
    rep.part("numeric_only", random_lattices=nrand, stencils=nr_ok, raised_no_stencil=nr_raise, worst_deviation=worst, tolerance=1e-8,
             bk_complete_tol_handed_to_the_code=RANDOM_TOL)
    skipped.report(rep)
    return rep.finish()


def reorder_probe(rep, skipped, out, rng):
    """BKVectors.reorder_mmn on a copy whose b-vectors are permuted -> record of the re-ordered copy (or None)"""
    bkv = out["bkv"]
    nnb = len(bkv.wk)
    p = list(range(nnb))
    rng.shuffle(p)
    try:
        other = copy.deepcopy(bkv)
        other.bk_grid = np.array(bkv.bk_grid)[p]
        other.bk_cart = np.array(bkv.bk_cart)[p]
        other.wk = np.array(bkv.wk)[p]
        for ik in list(other.neighbours.keys()):
            other.neighbours[ik] = np.array(bkv.neighbours[ik])[p].copy()
            other.G[ik] = np.array(bkv.G[ik])[p].copy()

        class Mmn:
            pass
        mmn = Mmn()
        mmn.data = {ik: np.array(p, dtype=float)[:, None] * np.ones((1, 2)) for ik in other.neighbours.keys()}
        fn = getattr(bkv, "reorder_mmn")
    except (AttributeError, TypeError) as ex:
        skipped.add("reorder_mmn", ex)
        return None
    rep.case(("reorder_mmn", out["info"]["lattice"], tuple(out["info"]["mp_grid"])))
    try:
        quiet_call(fn, other, mmn)
    except (AttributeError, TypeError) as ex:
        skipped.add("reorder_mmn", ex)
        return None
    except Exception as ex:  # noqa
        rep.violation("raises:reorder_mmn:" + type(ex).__name__, dict(out["info"], permutation=p, error=repr(ex)[:300]))
        return None
    for ik, d in mmn.data.items():
        if np.any(np.array(d)[:, 0] != np.arange(nnb)):
            rep.violation("reorder_mmn:data_order", dict(out["info"], permutation=p, ik=int(ik), got=np.array(d)[:, 0].tolist()))
            break
    other_w = copy.copy(other)
    other_w.wk = np.array(other.wk) * out["scale"] ** 2
    L = out["L"]
    rec, problems = record_of(L["G"], L["gs"], tuple(out["info"]["mp_grid"]), out["info"]["search_supercell"], other_w, out["kint"], out["irr"],
                              fn="reorder_mmn")
    for pr in problems:
        rep.violation("reorder_mmn:" + pr, dict(out["info"], permutation=p))
    if problems or np.any(np.array(other.bk_grid) != np.array(bkv.bk_grid)):
        if not problems:
            rep.violation("reorder_mmn:bk_order", dict(out["info"], permutation=p))
        return None
    return rec


def resolve_failures(rep, failures, scratch):
    """the code raised 'no complete set' although the specification finds a stencil.  It is the recorded known finding only if
    the specification's model of the rule the code applies ('latt' for an integer Cartesian basis as given, 'rank3' for a
    rotated basis) finds none either on that lattice/mesh; anything else is a new failure"""
    if not failures:
        rep.part("no_stencil", calls=0)
        return
    need = {}
    for f in failures:
        if f["rule"] is not None:
            need.setdefault(f["ss"], set()).add((f["lattice"], tuple(f["mesh"]), f["rule"]))
    outcome = {}
    for ss, trip in sorted(need.items()):
        lats = sorted({t[0] for t in trip})
        ms = sorted({t[1] for t in trip})
        rules = sorted({t[2] for t in trip} | {"pair"})
        only = {f"{lat}:{100 * N[0] + 10 * N[1] + N[2]}" for lat, N, _ in trip}
        st = run_mc(scratch.name(f"c22_code_rule_ss{ss}"), mc_cfg(ms, lats, rules, only=only, ssc=ss,
                                                                   invariants=["SelFunctional", "SelNegClosed", "SelWhole", "SelComplete", "SelNeighbours", "SelShape"]))
        ftable.spec_violation(rep, st, f"c22_code_rule_ss{ss}")
        rep.add_tlc(f"c22_code_rule_ss{ss}", st)
        for (lat, N, rule), states in runs_of(st).items():
            outcome[(ss, lat, N, rule)] = states[-1]["st"]["pc"]
    predicted, unpredicted, too_small = [], [], []
    for f in failures:
        k = (f["ss"], f["lattice"], tuple(f["mesh"]))
        spec_finds = outcome.get(k + ("pair",))
        model = outcome.get(k + (f["rule"],)) if f["rule"] else None
        det = dict(what="BKVectors.find_bk_vectors raised although the specification proves that the search box contains a complete set of "
                        "shells (the Wannier90 procedure finds it)", lattice=f["lattice"], mp_grid=list(f["mesh"]), search_supercell=f["ss"],
                   recip_lattice=f["recip_lattice"], error=f["error"], call=f["where"], model_rule=f["rule"], model_of_code=model,
                   specification=spec_finds)
        if spec_finds == "fail" and f["ss"] != 2:
            # a non-default search box that contains no complete set of shells at all: not a failure of the code
            too_small.append(f"{f['lattice']}:{'x'.join(str(int(n)) for n in f['mesh'])}:ss{f['ss']}")
        elif spec_finds == "done" and model == "fail":
            predicted.append(f"{f['lattice']}:{'x'.join(str(int(n)) for n in f['mesh'])}")
            rep.violation(KEY_KNOWN, det)
        else:
            unpredicted.append(f"{f['lattice']}:{'x'.join(str(int(n)) for n in f['mesh'])}")
            rep.violation(KEY_UNPRED, det)
    rep.part("no_stencil", calls=len(failures), predicted_by_model_of_code=sorted(set(predicted)), unpredicted=sorted(set(unpredicted)),
             search_box_contains_no_complete_set=sorted(set(too_small)),
             note="'latt' / 'rank3' model w90files.bkvectors.is_parallel_shell as it is called by find_bk_vectors (mesh coordinates against a "
                  "Cartesian projector); run only for the lattice/mesh pairs on which the code failed")
