"""X03 (extension): band selection and windows on the Wannier90 data container.

spec  : BandSelect.tla (EXTENDS W90Store.tla: W90_file.select_bands as the loop over the `dimensions` each class passes,
        CheckPoint.select_bands, BKVectors.select_bands, WannierData.select_bands with its argument handling - list of
        indices / boolean mask / energy window / band_start..band_end / no argument, allow_again -, apply_window,
        set_projections' use of the recorded selection, the manual cut of a file added later; the property element by
        element: Restricted / EntriesFrom), MC_BandSelectFiles.tla (function table: every file class, NB 1..3, every
        selection with repetitions and permutations, a second selection on the result), MC_BandSelect.tla (the container as
        a state machine over a pool of small files), BandSelectRec.tla (record validation)
bind  : every state of MC_BandSelectFiles is executed on the real EIG, AMN, MMN, SPN, UHU, UIU, SHU, SIU, CheckPoint,
        BKVectors (select_bands twice, exact comparison of sizes and of every table entry); the behaviours of MC_BandSelect
        are executed on a real WannierData (status of every call as the documentation demands it, returned bands, every
        file after every step, set_file / set_projections / a file cut by hand after the selections, to_npz / from_npz before
        and after a selection); seeded random files, containers and arguments are recorded through the real calls and the
        clauses of BandSelectRec are evaluated by TLC.
"""
import copy
import json
import os
import pickle
import random
import re
import shutil
import threading
import types
import warnings
import zlib
import numpy as np

from .. import tlc, ftable
from ..common import Report, MachineryError, seed, quiet, workdir, WORK
from . import _x03_w90 as W
from ._x03_w90 import canon, build, try_project, cont_project, same_files, diff_files, nobook, to_json_obj

PROPS = {
    "X03": dict(level="model_checking",
                technique="TLC exhaustive on BandSelect.tla (MC_BandSelectFiles: select_bands of every file class as a function table over all "
                          "selections of NB <= 3 bands, twice; MC_BandSelect: the WannierData container as a state machine - select_bands with "
                          "lists / masks / windows / band ranges / no argument, allow_again, apply_window, set_file and unset_file after a "
                          "selection, set_projections, files cut by hand - over all action sequences up to the bound) + replay of every "
                          "function-table state and of the container behaviours on the real w90files classes and WannierData + TLC "
                          "validation of recorded random calls (BandSelectRec) + four must-fail variants of the specification",
                text="TLC checks on the function table: FStatus (an index that does not exist and a wannierised checkpoint are refused, "
                     "everything else is done), FEntries (every entry of every table comes from the selected bands, the other axes, the "
                     "k-points, the other tags and the sizes follow, the checkpoint counts the bands), FShape, FIdentity (all bands in order: "
                     "nothing changes), FCompose (two selections = one selection with composed indices); on the container: Status (a second "
                     "selection without allow_again, negative / too large indices and a window without .eig are refused and change nothing; "
                     "lists, masks, windows, ranges and the empty call are done), MaskEqualsList, AllRestricted, IdentityNoop, WindowDoc (the "
                     "docstring: exactly the bands not entirely below win_min or entirely above win_max), AfterSelect (sizes agree, "
                     "check_conform holds pairwise, chk.num_bands follows), AlwaysConform, SetAfterSelection (set_file refuses after a "
                     "selection unless allow_selected_bands; a conforming file is taken, another one not), SetProjectionsRight / "
                     "SetManuallyRight / SetLaterAccepted (a file computed afresh and cut by set_projections or by hand with the returned "
                     "selections holds the bands of the container), Deprecated (apply_window raises, changes nothing), NpzKeeps / NpzCommutes "
                     "(a selected container survives to_npz/from_npz; select then save/load = save/load then select). Every state is "
                     "executed on the real classes and compared exactly (dyadic data); random records are validated clause by clause.",
                note="data are multiples of 1/8 (exact in binary): every comparison is exact, there is no tolerance. Named exclusions "
                     "(reported as information, never as violation): EdgeTie (an energy exactly on a window edge), Straddles (a band below "
                     "the window at one k-point and above it at another, never inside), HasDuplicates (repeated bands: chk.num_bands counts "
                     "distinct bands, the files count repetitions), empty selections (list [] / window without bands: refused or NB = 0 "
                     "depending on the checkpoint), masks of another length than NB, list / mask / no argument without an .eig file, "
                     "the state of the container after a call that failed inside the checkpoint (the other files are already cut), the "
                     "recorded selected_bands attributes (bookkeeping; decided through set_projections), exception classes, the order of a "
                     "returned list. Not modelled: WIN (dis_win_min/max), UNK, SOC / WannierDataSOC, the symmetrizer, negative indices "
                     "at file level, tuples / ranges as selected_bands.",
                ref="DESIGN.md 10.9"),
}

FIXED = dict(WriterIndexing='"nested"', MmnWriterBkvec="TRUE", LoadtxtSqueeze="FALSE",
             MaskShapeCheck='"before"', Bookkeeping='"composed"', ChkNumBands='"update"', WindowOverK='"any"')
ALLCLS = '{"eig", "amn", "mmn", "bkvec", "chk", "spn", "uhu", "uiu", "shu", "siu"}'
ARGS = ["L012", "L12", "L20", "L1", "L0", "L112", "L3", "Lm1", "Le", "MTFT", "MTTT", "MTT", "Win", "Wlow", "Wnone", "Wtie",
        "Wstr", "Wbs", "Wbe", "NONE"]          # (the catalogue of MC_BandSelect.tla also has L01, L10, MFTT, MFT, Winf)
FINV = ["FStatus", "FEntries", "FShape", "FIdentity", "FCompose", "FBook"]
CINV = ["Status", "MaskEqualsList", "AllRestricted", "IdentityNoop", "WindowDoc", "AfterSelect", "AlwaysConform", "SetAfterSelection",
        "SetProjectionsRight", "SetManuallyRight", "SetLaterAccepted", "Deprecated", "NpzKeeps", "NpzCommutes"]
INF_LO, INF_HI, NO_IDX = -100000, 100000, -1
COMMUTE = ["L1", "Wlow"]


def cpu():
    t = os.times()
    return t.user + t.system + t.children_user + t.children_system


def cfg(spec, consts, invs, sw=None):
    c = dict(FIXED)
    c.update(sw or {})
    c.update(consts)
    return (f"SPECIFICATION {spec}\nCONSTANTS\n" + "".join(f"  {k} = {v}\n" for k, v in c.items())
            + "".join(f"INVARIANT {i}\n" for i in invs) + "CHECK_DEADLOCK FALSE\n")


def tset(xs):
    return "{" + ", ".join(json.dumps(x) if isinstance(x, str) else str(x) for x in xs) + "}"


def cconst(maxlen, presets, args, deep):
    return dict(CLS='{"eig"}', NBS="{1}", MAXLEN=maxlen, PRESETS=tset(presets), ARGS=tset(args), DEEP="TRUE" if deep else "FALSE")


# --------------------------------------------------------------------------- calling the code under test
def call(fn, *a, **kw):
    """-> (result, exception or None, site): site = "module.function" when the package raised, None when the harness did"""
    from ..main import raised_by_code_under_test
    try:
        with quiet(), warnings.catch_warnings():
            warnings.simplefilter("ignore")
            return fn(*a, **kw), None, None
    except (OSError, ImportError, MemoryError, MachineryError):
        raise
    except Exception as ex:
        return None, ex, raised_by_code_under_test(ex)


def exc(ex):
    return f"{type(ex).__name__}: {ex}"[:200]


def harness_side(ex, site, what):
    """an exception that did not come out of the package: the harness's use of a private name / keyword is out of date"""
    if site is None:
        if isinstance(ex, (TypeError, AttributeError, KeyError, ImportError)):
            W.skipped_private(what, exc(ex))
            return True
        raise ex
    return False


def as_ints(r):
    return [int(x) for x in np.asarray(r).ravel().tolist()]


class Capped:
    """passes at most `cap` violations per key to the Report, counts the rest"""

    def __init__(self, rep, cap=3):
        self.rep, self.cap, self.count = rep, cap, {}

    def violation(self, key, detail):
        self.count[key] = self.count.get(key, 0) + 1
        if self.count[key] <= self.cap:
            self.rep.violation(key, detail)


class Notes(dict):
    def note(self, k):
        self[k] = self.get(k, 0) + 1


# --------------------------------------------------------------------------- function table on the real classes
def sel_arg(sel, variant):
    """the selection as the callers pass it: a list or an integer array"""
    return list(sel) if variant % 2 == 0 or len(sel) == 0 else np.array(list(sel), dtype=int)


def has_dup(sel):
    return len(set(sel)) != len(sel)


class FileReplay:
    def __init__(self, vio):
        self.vio, self.n, self.count, self.info = vio, 0, {}, Notes()

    def klass(self, o, sel):
        nb = o["attr"]["num_bands"] if o["cls"] == "chk" else o["dim"].get("NB", 0)
        if o["cls"] == "bkvec":
            return "nothing_to_do"
        if any(not 0 <= j < nb for j in sel):
            return "out_of_range"
        if o["cls"] == "chk" and "v_matrix" in o["dic"]:
            return "wannierised"
        if not sel:
            return "empty"
        if has_dup(sel):
            return "duplicates"
        return "identity" if list(sel) == list(range(nb)) else "subset" if list(sel) == sorted(sel) else "permuted"

    def one(self, s):
        self.n += 1
        o = canon(s["obj"])
        cls = o["cls"]
        x, ex, site = call(build, o)
        if ex is not None:
            if harness_side(ex, site, f"build:{cls}"):
                return
            self.vio.violation(f"{cls}.__init__:exception", dict(cls=cls, dims=o["dim"], exception=exc(ex)))
            return
        p0, prob = try_project(x, cls)
        if p0 != o:
            self.info.note(f"{cls}:cannot_build_the_specification_object")
            return
        cur = o
        steps = [(list(s["sel"]), s["out"])]
        if s["out"]["err"] == "":
            steps.append((list(s["sel2"]), s["out2"]))
        for nstep, (sl, exp) in enumerate(steps, start=1):
            kl = self.klass(cur, sl)
            self.count[(cls, kl)] = self.count.get((cls, kl), 0) + 1
            info = dict(cls=cls, dims=cur["dim"], num_bands=cur["attr"].get("num_bands"), selected_bands=sl, call_number=nstep,
                        first_selection=list(s["sel"]), input_class=kl, k_points=sorted(next(iter(cur["dic"].values()), {}) or []))
            r, ex, site = call(x.select_bands, sel_arg(sl, self.n + nstep))
            if ex is not None and harness_side(ex, site, f"{cls}.select_bands"):
                return
            undecided = kl == "empty"                  # an empty selection: refused by the checkpoint, NB = 0 elsewhere (information)
            if exp["err"] != "":
                if ex is None and not undecided:
                    self.vio.violation(f"{cls.upper()}.select_bands:{kl}:accepted", dict(info, expected="an exception (" + exp["err"] + " in the model)"))
                elif ex is not None and not exc(ex).startswith(exp["err"]):
                    self.info.note(f"{cls}.select_bands:other_exception_class:{type(ex).__name__}")
                return
            if ex is not None:
                if undecided:
                    self.info.note(f"{cls}.select_bands:empty:refused_where_the_model_accepts")
                else:
                    self.vio.violation(f"raises:{cls.upper()}.select_bands:{kl}", dict(info, exception=exc(ex), site=site))
                return
            self.info.note(f"{cls}.select_bands:returns_" + ("self" if r is x else "None" if r is None else "other"))
            gp, prob = try_project(x, cls)
            want = canon(exp["obj"])
            if gp is None:
                self.vio.violation(f"{cls.upper()}.select_bands:{kl}:result", dict(info, problem=prob))
                return
            a, b = nobook(gp), nobook(want)
            if cls == "chk" and kl == "duplicates":
                # repeated bands: what the checkpoint counts is not documented
                if a["attr"].get("num_bands") != b["attr"].get("num_bands"):
                    self.info.note("chk.select_bands:duplicates:num_bands_differs_from_model")
                a = dict(a, attr={k: v for k, v in a["attr"].items() if k != "num_bands"})
                b = dict(b, attr={k: v for k, v in b["attr"].items() if k != "num_bands"})
            if a != b:
                self.vio.violation(f"{cls.upper()}.select_bands:{kl}:result",
                                   dict(info, differing=[f for f in ("attr", "dic", "dim") if a[f] != b[f]], expected_dim=b["dim"], got_dim=a["dim"],
                                        expected_num_bands=b["attr"].get("num_bands"), got_num_bands=a["attr"].get("num_bands"),
                                        what="the object after select_bands is not the object restricted to the selected bands"))
                return
            if not W.shapes_ok(x, cls):
                self.vio.violation(f"{cls.upper()}.select_bands:{kl}:shape", dict(info, what="tables do not have the sizes NB / NW / NNB say"))
                return
            if cls == "chk":
                sb = gp["attr"].get("selected_bands")
                self.info.note("chk.selected_bands:" + ("as_model(composed)" if sb == want["attr"].get("selected_bands") else
                                                        "last_argument" if sb == sl else "other"))
            cur = want


# --------------------------------------------------------------------------- container behaviours on a real WannierData
class Duck:
    """stands in for a Projection inside a ProjectionsSet: set_projections only asks for the number of Wannier functions, the
    centres and the lattice"""
    spinor = False

    def __init__(self, nw):
        self.num_wann = nw
        self.wannier_centers_red = np.zeros((nw, 3))
        self.wyckoff_position = types.SimpleNamespace(spacegroup=types.SimpleNamespace(lattice=np.eye(3)))


def kwargs_of(a, again, variant=0):
    """the keyword arguments of WannierData.select_bands for an argument of the specification"""
    kw = {}
    if a["kind"] == "list":
        sl = [int(v) for v in a["list"]]
        kw["selected_bands"] = sl if variant % 2 == 0 or not sl else np.array(sl, dtype=int)
    elif a["kind"] == "mask":
        kw["selected_bands"] = np.array([bool(v) for v in a["mask"]], dtype=bool)
    elif a["kind"] == "window":
        lo, hi = int(a["lo"]), int(a["hi"])
        if lo != INF_LO or hi != INF_HI or (int(a["bs"]) == NO_IDX and int(a["be"]) == NO_IDX):
            kw["win_min"] = -np.inf if lo == INF_LO else lo / 8
            kw["win_max"] = np.inf if hi == INF_HI else hi / 8
        if int(a["bs"]) != NO_IDX:
            kw["band_start"] = int(a["bs"])
        if int(a["be"]) != NO_IDX:
            kw["band_end"] = int(a["be"])
    if again:
        kw["allow_again"] = True
    return kw


def show_kwargs(kw):
    return {k: (v.tolist() if isinstance(v, np.ndarray) else v) for k, v in kw.items()}


def set_projections_real(w, fresh_obj):
    """WannierData.set_projections with the band-structure part replaced: AMN.from_bandstructure returns the given .amn (all
    bands), everything else is the unmodified method.  -> (exception, site, driven)"""
    from unittest import mock
    import importlib
    WD = importlib.import_module("wannierberri.w90files.wandata")
    PS = importlib.import_module("wannierberri.symmetry.projections").ProjectionsSet
    made = []

    def stub(cls, *a, **kw):
        made.append(build(fresh_obj))
        return made[-1]
    ps = PS()
    ps.projections = [Duck(fresh_obj["dim"]["NW"])]
    with mock.patch.object(WD.AMN, "from_bandstructure", classmethod(stub)):
        _, ex, site = call(w.set_projections, ps, bandstructure=None)
    return ex, site, bool(made)


def cont_canon(c):
    return {k: canon(v) for k, v in dict(c["files"]).items()}


def hkey(hist):
    return tuple((e["op"], e["aid"], e["id"], e["flag"]) for e in hist)


class St:
    """one state of MC_BandSelect, kept small: the behaviour (entries shared between the states), the ghost, and the container
    in canonical form, compressed"""
    __slots__ = ("hist", "clab", "selected", "selbands", "_files")

    def __init__(self, s, intern):
        self.hist = tuple(intern.setdefault(repr(e), e) for e in s["hist"])
        self.clab = [int(v) for v in s["clab"]]
        c = s["cont"]
        self.selected = bool(c["selected"])
        self.selbands = [int(v) for v in c["selbands"]]
        self._files = zlib.compress(pickle.dumps(cont_canon(c), protocol=4), 1)

    def files(self):
        return pickle.loads(zlib.decompress(self._files))


class ContReplay:
    def __init__(self, vio, states, pool, wd):
        self.vio, self.states, self.pool, self.wd = vio, states, pool, wd
        self.memo = {}
        self.info = Notes()
        self.count = {}
        self.nstep = 0
        self.presets_ok = {}

    def new_container(self, init):
        from wannierberri.w90files.wandata import WannierData
        w = WannierData()
        for pid in init["ids"]:
            o = self.pool[pid]
            _, ex, site = call(w.set_file, o["cls"], build(o))
            if ex is not None:
                if not harness_side(ex, site, "WannierData.set_file"):
                    self.vio.violation("raises:WannierData.set_file:conforming", dict(preset=list(init["ids"]), file=pid, exception=exc(ex)))
                return None
        return w

    def describe(self, hist, n):
        return dict(preset_files=list(hist[0]["ids"]),
                    calls=[self.describe_call(e) for e in hist[1:n]])

    @staticmethod
    def describe_call(e):
        if e["op"] == "select":
            return dict(call="select_bands", kwargs=show_kwargs(kwargs_of(e["arg"], e["flag"])))
        if e["op"] == "set_file":
            return dict(call="set_file", file=e["id"], overwrite=True, allow_selected_bands=bool(e["flag"]))
        return dict(call=e["op"], file=e["id"])

    def run(self, s):
        """executes the behaviour of state s; every step whose prefix has not been verified yet is verified"""
        hist = s.hist
        key = hkey(hist)
        w = self.new_container(hist[0])
        if w is None:
            return False
        if key[:1] not in self.memo:
            cur, prob = self.proj(w)
            self.memo[key[:1]] = cur is not None and same_files(cur, self.states[key[:1]].files(), book=True)
            if not self.memo[key[:1]]:
                self.info.note("preset_container_differs_from_model")
        if not self.memo[key[:1]]:
            return False
        rets = []
        for n in range(2, len(hist) + 1):
            pk = key[:n]
            verify = pk not in self.memo
            r = self.step(w, hist, n, rets, verify)
            if verify:
                self.memo[pk] = r
            if not self.memo[pk]:
                return False
        return True

    def proj(self, w):
        try:
            return cont_project(w), None
        except (ValueError, TypeError, AttributeError) as ex:
            return None, exc(ex)

    def step(self, w, hist, n, rets, verify):
        e = hist[n - 1]
        st = self.states[hkey(hist[:n])]
        op = e["op"]
        if verify:
            self.nstep += 1
            k = (op, e["class"] if op in ("select", "set_file") else "after_%d_selections" % len(rets) if op.startswith("set_") else "")
            self.count[k] = self.count.get(k, 0) + 1
        info = self.describe(hist, n) if verify else None
        want = st.files() if verify else None
        # "a refused call changes nothing" is decided on the real container itself: its files before the call
        before = None
        if verify and (op == "apply_window" or (op == "select" and e["must"] == "refuse") or (op == "set_file" and e["class"] == "after_selection")):
            before, _ = self.proj(w)
            if before is None:
                return False
        if op == "select":
            kw = kwargs_of(e["arg"], e["flag"], variant=self.nstep)
            r, ex, site = call(w.select_bands, **kw)
            if ex is not None and harness_side(ex, site, "WannierData.select_bands"):
                return False
            ret = None
            if ex is None:
                try:
                    ret = as_ints(r)
                except Exception:
                    if verify:
                        self.vio.violation("WannierData.select_bands:return_type", dict(info, returned=repr(r)[:200]))
                    return False
                rets.append(ret)
            if not verify:
                return True
            cls, must = e["class"], e["must"]
            info = dict(info, input_class=cls, documentation_demands=must)
            if must in ("refuse", "refuse_wannierised") and ex is None:
                self.vio.violation(f"WannierData.select_bands:{cls if must == 'refuse' else 'wannierised'}:accepted", dict(info, returned=ret))
                return False
            if must == "accept" and ex is not None:
                self.vio.violation(f"raises:WannierData.select_bands:{cls}", dict(info, exception=exc(ex), site=site,
                                                                                 expected_return=list(e["ret"])))
                return False
            if (ex is None) != (e["err"] == ""):
                self.info.note(f"select_bands:{cls}:" + ("refuses_where_the_model_accepts" if ex is not None else "accepts_where_the_model_refuses"))
                return False
            if ex is not None and not exc(ex).startswith(e["err"]):
                self.info.note(f"select_bands:{cls}:other_exception_class:{type(ex).__name__}")
            cur, prob = self.proj(w)
            if cur is None:
                self.vio.violation(f"WannierData.select_bands:{cls}:files", dict(info, problem=prob))
                return False
            if ex is not None:
                if must == "refuse":
                    if not same_files(cur, before, book=True):
                        self.vio.violation(f"WannierData.select_bands:{cls}:changed_on_refusal", dict(info, differing=diff_files(cur, before)))
                        return False
                    return True
                if e["at"] != "":
                    self.info.note(f"select_bands:fails_inside_{e['at']}_after_cutting_the_other_files:" +
                                   ("as_model" if same_files(cur, want) else "differs_from_model"))
                return same_files(cur, want)
            # done
            exp_ret = [int(v) for v in e["ret"]]
            if must == "accept":
                if set(ret) != set(exp_ret) or len(ret) != len(exp_ret):
                    self.vio.violation(f"WannierData.select_bands:{cls}:returned", dict(info, expected=exp_ret, got=ret))
                    return False
                if ret != exp_ret:
                    self.info.note(f"select_bands:{cls}:returned_order_differs_from_model")
                    return False
                if not same_files(cur, want):
                    self.vio.violation(f"WannierData.select_bands:{cls}:files",
                                       dict(info, returned=ret, differing=diff_files(cur, want),
                                            expected_sizes={k: v["dim"] for k, v in want.items()}, got_sizes={k: v["dim"] for k, v in cur.items()},
                                            expected_chk_num_bands=want.get("chk", {}).get("attr", {}).get("num_bands"),
                                            got_chk_num_bands=cur.get("chk", {}).get("attr", {}).get("num_bands"),
                                            what="a file of the container is not the file restricted to the returned bands"))
                    return False
                bad = [k for k, v in W.files_of(w).items() if k in W.BAND_CARRYING and not W.shapes_ok(v, k)]
                if bad:
                    self.vio.violation(f"WannierData.select_bands:{cls}:shape", dict(info, files=bad))
                    return False
            elif ret != exp_ret or not same_files(cur, want):
                self.info.note(f"select_bands:{cls}:result_differs_from_model")
                return False
            sb = getattr(w, "selected_bands", None)
            if sb is None:
                W.skipped_private("WannierData.selected_bands", "attribute gone")
            else:
                try:
                    sb = as_ints(sb)
                    self.info.note("WannierData.selected_bands:" + ("as_model(composed)" if sb == st.selbands
                                                                   else "last_argument" if sb == ret else "other"))
                except Exception:
                    self.info.note("WannierData.selected_bands:unreadable")
            if "chk" in cur and "chk" in want:
                self.info.note("chk.selected_bands:" + ("as_model(composed)" if cur["chk"]["attr"].get("selected_bands") == want["chk"]["attr"].get("selected_bands")
                                                        else "last_argument" if cur["chk"]["attr"].get("selected_bands") == ret else "other"))
            return True
        if op == "apply_window":
            _, ex, site = call(w.apply_window, win_min=0.0, win_max=1.0)
            if ex is not None and harness_side(ex, site, "WannierData.apply_window"):
                return False
            if not verify:
                return True
            cur, prob = self.proj(w)
            if ex is None:
                self.vio.violation("WannierData.apply_window:accepted", dict(info, what="the deprecated method did not raise"))
                return False
            if cur is None or not same_files(cur, before, book=True):
                self.vio.violation("WannierData.apply_window:changed", dict(info, problem=prob))
                return False
            if not isinstance(ex, NotImplementedError):
                self.info.note(f"apply_window:other_exception_class:{type(ex).__name__}")
            return True
        if op == "set_file":
            o = self.pool[e["id"]]
            kw = dict(overwrite=True)
            if e["flag"]:
                kw["allow_selected_bands"] = True
            _, ex, site = call(w.set_file, o["cls"], build(o), **kw)
            if ex is not None and harness_side(ex, site, "WannierData.set_file"):
                return False
            if not verify:
                return True
            cls = e["class"]
            info = dict(info, input_class=cls)
            cur, prob = self.proj(w)
            if cls == "conforming":
                if ex is not None:
                    self.vio.violation("raises:WannierData.set_file:conforming", dict(info, exception=exc(ex), site=site))
                    return False
                if cur is None or not same_files(cur, want):
                    self.vio.violation("WannierData.set_file:conforming:files", dict(info, problem=prob, differing=[] if cur is None else diff_files(cur, want)))
                    return False
                return True
            if ex is None:
                self.vio.violation(f"WannierData.set_file:{cls}:accepted", dict(info, what="set_file must refuse"))
                return False
            if cls == "after_selection" and (cur is None or not same_files(cur, before, book=True)):
                self.vio.violation("WannierData.set_file:after_selection:changed_on_refusal", dict(info, problem=prob))
                return False
            if cur is None or not same_files(cur, want):
                self.info.note("set_file:not_conforming:container_differs_from_model")
                return False
            return True
        if op == "unset_file":
            _, ex, site = call(w.unset_file, e["id"])
            if ex is not None and harness_side(ex, site, "WannierData.unset_file"):
                return False
            if not verify:
                return True
            cur, prob = self.proj(w)
            if ex is not None or cur is None or not same_files(cur, want):
                self.info.note("unset_file:differs_from_model")
                return False
            return True
        # a file added after the selections
        fresh = self.pool[e["id"]]
        nsel = "no_selection" if not rets else "one_selection" if len(rets) == 1 else "several_selections"
        if op == "set_projections":
            ex, site, driven = set_projections_real(w, fresh)
            if ex is not None and harness_side(ex, site, "WannierData.set_projections"):
                return False
            if not driven:
                W.skipped_private("WannierData.set_projections", "AMN.from_bandstructure is not called any more")
                return False
            site_name = "WannierData.set_projections"
        else:
            x = build(fresh)
            ex = site = None
            for sl in rets:
                _, ex, site = call(x.select_bands, list(sl))
                if ex is not None:
                    break
            if ex is None:
                _, ex, site = call(w.set_file, "amn", x, overwrite=True, allow_selected_bands=True)
            if ex is not None and harness_side(ex, site, "select_bands / set_file (file cut by hand)"):
                return False
            site_name = "file_cut_by_hand"
        if not verify:
            return True
        info = dict(info, selections_before=[list(r_) for r_ in rets], input_class=nsel)
        if (ex is None) != (e["err"] == ""):
            if e["err"] == "":
                self.vio.violation(f"raises:{site_name}:{nsel}", dict(info, exception=exc(ex), site=site))
            else:
                self.info.note(f"{op}:accepts_where_the_model_refuses")
            return False
        if ex is not None:
            return True
        cur, prob = self.proj(w)
        if cur is None or "amn" not in cur or cur["amn"] != want["amn"]:
            got = None if cur is None or "amn" not in cur else cur["amn"]
            self.vio.violation(f"{site_name}:wrong_bands:{nsel}",
                               dict(info, problem=prob, what="the .amn of the container is not the fresh .amn restricted to the bands of the container",
                                    bands_of_the_container=st.clab,
                                    expected_first_rows={k: v[:3] for k, v in list(want["amn"]["dic"]["data"].items())[:1]},
                                    got_first_rows=None if got is None else {k: v[:3] for k, v in list(got["dic"]["data"].items())[:1]},
                                    units="1/8, [re, im]"))
            return False
        others = {k: v for k, v in cur.items() if k not in ("amn", "chk")}
        if not same_files(others, {k: v for k, v in want.items() if k not in ("amn", "chk")}):
            self.info.note(f"{op}:other_files_differ_from_model")
            return False
        return True

    # ---- to_npz / from_npz around a selection
    def npz(self, s, succ):
        """s: a state with a savable container holding an .eig; succ: {aid: successor state of select(aid)}"""
        from wannierberri.w90files.wandata import WannierData
        hist = s.hist
        done = 0
        for aid, t in sorted(succ.items()):
            w = self.rebuild(hist)
            if w is None:
                return done
            d = os.path.join(self.wd, f"npz{self.nstep}_{done}")
            os.makedirs(d, exist_ok=True)
            try:
                info = dict(self.describe(hist, len(hist)), then=dict(select_bands=show_kwargs(kwargs_of(t.hist[-1]["arg"], False))))
                cur0, _ = self.proj(w)
                _, ex, site = call(w.to_npz, os.path.join(d, "a"))
                if ex is not None:
                    if not harness_side(ex, site, "WannierData.to_npz"):
                        self.vio.violation("raises:WannierData.to_npz:after_selection", dict(info, exception=exc(ex)))
                    return done
                wl, ex, site = call(WannierData.from_npz, os.path.join(d, "a"))
                if ex is not None:
                    if not harness_side(ex, site, "WannierData.from_npz"):
                        self.vio.violation("raises:WannierData.from_npz:after_selection", dict(info, exception=exc(ex)))
                    return done
                curl, prob = self.proj(wl)
                if curl is None or not same_files(curl, cur0, book=True):
                    self.vio.violation("WannierData.from_npz:after_selection:files", dict(info, problem=prob, differing=[] if curl is None else diff_files(curl, cur0),
                                                                                         what="a container saved after the calls and loaded back holds other files"))
                    return done
                a = t.hist[-1]["arg"]
                # load, then select
                r2, ex2, site2 = call(wl.select_bands, **kwargs_of(a, True))
                # select, then save and load
                r1, ex1, site1 = call(w.select_bands, **kwargs_of(a, True))
                if (ex1 is None) != (ex2 is None):
                    self.vio.violation("WannierData.select_bands:npz_commutes:status", dict(info, on_loaded=None if ex2 is None else exc(ex2),
                                                                                           on_original=None if ex1 is None else exc(ex1)))
                    return done
                if ex1 is not None:
                    self.info.note("npz:select_refused_on_both")
                    done += 1
                    continue
                _, ex, site = call(w.to_npz, os.path.join(d, "b"))
                w1, ex, site = (None, ex, site) if ex is not None else call(WannierData.from_npz, os.path.join(d, "b"))
                if ex is not None:
                    if not harness_side(ex, site, "WannierData.to_npz/from_npz"):
                        self.vio.violation("raises:WannierData.from_npz:after_selection", dict(info, exception=exc(ex)))
                    return done
                p2, _ = self.proj(wl)
                p1, _ = self.proj(w1)
                want = t.files()
                if p1 is None or p2 is None or not same_files(p1, p2) or as_ints(r1) != as_ints(r2):
                    self.vio.violation("WannierData.select_bands:npz_commutes:files",
                                       dict(info, differing=[] if p1 is None or p2 is None else diff_files(p1, p2), returned=[as_ints(r1), as_ints(r2)],
                                            what="load then select differs from select then save and load"))
                    return done
                if t.hist[-1]["must"] == "accept" and not same_files(p2, want):
                    self.vio.violation("WannierData.select_bands:on_loaded_container:files", dict(info, differing=diff_files(p2, want)))
                    return done
                done += 1
            finally:
                shutil.rmtree(d, ignore_errors=True)
        return done

    def rebuild(self, hist):
        w = self.new_container(hist[0])
        if w is None:
            return None
        rets = []
        for n in range(2, len(hist) + 1):
            if not self.step(w, hist, n, rets, False):
                return None
        return w


# --------------------------------------------------------------------------- records
def rand_c(rng):
    return [rng.randint(-60, 60), rng.randint(-60, 60)]


def rand_obj(rng, cls, nk, nb, nw, nnb, ks, wannierised=False, energies=None):
    if cls == "eig":
        return dict(cls=cls, attr=dict(NK=nk), dic=dict(data={k: list(energies[k]) for k in ks}), dim=dict(NB=nb, NK=nk))
    if cls == "amn":
        attr = dict(NK=nk)
        if rng.random() < 0.4:
            attr.update(positions=[[rng.randint(-8, 8) for _ in range(3)] for _ in range(nw)], orbitals=[rng.choice(["s", "pz", "dxy"]) for _ in range(nw)],
                        radial_nodes_list=[rng.randint(0, 2) for _ in range(nw)], basis_list=[[[8, 0, 0], [0, 8, 0], [0, 0, 8]] for _ in range(nw)],
                        spread_list=[rng.randint(4, 16) for _ in range(nw)], spinor=False)
        return dict(cls=cls, attr=attr, dic=dict(data={k: [[rand_c(rng) for _ in range(nw)] for _ in range(nb)] for k in ks}), dim=dict(NB=nb, NW=nw, NK=nk))
    if cls == "mmn":
        return dict(cls=cls, attr=dict(NK=nk),
                    dic=dict(data={k: [[[rand_c(rng) for _ in range(nb)] for _ in range(nb)] for _ in range(nnb)] for k in ks},
                             bk_reorder={k: rng.sample(range(nnb), nnb) for k in ks}), dim=dict(NNB=nnb, NB=nb, NK=nk))
    if cls == "spn":
        return dict(cls=cls, attr=dict(NK=nk), dic=dict(data={k: [[[rand_c(rng) for _ in range(3)] for _ in range(nb)] for _ in range(nb)] for k in ks}),
                    dim=dict(NB=nb, NK=nk))
    if cls in ("uhu", "uiu"):
        return dict(cls=cls, attr=dict(NK=nk),
                    dic=dict(data={k: [[[[rand_c(rng) for _ in range(nb)] for _ in range(nb)] for _ in range(nnb)] for _ in range(nnb)] for k in ks}),
                    dim=dict(NNB=nnb, NB=nb, NK=nk))
    if cls in ("shu", "siu"):
        return dict(cls=cls, attr=dict(NK=nk),
                    dic=dict(data={k: [[[[rand_c(rng) for _ in range(3)] for _ in range(nb)] for _ in range(nb)] for _ in range(nnb)] for k in ks}),
                    dim=dict(NNB=nnb, NB=nb, NK=nk))
    if cls == "bkvec":
        B6 = [[1, 0, 0], [-1, 0, 0], [0, 1, 0], [0, -1, 0], [0, 0, 1], [0, 0, -1]]
        nbr = {k: [(k + B6[j][0]) % nk for j in range(nnb)] for k in ks}
        return dict(cls=cls, attr=dict(bk_grid=B6[:nnb], wk=[rng.randint(1, 9) for _ in range(nnb)], kpt_grid=[[k, 0, 0] for k in range(nk)],
                                       kptirr=list(ks), mp_grid=[nk, 1, 1], recip_lattice=[[8, 0, 0], [0, 8, 0], [0, 0, 8]]),
                    dic=dict(neighbours=nbr, G={k: [[(k + B6[j][0] - nbr[k][j]) // nk, B6[j][1], B6[j][2]] for j in range(nnb)] for k in ks}),
                    dim=dict(NK=nk, NNB=nnb))
    if cls == "chk":
        attr = dict(mp_grid=[nk, 1, 1], real_lattice=[[8, 0, 0], [0, 8, 0], [0, 0, 8]], num_wann=nw, num_bands=nb, num_kpts=nk,
                    kpt_red=[[k, 0, 0] for k in range(nk)])
        dic = {}
        if wannierised:
            attr.update(wannier_centers_cart=[[rng.randint(-8, 8) for _ in range(3)] for _ in range(nw)], wannier_spreads=[rng.randint(4, 16) for _ in range(nw)])
            dic["v_matrix"] = {k: [[rand_c(rng) for _ in range(nw)] for _ in range(nb)] for k in ks}
        return dict(cls=cls, attr=attr, dic=dic, dim=dict(NK=nk))
    raise ValueError(cls)


def rand_energies(rng, nk, nb):
    """energies in eighths: bands ordered at every k-point (sometimes crossing the neighbours' ranges), now and then unordered"""
    out = {}
    base = sorted(rng.sample(range(-80, 81, 4), nb))
    for k in range(nk):
        e = [b + rng.choice([0, 0, 4, -4, 12, 24]) for b in base]
        out[k] = e if rng.random() < 0.15 else sorted(e)
    return out


def rand_sel(rng, nb, kind):
    """a selection of the given kind out of nb >= 2 bands"""
    if kind == "identity" or nb == 0:
        return list(range(nb))
    if kind == "subset":
        return sorted(rng.sample(range(nb), rng.randint(1, nb - 1)))
    if kind == "permuted":
        while True:
            sl = rng.sample(range(nb), rng.randint(2, nb))
            if sl != sorted(sl):
                return sl
    if kind == "duplicates":
        j = rng.randrange(nb)
        sl = [j, j] + [rng.randrange(nb) for _ in range(rng.randint(0, nb - 1))]
        rng.shuffle(sl)
        return sl
    if kind == "out_of_range":
        return sorted(rng.sample(range(nb), rng.randint(0, nb - 1)) + [nb + rng.randint(0, 2)])
    if kind == "negative":
        return [-1 - rng.randrange(2)] + sorted(rng.sample(range(nb), rng.randint(0, nb - 1)))
    return []


FILE_KINDS = ("subset", "permuted", "identity", "duplicates", "out_of_range", "empty")
# the argument flavours of the recorded container calls (cycled through, so that every class occurs for every seed); the first
# group leads to the class of the same name by construction on a container with an .eig, without a wannierised checkpoint
FLAVOURS = ("subset", "permuted", "identity", "duplicates", "out_of_range", "negative", "empty_list", "mask_partial", "mask_all",
            "window_one_edge", "window_tie", "again_refused", "none", "range",
            "mask_none", "mask_wrong_length", "window", "window", "window_inf", "window_and_range", "no_eig", "wannierised")


def rand_arg(rng, nb, energies, flavour):
    """-> the argument, or None when the flavour cannot be made on these energies"""
    a = dict(kind="none", list=[], mask=[], lo=INF_LO, hi=INF_HI, bs=NO_IDX, be=NO_IDX)
    if flavour in ("again_refused", "no_eig", "wannierised"):
        flavour = rng.choice(["subset", "window_one_edge", "none", "mask_all"])
    if flavour in ("subset", "permuted", "identity", "duplicates", "out_of_range", "negative", "empty_list"):
        a["kind"] = "list"
        a["list"] = rand_sel(rng, nb, flavour)
        return a
    if flavour.startswith("mask"):
        a["kind"] = "mask"
        if flavour == "mask_all":
            a["mask"] = [True] * nb
        elif flavour == "mask_none":
            a["mask"] = [False] * nb
        elif flavour == "mask_wrong_length":
            a["mask"] = [rng.random() < 0.6 for _ in range(nb + rng.choice([-1, 1]))]
        else:
            while True:
                a["mask"] = [rng.random() < 0.6 for _ in range(nb)]
                if any(a["mask"]) and not all(a["mask"]):
                    break
        return a
    if flavour == "none":
        return a
    a["kind"] = "window"
    if flavour == "range":
        a["bs"], a["be"] = sorted(rng.sample(range(nb + 1), 2))
        if (a["bs"], a["be"]) == (0, nb):
            a["bs"] = 1
        return a
    if flavour == "window_inf":
        return a
    vals = sorted({v for e in energies.values() for v in e}) if energies else [0]
    mids = [vals[0] - 8] + [(vals[j] + vals[j + 1]) // 2 for j in range(len(vals) - 1) if vals[j + 1] - vals[j] >= 2] + [vals[-1] + 8]
    mids = [m for m in mids if m not in vals] or [vals[0] - 8, vals[-1] + 8]
    if flavour == "window_one_edge":
        # the lowest energy below the edge, the highest band entirely above it: some bands stay, not all
        if not energies:
            return None
        cand = [m for m in mids if m > vals[0] and any(all(e[b] > m for e in energies.values()) for b in range(nb))]
        if not cand:
            return None
        a["hi"] = rng.choice(cand)
        return a
    if flavour == "window_tie":
        lo = rng.choice(vals)
        his = [m for m in mids if m > lo]
        a["lo"], a["hi"] = lo, (rng.choice(his) if his and rng.random() < 0.7 else INF_HI)
        return a
    lo, hi = sorted([rng.choice(mids), rng.choice(mids)])
    q = rng.random()
    if q < 0.2:
        lo = INF_LO
    elif q < 0.4:
        hi = INF_HI
    a["lo"], a["hi"] = lo, hi
    if flavour == "window_and_range":
        a["bs"], a["be"] = sorted(rng.sample(range(nb + 1), 2))
    return a


def rand_container(rng, need_eig=None, wannierised=False, plain=False):
    """plain: at least two bands and, if there is a checkpoint, one without a gauge"""
    nk, nb = rng.randint(1, 3), rng.randint(2 if plain else 1, 5)
    nw, nnb = rng.randint(1, nb), 2
    ks = list(range(nk)) if nk == 1 or rng.random() > 0.2 else sorted(rng.sample(range(nk), nk - 1))
    en = rand_energies(rng, nk, nb)
    keys = [k for k, p in (("chk", 0.6), ("eig", 0.92), ("amn", 0.7), ("mmn", 0.5), ("spn", 0.3), ("uhu", 0.12), ("siu", 0.2), ("bkvec", 0.3))
            if rng.random() < p]
    if need_eig is True and "eig" not in keys:
        keys.append("eig")
    if need_eig is False:
        keys = [k for k in keys if k != "eig"]
    if wannierised and "chk" not in keys:
        keys.append("chk")
    if not [k for k in keys if k in W.BAND_CARRYING]:
        keys.append("amn" if need_eig is False else "eig")
    objs = {k: rand_obj(rng, k, nk, nb, nw, nnb, ks, wannierised=wannierised, energies=en) for k in keys}
    return objs, dict(nk=nk, nb=nb, nw=nw, nnb=nnb, ks=ks, energies=en)


def files_json(files):
    return [[k, to_json_obj(v)] for k, v in sorted(files.items())]


def record_calls(rep, vio, rng, n, info):
    from wannierberri.w90files.wandata import WannierData
    recs, meta = [], []
    it = nfile = ncont = nlater = 0
    classes = sorted(W.SPEC_TAGS)
    while len(recs) < n:
        it += 1
        kind = ("file", "cont", "cont", "later")[it % 4]
        if kind == "file":
            cls, skind = classes[nfile % len(classes)], FILE_KINDS[nfile % len(FILE_KINDS)]       # (deterministic: every kind on five classes)
            nfile += 1
            nk, nb = rng.randint(1, 3), rng.randint(2, 5)
            nw = rng.randint(1, nb)
            ks = list(range(nk)) if rng.random() > 0.2 or nk == 1 else sorted(rng.sample(range(nk), nk - 1))
            o = rand_obj(rng, cls, nk, nb, nw, 2, ks, wannierised=rng.random() < 0.2, energies=rand_energies(rng, nk, nb))
            x = build(o)
            sl = rand_sel(rng, nb, skind)
            r, ex, site = call(x.select_bands, sel_arg(sl, it))
            if ex is not None and harness_side(ex, site, f"{cls}.select_bands"):
                continue
            rec = dict(kind="file", obj=to_json_obj(o), sel=sl, out=dict(err="" if ex is None else type(ex).__name__))
            if ex is None:
                gp, prob = try_project(x, cls)
                if gp is not None and not W.shapes_ok(x, cls):
                    gp, prob = None, "tables do not have the sizes NB / NW / NNB say"       # (such an object cannot be written as a record)
                if gp is None:
                    vio.violation(f"{cls.upper()}.select_bands:recorded:result", dict(cls=cls, dims=o["dim"], selected_bands=sl, problem=prob))
                    continue
                rec["out"]["obj"] = to_json_obj(gp)
            else:
                rec["out"]["obj"] = to_json_obj(o)
            recs.append(rec)
            meta.append(dict(kind=kind, cls=cls, dims=o["dim"], selected_bands=sl, exception=None if ex is None else exc(ex)))
            rep.case(("rec", "file", cls, tuple(sl), it))
            continue
        if kind == "cont":
            flavour = FLAVOURS[ncont % len(FLAVOURS)]
            nfirst = 1 if flavour == "again_refused" else 0 if flavour in ("no_eig", "wannierised") else (ncont // len(FLAVOURS)) % 2
            objs, par = rand_container(rng, need_eig=(flavour != "no_eig"), wannierised=(flavour == "wannierised"), plain=True)
        else:
            flavour = None
            nfirst = (1, 2, 2, 0, 3)[nlater % 5]
            how = ("set_projections", "manually")[nlater % 2]
            objs, par = rand_container(rng, need_eig=True, plain=True)
        w = WannierData()
        ok = True
        for k, o in objs.items():
            _, ex, site = call(w.set_file, k, build(o))
            if ex is not None:
                ok = False
                break
        if not ok:
            info.note("records:random_container_refused")
            continue
        selected = False
        rets = []
        nb = par["nb"]
        # first (valid) selections keeping at least two bands, so that the recorded call is a later one
        for j in range(nfirst):
            sl = sorted(rng.sample(range(nb), rng.randint(min(2, nb), nb)))
            if rng.random() < 0.3:
                rng.shuffle(sl)
            r, ex, site = call(w.select_bands, selected_bands=list(sl), **(dict(allow_again=True) if selected else {}))
            if ex is not None:
                if not harness_side(ex, site, "WannierData.select_bands"):
                    vio.violation("raises:WannierData.select_bands:" + ("identity" if sl == list(range(nb)) else "subset" if sl == sorted(sl) else "permuted"),
                                  dict(files=sorted(objs), sizes=par, selected_bands=sl, exception=exc(ex), recorded=True))
                ok = False
                break
            selected = True
            rets.append(as_ints(r))
            nb = len(sl)
        if not ok:
            continue
        ragged = [k for k, v in W.files_of(w).items() if k in W.BAND_CARRYING and not W.shapes_ok(v, k)]
        if ragged:
            vio.violation("WannierData.select_bands:recorded:files", dict(files=sorted(objs), sizes=par, selections=rets,
                                                                         problem=f"tables of {ragged} do not have the sizes NB / NW / NNB say"))
            continue
        if kind == "later":
            if "amn" not in objs:
                objs_amn = rand_obj(rng, "amn", par["nk"], par["nb"], par["nw"], 2, par["ks"])
            else:
                objs_amn = objs["amn"]
            fresh = rand_obj(rng, "amn", par["nk"], par["nb"], objs_amn["dim"]["NW"], 2, par["ks"])
            nlater += 1
            if how == "set_projections":
                ex, site, driven = set_projections_real(w, fresh)
                if ex is not None and harness_side(ex, site, "WannierData.set_projections"):
                    continue
                if not driven:
                    W.skipped_private("WannierData.set_projections", "AMN.from_bandstructure is not called any more")
                    continue
            else:
                x = build(fresh)
                ex = None
                for sl in rets:
                    _, ex, site = call(x.select_bands, list(sl))
                    if ex is not None:
                        break
                if ex is None:
                    _, ex, site = call(w.set_file, "amn", x, **(dict(overwrite=True) if w.has_file("amn") else {}),
                                       **(dict(allow_selected_bands=True) if selected else {}))
                if ex is not None and harness_side(ex, site, "file cut by hand"):
                    continue
            rec = dict(kind="later", how=how, fresh=to_json_obj(fresh), rets=rets, out=dict(err="" if ex is None else type(ex).__name__))
            if ex is None:
                gp, prob = try_project(w.get_file("amn"), "amn")
                if gp is not None and not W.shapes_ok(w.get_file("amn"), "amn"):
                    gp, prob = None, "tables do not have the sizes NB / NW say"
                if gp is None:
                    vio.violation(f"{how}:recorded:result", dict(problem=prob))
                    continue
                rec["out"]["amn"] = to_json_obj(gp)
            else:
                rec["out"]["amn"] = to_json_obj(fresh)
            recs.append(rec)
            meta.append(dict(kind=kind, how=how, sizes=par, files=sorted(objs), selections_before=rets, exception=None if ex is None else exc(ex)))
            rep.case(("rec", "later", how, it))
            continue
        try:
            before = cont_project(w)
        except (ValueError, TypeError):
            info.note("records:cannot_project_the_container")
            continue
        en = {k: v for k, v in before["eig"]["dic"]["data"].items()} if "eig" in before else None
        a = rand_arg(rng, nb, en, flavour)
        if a is None:
            continue                                # (this flavour cannot be made on these energies: another container)
        ncont += 1
        again = selected and flavour != "again_refused"
        kw = kwargs_of(a, again, variant=it)
        r, ex, site = call(w.select_bands, **kw)
        if ex is not None and harness_side(ex, site, "WannierData.select_bands"):
            continue
        try:
            after = cont_project(w)
            ret = [] if ex is not None else as_ints(r)
            ragged = [k for k, v in W.files_of(w).items() if k in W.BAND_CARRYING and not W.shapes_ok(v, k)]
            if ragged:
                raise ValueError(f"tables of {ragged} do not have the sizes NB / NW / NNB say")
        except (ValueError, TypeError) as pex:
            vio.violation("WannierData.select_bands:recorded:files", dict(files=sorted(objs), sizes=par, kwargs=show_kwargs(kw), problem=exc(pex)))
            continue
        recs.append(dict(kind="cont", files=files_json(before), selected=selected, arg=a, again=again,
                         out=dict(err="" if ex is None else type(ex).__name__, ret=ret, files=files_json(after))))
        meta.append(dict(kind=kind, files=sorted(objs), sizes=dict(par, nb_now=nb), selected_before=selected, kwargs=show_kwargs(kw),
                         exception=None if ex is None else exc(ex), returned=ret))
        rep.case(("rec", "cont", it))
    return recs, meta


REC_KEY = {
    ("file", "status"): "{CLS}.select_bands:recorded:status", ("file", "restricted"): "{CLS}.select_bands:recorded:result",
    ("file", "shape"): "{CLS}.select_bands:recorded:shape",
    ("cont", "refuse"): "WannierData.select_bands:{cl}:accepted", ("cont", "refuse_unchanged"): "WannierData.select_bands:{cl}:changed_on_refusal",
    ("cont", "accept"): "raises:WannierData.select_bands:{cl}", ("cont", "wannierised_refused"): "WannierData.select_bands:wannierised:accepted",
    ("cont", "restricted"): "WannierData.select_bands:{cl}:files", ("cont", "conform"): "WannierData.select_bands:{cl}:files",
    ("cont", "ret_value"): "WannierData.select_bands:{cl}:returned", ("cont", "identity"): "WannierData.select_bands:{cl}:files",
}


def validate(module, cfg_text, records, name, timeout=1500, chunk=400):
    """ftable.validate_records, also collecting the <<"CLASS", i, class>> lines the module prints"""
    bad, klass = {}, {}
    tot = dict(distinct=0, generated=0, wall_s=0.0)
    for c0 in range(0, len(records), chunk):
        part = records[c0:c0 + chunk]
        wd = os.path.join(WORK, "records", name)
        os.makedirs(wd, exist_ok=True)
        tf = os.path.join(wd, f"recs_{c0}.json")
        with open(tf, "w") as f:
            json.dump({"recs": part}, f)
        st = tlc.run_tlc(module, cfg_text, f"rec_{name}_{c0}", workers=1, coverage=False, env={"TRACE_FILE": tf}, timeout=timeout)
        if st.get("error") or st.get("timeout") or st["distinct"] == 0:
            raise MachineryError(f"record validation TLC run failed ({name}): {st.get('error') or st.get('output', '')[-800:]}")
        if st["distinct"] != len(part):
            raise MachineryError(f"record validation ({name}): {st['distinct']} states for {len(part)} records")
        for i, cl in re.findall(r'^<<"BAD", (\d+), "([\w.:-]+)">>', st["output"], re.M):
            bad.setdefault(c0 + int(i) - 1, []).append(cl)
        for i, cl in re.findall(r'^<<"CLASS", (\d+), "([\w.:-]+)">>', st["output"], re.M):
            klass[c0 + int(i) - 1] = cl
        tot["distinct"] += st["distinct"]
        tot["generated"] += st["generated"]
        tot["wall_s"] += st["wall_s"]
        os.remove(tf)
    tot["mode"] = "record-validation"
    return tot, bad, klass


# --------------------------------------------------------------------------- the check
def check(pid, tier):
    rep = Report(pid, tier, "model_checking")
    try:
        return _check(rep, pid, tier)
    except Exception:
        if rep.violations:
            try:
                rep.part("aborted", note="the run stopped early; the violations collected so far are reported")
                rep.finish()
            except Exception:
                pass
        raise


class Jobs:
    """TLC runs started together, at most 3 at a time (harness/tlc.py throttles machine-wide on top of that)"""

    def __init__(self, jobs):
        self.out, self.errs, self.threads = {}, {}, {}
        self.sem = threading.Semaphore(3)
        for n, f in jobs.items():
            self.threads[n] = threading.Thread(target=self._run, args=(n, f))
        for t in self.threads.values():
            t.start()

    def _run(self, n, f):
        with self.sem:
            try:
                self.out[n] = f()
            except BaseException as ex:        # re-raised in the caller's thread
                self.errs[n] = ex

    def get(self, n):
        self.threads[n].join()
        if n in self.errs:
            raise self.errs[n]
        return self.out[n]

    def finish(self):
        for t in self.threads.values():
            t.join()


def need(st, name):
    if st.get("timeout"):
        raise MachineryError(f"TLC timed out on {name}")
    if st.get("error") and not st.get("violation"):
        raise MachineryError(f"TLC error on {name}: {st['error'][:600]}")
    return st


def drop_dump(st):
    try:
        os.remove(st["dump_path"])
    except (OSError, KeyError, TypeError):
        pass


def _check(rep, pid, tier):
    vio = Capped(rep)
    thorough = tier == "thorough"
    rng = random.Random(seed() * 7919 + 103)
    import wannierberri  # noqa: F401
    tag = f"{pid.lower()}_{tier}_{os.getpid()}"
    wd = workdir(tag)
    names = []
    timing = {}
    t_last = [cpu()]

    def lap(name):
        now = cpu()
        timing[name] = round(now - t_last[0], 1)
        t_last[0] = now

    def tname(n):
        names.append(f"{tag}_{n}")
        return names[-1]

    rep.rule("TLC enumerates (a) every file object of every class with NB 1..3 (full and partial k-point sets, optional tags, wannierised "
             "checkpoints) with every selection of at most NB bands (repetitions, permutations, one index that does not exist) and a second "
             "selection on the result, (b) every sequence of container actions up to the bound over five preset containers and the argument "
             "catalogue (lists, masks, windows, ranges, no argument); a case = one function-table state executed on the real class, one "
             "verified step of a container behaviour executed on a real WannierData (all behaviours of length <= 1, all three-step "
             "behaviours, a seeded sample of the two-step ones - every prefix verified once), one to_npz/from_npz commutation, or one "
             "seeded random recorded call validated by TLC")
    rep.assume("data are multiples of 1/8; energies and window edges are multiples of 1/8 eV, so that every comparison of the real code is exact")
    rep.assume("WannierData.set_projections is driven with AMN.from_bandstructure replaced by a function returning a prepared .amn (all bands) "
               "and a stand-in projection; the rest of the method is the unmodified code")

    # ---------------- TLC: function table, container, pool (concurrently)
    fconst = dict(CLS=ALLCLS, NBS="{1, 2, 3}")
    cc = cconst(3 if thorough else 2, [1, 2, 3, 4, 5], ARGS, not thorough)
    small = cconst(2, [4], ["L12", "L1", "L0"], True)
    variants = {
        "mask_shape_asserted_after_conversion": (lambda: tlc.run_tlc("MC_BandSelect.tla", cfg("CSpec", cconst(1, [1], ["MTFT", "MTTT"], False), ["MaskEqualsList"],
                                                                                                sw=dict(MaskShapeCheck='"after"')), tname("v_mask"), workers=2, timeout=900),
                                                 "MaskEqualsList", "wandata.py as it is: the shape (NB,) is asserted on np.where(mask)[0]"),
        "bookkeeping_last_argument": (lambda: tlc.run_tlc("MC_BandSelect.tla", cfg("CSpec", small, ["SetProjectionsRight"], sw=dict(Bookkeeping='"last"')),
                                                          tname("v_book"), workers=2, timeout=900),
                                      "SetProjectionsRight", "wandata.py as it is: selected_bands is the argument of the last call"),
        "chk_num_bands_kept": (lambda: tlc.run_tlc("MC_BandSelectFiles.tla", cfg("FSpec", dict(CLS='{"chk"}', NBS="{2}"), ["FEntries"], sw=dict(ChkNumBands='"keep"')),
                                                   tname("v_chk"), workers=2, timeout=900),
                               "FEntries", "a checkpoint that forgets to update num_bands"),
        "window_all_kpoints": (lambda: tlc.run_tlc("MC_BandSelect.tla", cfg("CSpec", cconst(1, [1], ["Wlow", "Win"], False), ["WindowDoc"], sw=dict(WindowOverK='"all"')),
                                                   tname("v_win"), workers=2, timeout=900),
                               "WindowDoc", "np.all instead of np.any over the k-points"),
    }
    jobs = {
        "cont": lambda: tlc.run_tlc("MC_BandSelect.tla", cfg("CSpec", cc, CINV), tname("cont"), workers=4, dump=True, coverage=False,
                                    timeout=3000 if thorough else 1500),
        "files": lambda: tlc.run_tlc("MC_BandSelectFiles.tla", cfg("FSpec", fconst, FINV), tname("files"), workers=4, dump=True, coverage=False, timeout=1800),
        "pool": lambda: tlc.run_tlc("MC_BandSelect.tla", cfg("PSpec", cc, []), tname("pool"), workers=1, dump=True, coverage=False, timeout=900),
    }
    jobs.update({k: v[0] for k, v in variants.items()})
    run = Jobs(jobs)
    try:
        return _check2(rep, vio, run, variants, thorough, rng, wd, names, timing, lap, tname)
    finally:
        run.finish()


def _check2(rep, vio, run, variants, thorough, rng, wd, names, timing, lap, tname):
    stf = need(run.get("files"), "x03_files")
    if ftable.spec_violation(rep, stf, "x03_files"):
        return rep.finish()
    rep.add_tlc("x03_files", stf)
    lap("tlc_function_table")

    # ---------------- function table on the real classes
    fr = FileReplay(vio)
    fstates = sorted(ftable.dump_states(stf), key=lambda s: repr((tuple(s["par"]), tuple(s["sel"]), tuple(s["sel2"]))))
    drop_dump(stf)
    for s in fstates:
        rep.case(("file", tuple(s["par"]), tuple(s["sel"]), tuple(s["sel2"])), nontrivial=len(s["sel"]) > 0)
        fr.one(s)
        if fr.n in (40, 400):
            rep.sample(dict(function_table=dict(cls=s["par"][0], NB=s["par"][1], partial_k=s["par"][2], flag=s["par"][3],
                                                selected_bands=list(s["sel"]), then=list(s["sel2"]), model_says=s["out"]["err"] or "done")))
    if fr.n != stf["distinct"]:
        raise MachineryError(f"function-table dump incomplete: {fr.n} of {stf['distinct']}")
    cannot = sum(v for k, v in fr.info.items() if k.endswith("cannot_build_the_specification_object"))
    if cannot > fr.n // 2 and not rep.violations:
        raise MachineryError(f"the harness cannot build {cannot} of {fr.n} specification objects on this tree")
    for cls in W.BAND_CARRYING + ("chk",):
        for kl in ("identity", "subset", "permuted", "duplicates", "out_of_range") + (("wannierised",) if cls == "chk" else ()):
            if not fr.count.get((cls, kl)) and not rep.violations:
                raise MachineryError(f"function table: class {cls}/{kl} never executed ({fr.count})")
    rep.part("replay_function_table", states=fr.n, calls_per_class_and_input={f"{c}:{k}": v for (c, k), v in sorted(fr.count.items())})
    lap("replay_function_table")

    stc, stp = need(run.get("cont"), "x03_cont"), need(run.get("pool"), "x03_pool")
    if ftable.spec_violation(rep, stc, "x03_cont"):
        return rep.finish()
    rep.add_tlc("x03_cont", stc)
    lap("tlc_container")

    # ---------------- the container on a real WannierData
    pstates = list(ftable.dump_states(stp))
    if len(pstates) != 1:
        raise MachineryError("pool dump: one state expected")
    pool = {k: canon(v) for k, v in dict(pstates[0]["par"]).items()}
    drop_dump(stp)
    states, intern = {}, {}
    for s in ftable.dump_states(stc):
        s = St(s, intern)
        states[hkey(s.hist)] = s
    del intern
    drop_dump(stc)
    if len(states) != stc["distinct"]:
        raise MachineryError("container dump: behaviours are not distinct states")
    order = sorted(states, key=lambda k: (len(k), repr(k)))             # the dump order of TLC is not deterministic
    short = [k for k in order if len(k) <= 2]
    two = [k for k in order if len(k) == 3]
    three = [k for k in order if len(k) == 4]
    nmax2, nmax3 = (6000, 25000) if thorough else (900, 2500)

    def thin(keys, nmax):
        """all keys when few; else every (last op, class) with at least 12 members, the rest a seeded sample"""
        if len(keys) <= nmax:
            return keys
        by = {}
        for k in keys:
            e = states[k].hist[-1]
            by.setdefault((e["op"], e["class"], e["must"]), []).append(k)
        pick = set()
        for grp in by.values():
            pick.update(rng.sample(grp, min(12, len(grp))))
        rest = [k for k in keys if k not in pick]
        pick.update(rng.sample(rest, max(0, min(len(rest), nmax - len(pick)))))
        return [k for k in keys if k in pick]
    chosen = short + thin(two, nmax2) + thin(three, nmax3)
    cr = ContReplay(vio, states, pool, wd)
    followed = 0
    for k in chosen:
        before = cr.nstep
        if cr.run(states[k]):
            followed += 1
        for _ in range(cr.nstep - before):
            rep.case(("cont", k, _))
    if cr.info.get("preset_container_differs_from_model") and not rep.violations:
        raise MachineryError("the harness cannot build the preset containers of the specification on this tree")
    needc = [("select", c) for c in ("again_refused", "negative", "out_of_range", "no_eig_window", "identity", "subset", "permuted", "mask_all",
                                     "mask_partial", "none", "window_all", "window_clean", "range", "duplicates", "empty_list", "window_tie",
                                     "window_straddle", "window_empty", "mask_wrong_length", "no_eig")] + \
            [("set_file", c) for c in ("after_selection", "conforming", "not_conforming")] + \
            [("apply_window", ""), ("unset_file", ""), ("set_projections", "after_0_selections"), ("set_projections", "after_1_selections"),
             ("set_projections", "after_2_selections"), ("set_manually", "after_1_selections"), ("set_manually", "after_2_selections")]
    missing = [f"{a}:{b}" for a, b in needc if not cr.count.get((a, b))]
    if missing and not rep.violations and not W.SKIPPED:
        raise MachineryError(f"container replay: classes never executed: {missing}")
    rep.part("replay_container", behaviours=len(chosen), of_behaviours=len(states), did_what_the_model_says=followed, verified_steps=cr.nstep,
             steps_per_class={f"{a}:{b}": v for (a, b), v in sorted(cr.count.items())})
    rep.sample(dict(container_behaviour=cr.describe(states[chosen[-1]].hist, len(chosen[-1]))))
    lap("replay_container")

    # ---------------- to_npz / from_npz around a selection (states of length <= 1 action)
    ncomm = 0
    for k in short:
        s = states[k]
        succ = {}
        for aid in COMMUTE:
            k2 = k + (("select", aid, "", s.selected),)
            if k2 in states:
                succ[aid] = states[k2]
        files = s.files()
        if not succ or "eig" not in files or not cr.memo.get(k) or any(v["dim"].get("NB") == 0 for v in files.values()):
            continue
        n = cr.npz(s, succ)
        ncomm += n
        for j in range(n):
            rep.case(("npz", k, j))
    if ncomm < 10 and not rep.violations and not W.SKIPPED:
        raise MachineryError(f"only {ncomm} to_npz/from_npz commutations were executed")
    rep.part("replay_npz", commutations=ncomm)
    lap("replay_npz")

    # ---------------- must-fail variants of the specification
    for k, (_, inv, what) in variants.items():
        sv = need(run.get(k), k)
        if not sv.get("violation") or sv["violation"][1] != inv:
            raise MachineryError(f"sensitivity self-test failed: variant {k} ({what}) must violate {inv}, TLC says {sv.get('violation')}")
        rep.part("must_fail_" + k, sensitivity_violation=sv["violation"][1], what=what)
    lap("must_fail_variants")

    # ---------------- code -> spec: recorded calls
    recs, meta = record_calls(rep, vio, rng, 1500 if thorough else 160, cr.info)
    lap("records_real")
    corrupted = []

    def pick(pred):
        for i, r in enumerate(recs):
            if pred(r):
                return copy.deepcopy(r)
        return None

    def bump(obj):
        """+1 on the first number of the first data table of a JSON object"""
        for tagname, pairs in obj["dic"]:
            if tagname == "data" and pairs:
                t = pairs[0][1]
                while t and isinstance(t[0], list):
                    t = t[0]
                if t:
                    t[0] += 1
                    return True
        return False
    r = pick(lambda r: r["kind"] == "file" and r["out"]["err"] == "" and r["obj"]["cls"] in W.BAND_CARRYING and len(r["sel"]) > 0)
    if r is not None and bump(r["out"]["obj"]):
        corrupted.append((r, "restricted"))
    r = pick(lambda r: r["kind"] == "cont" and r["out"]["err"] == "" and len(r["out"]["ret"]) > 1 and r["arg"]["kind"] in ("window", "mask"))
    if r is not None:
        r["out"]["ret"] = r["out"]["ret"][:-1]
        corrupted.append((r, "ret_value"))
    r = pick(lambda r: r["kind"] == "cont" and r["out"]["err"] == "" and len(r["out"]["ret"]) > 0 and any(k in W.BAND_CARRYING for k, _ in r["out"]["files"]))
    if r is not None:
        for k, o in r["out"]["files"]:
            if k in W.BAND_CARRYING and bump(o):
                break
        corrupted.append((r, "restricted"))
    r = pick(lambda r: r["kind"] == "later" and r["out"]["err"] == "" and r["out"]["amn"]["dim"]["NB"] > 0)
    if r is not None and bump(r["out"]["amn"]):
        corrupted.append((r, "later_restricted"))
    stv, bad, klass = validate("BandSelectRec.tla", cfg("RecSpec", {}, ["Report"]), recs + [c for c, _ in corrupted], tname("rec"))
    b2 = {j: bad.pop(len(recs) + j, []) for j in range(len(corrupted))}
    stv["distinct"] -= len(corrupted)
    stv["generated"] -= 2 * len(corrupted)
    rep.add_tlc("x03_records", stv)
    rep.add_traces(len(recs))
    if len(corrupted) < 3 and not rep.violations:
        raise MachineryError(f"binding self-test: only {len(corrupted)} records could be corrupted")
    missed = [c for j, (_, c) in enumerate(corrupted) if c not in b2.get(j, [])]
    if missed and not rep.violations:
        raise MachineryError(f"binding self-test failed: corrupted records accepted (expected failing clauses {missed}, TLC says {b2})")
    rep.part("binding_selftest", corrupted_records_rejected={str(j): v for j, v in b2.items()})
    rinfo, kcount, outside = {}, {}, []
    for i in range(len(recs)):
        kcount[(recs[i]["kind"], klass.get(i, "?"))] = kcount.get((recs[i]["kind"], klass.get(i, "?")), 0) + 1
    for i, clauses in sorted(bad.items()):
        m = meta[i]
        kind = recs[i]["kind"]
        hard = []
        for c in clauses:
            if c.startswith("info_"):
                rinfo[f"{kind}:{c}:{klass.get(i, '?')}"] = rinfo.get(f"{kind}:{c}:{klass.get(i, '?')}", 0) + 1
            else:
                hard.append(c)
        if "in_model" in hard:
            outside.append((i, m))
            continue
        for c in hard:
            if kind == "later":
                site = "WannierData.set_projections" if m["how"] == "set_projections" else "file_cut_by_hand"
                key = (f"raises:{site}:{klass.get(i)}" if c == "later_accepted" else f"{site}:wrong_bands:{klass.get(i)}")
            else:
                key = REC_KEY[(kind, c)].format(CLS=m.get("cls", "").upper(), cl=klass.get(i, "?"))
            vio.violation(key, dict(recorded=True, record=m, failing_clauses=hard, input_class=klass.get(i)))
    if outside and not rep.violations:
        raise MachineryError(f"recorded call outside the model: {outside[:2]}")
    for needk in [("file", c) for c in ("identity", "subset", "permuted", "duplicates", "out_of_range")] + \
                 [("cont", c) for c in ("subset", "permuted", "identity", "mask_partial", "window_clean", "window_tie", "again_refused", "out_of_range", "negative")] + \
                 [("later", c) for c in ("one_selection", "several_selections")]:
        if not kcount.get(needk) and not rep.violations and not W.SKIPPED:
            raise MachineryError(f"records: class {needk} never recorded ({sorted(kcount)})")
    rep.part("records", per_kind_and_class={f"{a}:{b}": v for (a, b), v in sorted(kcount.items())},
             information_only_differences_from_the_transcription=rinfo)
    rep.sample(dict(record=meta[1]))
    lap("records_tlc")

    rep.part("information", information_only=True, function_table=dict(fr.info), container=dict(cr.info),
             note="counts of agreements / differences that are not part of the statement: exception classes, what select_bands returns at file "
                  "level, the recorded selected_bands attributes (as_model(composed) / last_argument), inputs outside the documentation "
                  "(duplicates, empty selections, ties, straddling bands, masks of another length, no .eig), the container after a call that "
                  "failed inside the checkpoint")
    if W.SKIPPED:
        rep.part("skipped_private", **{k.replace(".", "_"): v for k, v in W.SKIPPED.items()})
    rep.part("violation_counts", **{k.replace(".", "_").replace(":", "_"): v for k, v in vio.count.items()})
    rep.part("cpu_seconds", **timing, total=round(sum(timing.values()), 1))
    shutil.rmtree(wd, ignore_errors=True)
    if not rep.violations:
        for n in names:
            shutil.rmtree(os.path.join(WORK, "tlc", n), ignore_errors=True)
            for c0 in range(0, 4000, 400):
                shutil.rmtree(os.path.join(WORK, "tlc", f"rec_{n}_{c0}"), ignore_errors=True)
            shutil.rmtree(os.path.join(WORK, "records", n), ignore_errors=True)
    return rep.finish()
