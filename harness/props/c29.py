"""C29: paths are built and tabulated faithfully.

spec  : PathSpec.tla (Path.from_nodes, get_refined, getKline, get_K_list, TABresult.self_to_path as operators shaped like
        the code + the loop-free statement of the property), MC_PathNodes (zip loop of from_nodes), MC_PathRefine (loop of
        get_refined; sensitivity switch RefineAcrossBreaks), MC_PathBatch (batch loop + every batch order through
        self_to_path)
bind  : finished TLC states are replayed on the real Path / TABresult (K_list scaled to integers with integrality
        verification, labelled indices, break set); seeded random calls of the same functions are recorded and validated
        by TLC against PathSpecRec.tla.  Only what the statement of C29 names decides; internal details (rounding rule of
        dk, chunking of get_K_list, unit of the path coordinate, default label texts) are counted as information.
second half (numeric): evaluate_k_path / run(Path) on tiny random tight-binding models (random Wannier centres, AA
        matrix, external terms) along TLC-built paths against evaluate_k at every path point alone (tolerance 1e-8),
        serial, with the batches in path order and in reversed / shuffled order (a Path subclass), so that
        TABresult.self_to_path inside run() has to restore the path order.
"""
import copy
import math
import os
import random

import numpy as np

from .. import tlc, ftable
from ..common import Report, MachineryError, seed, quiet
from . import _c2930_util as U

PROPS = {
    "C29": dict(level="model_checking",
                technique="TLC exhaustive on PathSpec.tla (loop-level transcription of Path.from_nodes / get_refined / get_K_list vs the loop-free statement with explicit positions; exact rational points) + replay of finished TLC states on the real Path / TABresult.self_to_path + TLC validation of recorded calls; numeric comparison of run(Path) (batches in path order and permuted) with evaluate_k point by point",
                text="TLC enumerates node lists with None breaks, label choices, nk / nk-list / dk / length, small arbitrary paths with every "
                     "labels dict and breaks list (no break at the last point), refinement factors, k_batch values and batch orders, and checks: "
                     "every node present in order with its label, uniform sampling, refinement keeps points/labels/breaks at the refined index, "
                     "path coordinate non-decreasing and flat across breaks, batches cover the path and are mapped back to path order. "
                     "quick: every finished state of the three models is executed on the real code; thorough: every finished state of the "
                     "from_nodes and batch models, a seeded 15 % sample of the refinement model, and the model c29_nodes_big is checked by TLC "
                     "only (not replayed). Compared: points exactly (rationals), labelled indices with their labels (labels=None: the index "
                     "set), the set of breaks, sign of the path-coordinate steps and zero steps at breaks. Random larger inputs are recorded "
                     "from the real code (constructed from recip_lattice, real_lattice or a System) and the deciding clauses of PathSpecRec "
                     "are evaluated on them by TLC. Along TLC-built paths (all nk modes, with breaks, one closed path) run()/evaluate_k_path "
                     "(serial; quick: 2 of the k_batch values 1..4 per path, thorough: all 4) is compared with evaluate_k at each point "
                     "(Energy, Berry curvature and velocity with external terms, inverse mass); one run per path uses reversed or "
                     "shuffled batches; one run builds the path inside evaluate_k_path(nodes=, labels=, length=).",
                note="node coordinates are integers divided by 1, 2 or 4; dk/length: any nk >= 2 with |dist/(nk-1) - dk| <= dk is accepted "
                     "(DkSpacingOK), the code's rounding rule is information; inputs exactly half-way between two nk are excluded by the named "
                     "predicate RoundTie; a break at the last index is outside PathOK; beyond the statement and therefore information only: "
                     "path-coordinate steps equal the Cartesian distances, getKline(break_thresh), chunking of get_K_list, default label texts. "
                     "Parallel evaluation with ray belongs to C12; here the completion order is emulated by permuted batches in a serial run.",
                ref="DESIGN.md 3.7"),
}

W = int(os.environ.get("VERIF_TLC_WORKERS", "16"))
GAP_MIN = 0.05                   # smallest band gap admitted in the numeric comparisons (named exclusion)
LATS = {"LatSkew": ((1, 0, 0), (1, 2, 0), (0, -1, 2)), "LatOrtho": ((1, 0, 0), (0, 2, 0), (0, 0, 3))}
ZERO = 1e-12                     # a path-coordinate step below this is "zero" (the code assigns 0.0)


# ---------------------------------------------------------------- calling the real code
_SYSTEMS = {}


def lattice_system(recip, rng=None, nw=2, full=False):
    """a System whose reciprocal lattice is `recip` (rows): real_lattice = 2 pi inv(recip)^T.  Cached per lattice."""
    key = (tuple(np.asarray(recip, dtype=float).reshape(-1).round(12)), nw, full)
    if key not in _SYSTEMS:
        real = 2 * np.pi * np.linalg.inv(np.asarray(recip, dtype=float)).T
        _SYSTEMS[key] = U.random_system(rng or random.Random(len(_SYSTEMS) + 17), nw=nw, lattice=real, centres=full, aa=full)
    return _SYSTEMS[key]


def nodes_kwargs(nodes, labels, spec, nd=1, route="recip", rng=None):
    """keyword arguments of Path.from_nodes for the specification's (nodes, labels, spec).
    nodes: sequence of 3-tuples of ints or () for None; labels: list or None; spec: dict(mode, nk, inv, A);
    route: how the lattice is given (recip_lattice / real_lattice / system)"""
    A = np.array(spec["A"], dtype=float) * nd
    kw = {}
    mode = spec["mode"]
    if mode == "int":
        kw["nk"] = int(spec["nk"][0])
    elif mode == "list":
        kw["nk"] = [int(x) for x in spec["nk"]]
    elif mode == "dk":
        kw["dk"] = spec["inv"][1] / spec["inv"][0]
    elif mode == "length":
        A = A * (2 * np.pi)
        kw["length"] = spec["inv"][0] / spec["inv"][1]
    else:
        raise MachineryError(f"unknown mode {mode}")
    if route == "recip":
        kw["recip_lattice"] = A
    elif route == "real":
        kw["real_lattice"] = 2 * np.pi * np.linalg.inv(A).T
    elif route == "system":
        kw["system"] = lattice_system(A, rng)
    else:
        raise MachineryError(f"unknown route {route}")
    kw["nodes"] = [None if len(n) == 0 else [c / nd for c in n] for n in nodes]
    kw["labels"] = None if labels is None else list(labels)
    return kw


def make_from_nodes(nodes, labels, spec, nd=1, route="recip", rng=None):
    import wannierberri as wb
    kw = nodes_kwargs(nodes, labels, spec, nd, route, rng)
    with quiet():
        return wb.Path.from_nodes(**kw)


def make_path(P, A, nd=1, cls=None):
    import wannierberri as wb
    with quiet():
        return (cls or wb.Path)(recip_lattice=np.array(A, dtype=float) * nd, k_list=[U.pt_float(p, nd) for p in P["K"]],
                                labels={int(i): l for i, l in P["labels"]}, breaks=[int(b) for b in P["breaks"]])


def path_sane(path):
    """None if the observable attributes of a real Path have the shape everything else relies on, else a description"""
    try:
        K = np.asarray(path.K_list, dtype=float)
        if K.ndim != 2 or K.shape[1] != 3 or not np.all(np.isfinite(K)):
            return f"K_list of shape {K.shape}"
        n = len(K)
        for i in path.labels.keys():
            if int(i) != i or not 0 <= int(i) < n:
                return f"label index {i!r} outside the path of {n} points"
        for b in path.breaks:
            if int(b) != b or not 0 <= int(b) < n - 1:
                return f"break index {b!r} not in 0..{n - 2}"
    except (TypeError, ValueError, AttributeError) as ex:
        return f"unreadable path attributes: {type(ex).__name__}: {ex}"
    return None


def break_set(path):
    return sorted(set(int(b) for b in path.breaks))


def path_out(path, deflab=False):
    """what is observed of a real Path: points as reduced rationals, labels as pairs sorted by index (labels=None: the
    texts are replaced by the specification's default texts: only the index set is observed), the set of breaks"""
    pts = [U.rat_point(k) for k in np.asarray(path.K_list, dtype=float).reshape(-1, 3)]
    labs = [[int(i), str(l)] for i, l in sorted(path.labels.items(), key=lambda x: int(x[0]))]
    if deflab:
        labs = [[i, str(m + 1)] for m, (i, _) in enumerate(labs)]
    return dict(K=pts, labels=labs, breaks=break_set(path))


def kline_steps(path):
    with quiet():
        kl = np.asarray(path.getKline(), dtype=float)
    return np.diff(kl)


def check_kline(rep, key, path, detail):
    """C29 (and DESIGN 3.7): the path coordinate is non-decreasing and flat across breaks.  Returns the steps (or None)"""
    ok, d = U.guarded(rep, "getKline", detail, kline_steps, path)
    if not ok:
        return None
    if d.shape != (len(path.K_list) - 1,) or not np.all(np.isfinite(d)):
        rep.violation("getKline:shape", dict(detail, site=key, got=np.asarray(d).tolist()))
        return None
    if np.any(d < -ZERO):
        rep.violation("getKline:decreasing", dict(detail, site=key, got=d.tolist()))
    if any(abs(d[b]) > ZERO for b in break_set(path)):
        rep.violation("getKline:not_flat_at_break", dict(detail, site=key, got=d.tolist(), breaks=break_set(path)))
    return d


def steps_info(rep, d, exp, unit=1.0, tol=1e-9):
    """information: are the steps the Cartesian distances (exp: squared steps <<num, den>> in units of unit^2)?"""
    good = len(d) == len(exp) and all(abs((x / unit) ** 2 - n / m) <= tol * max(1.0, n / m) for x, (n, m) in zip(d, exp))
    U.info(rep, "info_kline", "steps_are_cartesian_distances" if good else "steps_differ_from_cartesian_distances")


def cmp_path(rep, key, path, exp, nd, detail, deflab=False, report=True):
    """comparison of a real Path with the specification's path: points exactly, labels (labels=None: index set), break
    set.  Returns the list of (key, detail) differences (reported as violations if report)"""
    bad = []
    what = U.cmp_points(path.K_list, exp["K"], nd)
    if what:
        bad.append((f"{key}:K_list", dict(detail, what=what, got=np.asarray(path.K_list).tolist(), expected=[list(p) for p in exp["K"]])))
    lab = {int(i): l for i, l in exp["labels"]}
    got = {int(k): str(v) for k, v in path.labels.items()}
    if (sorted(got) != sorted(lab)) if deflab else (got != lab):
        bad.append((f"{key}:labels", dict(detail, got=got, expected=lab, only_indices_compared=deflab)))
    if break_set(path) != sorted(set(int(b) for b in exp["breaks"])):
        bad.append((f"{key}:breaks", dict(detail, got=break_set(path), expected=list(exp["breaks"]))))
    if report:
        for k, d in bad:
            rep.violation(k, d)
    return bad


def tie(nodes, spec):
    """RoundTie of the specification, for the harness' own input generation"""
    A = np.array(spec["A"], dtype=int)
    p, q = spec["inv"]
    for a, b in zip(nodes, nodes[1:]):
        if len(a) and len(b):
            d = (np.array(a) - np.array(b)) @ A
            s2 = int(d @ d)
            x = 4 * s2 * p * p
            n = 0
            while (2 * n + 1) ** 2 * q * q < x:
                n += 1
            if (2 * n + 1) ** 2 * q * q == x:
                return True
    return False


def nk_from_output(path, nodes):
    """number of points per sampled segment read off a real path: the labelled indices are the node positions.
    -> (list of nk, None) or (None, reason)"""
    real = [i for i, n in enumerate(nodes) if len(n)]
    pos = sorted(int(i) for i in path.labels.keys())
    if len(pos) != len(real):
        return None, f"{len(pos)} labelled points for {len(real)} nodes"
    nk = []
    for m in range(len(real) - 1):
        if real[m + 1] == real[m] + 1:          # a sampled segment
            n = pos[m + 1] - pos[m] + 1
            if n < 2:
                return None, f"segment {m}: the labelled positions {pos[m]}, {pos[m + 1]} leave nk = {n} < 2"
            nk.append(n)
    return nk, None


def node_record(rep, path, nodes, labels, deflab, spec, nd, unit, route, detail, site):
    """the record of one from_nodes call for PathSpecRec (None, with a violation reported, if the output cannot even be
    written down)"""
    why = path_sane(path)
    if why:
        rep.violation(f"{site}:malformed_path", dict(detail, what=why))
        return None
    out = path_out(path, deflab)
    if any(p is None for p in out["K"]):
        rep.violation(f"{site}:nonrational_points", dict(detail, got=np.asarray(path.K_list).tolist()))
        return None
    nkout = []
    if spec["mode"] in ("dk", "length"):
        nkout, why = nk_from_output(path, nodes)
        if nkout is None:
            rep.violation(f"{site}:nodes_not_labelled", dict(detail, what=why, labels={int(k): str(v) for k, v in path.labels.items()}))
            return None
    d = check_kline(rep, site, path, detail)
    if d is None:
        return None
    out["K"] = unscale(out["K"], nd)        # the specification's nodes are the integers
    return dict(fn="from_nodes", nodes=[list(x) for x in nodes], deflab=bool(deflab), labels=list(labels) if labels else [], mode=spec["mode"],
                nk=list(spec["nk"]), inv=list(spec["inv"]), A=[list(x) for x in spec["A"]], nkout=nkout, out=out, kline2=steps_rat(d, unit),
                route=route, nd=nd)


# ---------------------------------------------------------------- the check
def cfg_nodes(nodeset, maxnodes, maxnone, lat, factors="{1, 2, 3}", nks="{2, 3, 4}", invs="InvsDef", full=True):
    inv = ["LoopIsOperator", "InvNodesInOrder", "InvLabelsExact", "InvUniform", "InvBreaksExact", "InvLength", "InvPathOK", "InvKline",
           "InvRound", "InvDkSpacing", "InvRefinedNodes"]
    return ("SPECIFICATION Spec\nCONSTANTS\n"
            f"  NodeSet <- {nodeset}\n  MaxNodes = {maxnodes}\n  MaxNone = {maxnone}\n  NKS = {nks}\n  INVS <- {invs}\n  LatA <- {lat}\n  Factors = {factors}\n  FullProduct = {'TRUE' if full else 'FALSE'}\n"
            + "".join(f"INVARIANT {i}\n" for i in inv) + "CHECK_DEADLOCK FALSE\n")


def cfg_refine(points, maxlen, wrong=False, nodepaths="NodePathsDef", compose="{1, 2, 3}"):
    inv = ["InvKeeps", "InvIdentity", "InvKline"] + ([] if wrong else ["LoopIsOperator", "InvCompose"])
    return ("SPECIFICATION Spec\nCONSTANTS\n"
            f"  Points <- {points}\n  MaxLen = {maxlen}\n  Factors = {{1, 2, 3}}\n  ComposeWith = {compose}\n  LatA <- LatSkew\n  NodePaths <- {nodepaths}\n"
            f"  RefineAcrossBreaks = {'TRUE' if wrong else 'FALSE'}\n"
            + "".join(f"INVARIANT {i}\n" for i in inv) + "CHECK_DEADLOCK FALSE\n")


def cfg_batch(maxlen):
    inv = ["LoopIsOperator", "InvBatches", "InvToPath"]
    return (f"SPECIFICATION Spec\nCONSTANTS\n  MaxLen = {maxlen}\n  KBatch = {{1, 2, 3, 4}}\n  Dens = {{1, 2, 3}}\n"
            + "".join(f"INVARIANT {i}\n" for i in inv) + "CHECK_DEADLOCK FALSE\n")


ROUTES = ("recip", "recip", "real", "system")


def replay_nodes(rep, st, rng, counts, lat, keep_paths, late_recs):
    n = 0
    for s in U.states_where(st):
        n += 1
        nodes, spec = s["nodes"], s["spec"]
        deflab = bool(s["deflab"])
        labels = None if deflab else list(s["labs"])
        nd = rng.choice([1, 1, 2, 4])
        route = rng.choice(ROUTES)
        exp = s["st"]
        nbreak = len(exp["breaks"])
        cls = spec["mode"] + (":break" if nbreak else "")
        counts[cls] = counts.get(cls, 0) + 1
        counts["route:" + route] = counts.get("route:" + route, 0) + 1
        rep.case(("from_nodes", nodes, s["deflab"], spec["mode"], spec["nk"], spec["inv"], lat), nontrivial=len(exp["K"]) > 1)
        detail = dict(nodes=[list(x) if len(x) else None for x in nodes], node_denominator=nd, labels=labels, mode=spec["mode"], nk=list(spec["nk"]),
                      inv_dk=list(spec["inv"]), recip_lattice_int=[list(r) for r in spec["A"]], lattice_given_as=route)
        ok, path = U.guarded(rep, "from_nodes", detail, make_from_nodes, nodes, labels, spec, nd, route, rng)
        if not ok:
            continue
        why = path_sane(path)
        if why:
            rep.violation("from_nodes:malformed_path", dict(detail, what=why))
            continue
        bad = cmp_path(rep, "from_nodes", path, exp, nd, detail, deflab, report=False)
        if bad and spec["mode"] in ("dk", "length"):
            # another nk than the specification's rounding rule: decided by TLC on the record (uniform path with the nk read
            # off the output + DkSpacingOK)
            rec = node_record(rep, path, nodes, s["labs"], deflab, spec, nd, 2 * np.pi if spec["mode"] == "length" else 1.0, route, detail, "from_nodes")
            if rec is not None:
                late_recs.append(rec)
                U.info(rep, "info_dk_rounding", "nk_differs_from_round_to_nearest")
        else:
            for k, d in bad:
                rep.violation(k, d)
            if not bad and len(exp["K"]) > 1:
                check_kline(rep, "from_nodes", path, detail)
        if n <= 2:
            rep.sample(dict(fn="Path.from_nodes", **detail, K=[list(p) for p in exp["K"]], labels_out=[list(x) for x in exp["labels"]], breaks=list(exp["breaks"])))
        if keep_paths is not None and len(exp["K"]) >= 3:
            real = [x for x in nodes if len(x)]
            keep_paths.append(dict(nodes=nodes, labels=labels, spec=spec, exp=exp, nbreak=nbreak, closed=len(real) >= 3 and real[0] == real[-1] and len(set(real)) > 1))
    return n


def replay_refine(rep, st, rng, counts, prob=1.0):
    A = LATS["LatSkew"]
    n = 0
    for s in U.states_where(st, prob=prob, rng=rng):
        n += 1
        P, f, R = s["P"], s["f"], s["r"]
        nd = rng.choice([1, 2])
        cls = ("break" if len(P["breaks"]) else "nobreak") + (":f1" if f == 1 else ":f>1")
        counts[cls] = counts.get(cls, 0) + 1
        rep.case(("refined", P["K"], P["labels"], P["breaks"], f), nontrivial=len(P["K"]) > 1)
        detail = dict(K=[list(p) for p in P["K"]], point_denominator_factor=nd, labels=[list(x) for x in P["labels"]], breaks=list(P["breaks"]), factor=f)
        ok, path = U.guarded(rep, "Path", detail, make_path, P, A, nd)
        if not ok:
            continue

        def refine():
            with quiet():
                return path.get_refined(factor=f)
        ok, ref = U.guarded(rep, "get_refined", detail, refine)
        if not ok:
            continue
        why = path_sane(ref)
        if why:
            rep.violation("get_refined:malformed_path", dict(detail, what=why))
            continue
        bad = cmp_path(rep, "get_refined", ref, R, nd, detail)
        if not bad and len(R["K"]) > 1:
            d = check_kline(rep, "get_refined", ref, detail)
            if d is not None:
                steps_info(rep, d, s["aux"]["steps"])
        if n <= 2:
            rep.sample(dict(fn="Path.get_refined", **detail, K_out=[list(p) for p in R["K"]], labels_out=[list(x) for x in R["labels"]], breaks_out=list(R["breaks"])))
    return n


# ---- TABresult.self_to_path on synthetic results: several quantities of different rank carry the tag of their k-point
VEC_W = (2.0, 3.0, 5.0)


def tab_of(kpts, tags, recip):
    """a TABresult of the harness (mode 'path'): Energy (rank 0), 'vec' (rank 1), 'q2' (rank 0, another function of the tag)"""
    from wannierberri.result import KBandResult, TABresult
    t = np.array(tags, dtype=float)
    e = np.stack([t, -t], axis=1)
    v = e[:, :, None] * np.array(VEC_W)[None, None, :]
    q2 = np.stack([3 * t + 1, 7 - t], axis=1)
    return TABresult(kpoints=np.array(kpts, dtype=float), recip_lattice=recip, mode="path",
                     results={"Energy": KBandResult(e, rank=0), "vec": KBandResult(v, rank=1), "q2": KBandResult(q2, rank=0)})


def tags_of(tab):
    """the tags found along the path in every quantity: dict quantity -> float array (n,) (None: not the expected form)"""
    out = {}
    e = np.asarray(tab.get_data("Energy"), dtype=float)
    v = np.asarray(tab.get_data("vec"), dtype=float)
    q = np.asarray(tab.get_data("q2"), dtype=float)
    n = len(e)
    out["Energy"] = e[:, 0] if e.shape == (n, 2) and np.array_equal(e[:, 0], -e[:, 1]) else None
    good = v.shape == (n, 2, 3) and all(np.array_equal(v[:, 0, c], v[:, 0, 0] / VEC_W[0] * VEC_W[c]) and np.array_equal(v[:, 1, c], -v[:, 0, c]) for c in range(3))
    out["vec"] = v[:, 0, 0] / VEC_W[0] if good else None
    out["q2"] = (q[:, 0] - 1) / 3 if q.shape == (n, 2) and np.array_equal(7 - (q[:, 0] - 1) / 3, q[:, 1]) else None
    return out


def call_to_path(rep, path, batches_idx, order, cls, detail):
    """result of the batches (lists of path indices) collected in `order`, re-ordered by the real self_to_path.
    The data of a k-point are functions of its class tag (first equivalent path point, 1-based).
    -> None (skipped or a violation was reported) or (idx, tags, tags found along the path per quantity, k-points)"""
    idx = [j for b in order for j in batches_idx[b]]
    kp = [path.K_list[j] for j in idx]
    tags = [cls[j] for j in idx]
    try:
        with quiet():
            tab = tab_of(kp, tags, path.recip_lattice)
        to_path = tab.self_to_path
    except Exception as ex:             # the harness's own construction of a TABresult / look-up of the method
        U.library_site(ex)              # (re-raises environment errors)
        U.skipped(rep, "self_to_path", ex)
        return None

    def run_it():
        with quiet():
            to_path(path)
        return tags_of(tab), np.asarray(tab.kpoints, dtype=float)
    ok, res = U.guarded(rep, "self_to_path", dict(detail, batch_order=list(order)), run_it)
    if not ok:
        return None
    found, kpo = res
    return idx, tags, found, kpo


def batch_points(Kp):
    """the k-points of one element of get_K_list (private attribute of the K-point object, guarded)"""
    for name in ("K", "Kp_fullBZ"):
        arr = getattr(Kp, name, None)
        if arr is not None:
            return np.asarray(arr, dtype=float).reshape(-1, 3)
    raise AttributeError("K-point object of Path.get_K_list has neither K nor Kp_fullBZ")


def real_batches(path, kb):
    with quiet():
        KL = path.get_K_list(k_batch=kb)
    return [batch_points(Kp) for Kp in KL]


def replay_batch(rep, st, rng, counts):
    n = 0
    for s in U.states_where(st):
        n += 1
        P, kb, bs, cls = s["P"], s["kb"], s["bs"], list(s["cls"])
        rep.case(("batches", P["K"], kb), nontrivial=len(P["K"]) > kb)
        detail = dict(K=[list(p) for p in P["K"]], k_batch=kb)
        ok, path = U.guarded(rep, "Path", detail, make_path, P, np.eye(3))
        if not ok:
            continue
        # get_K_list: the batches together hold every path point exactly once (any chunking, any order)
        ok, KL = U.guarded(rep, "get_K_list", detail, real_batches, path, kb)
        if ok:
            allp = np.concatenate(KL, axis=0) if len(KL) else np.zeros((0, 3))
            got = [U.rat_point(k) for k in allp]
            want = sorted(tuple(U.rat_point(U.pt_float(p))) for p in P["K"])
            if any(x is None for x in got) or sorted(tuple(x) for x in got) != want:
                rep.violation("get_K_list:does_not_cover_path", dict(detail, got=[a.tolist() for a in KL], expected_points=[list(p) for p in P["K"]]))
            same = len(KL) == len(bs) and all(U.cmp_points(a, e) is None for a, e in zip(KL, bs))
            U.info(rep, "info_get_K_list", "chunking_as_specified" if same else "other_chunking")
            counts["multi" if len(KL) > 1 else "single"] = counts.get("multi" if len(KL) > 1 else "single", 0) + 1
        # the specification's batches in several orders through the real self_to_path
        pos, bidx = 0, []
        for e in bs:
            bidx.append(list(range(pos, pos + len(e))))
            pos += len(e)
        orders = [list(range(len(bs))), list(range(len(bs)))[::-1]] + [rng.sample(range(len(bs)), len(bs)) for _ in range(2)]
        for order in orders:
            res = call_to_path(rep, path, bidx, order, cls, detail)
            if res is None:
                continue
            idx, tags, found, kpo = res
            rep.case(("to_path", P["K"], kb, tuple(order)), nontrivial=order != sorted(order))
            counts["to_path"] = counts.get("to_path", 0) + 1
            for q, t in found.items():
                if t is None or len(t) != len(cls) or not np.array_equal(t, np.array(cls, dtype=float)):
                    rep.violation("self_to_path:order", dict(detail, quantity=q, batch_order=order, expected_tags=cls,
                                                             got_tags=None if t is None else np.asarray(t).tolist()))
            if U.diff_mod1(kpo, path.K_list) > 1e-9:
                rep.violation("self_to_path:kpoints", dict(detail, batch_order=order, got=kpo.tolist(), note="compared modulo reciprocal lattice vectors"))
        if n <= 1:
            rep.sample(dict(fn="Path.get_K_list", **detail, batches=[[list(p) for p in e] for e in bs]))
    return n


def random_records(rep, rng, nrec):
    recs = []
    mats = list(LATS.values()) + [((1, 0, 0), (0, 1, 0), (0, 0, 1)), ((2, 1, 0), (0, 1, 0), (1, 0, 1))]
    last = None
    tries = 0
    while len(recs) < nrec:
        tries += 1
        if tries > 40 * nrec + 1000:
            raise MachineryError(f"random_records: only {len(recs)} of {nrec} records after {tries} attempts")
        r = rng.random()
        nd = rng.choice([1, 2, 4])
        if r < 0.45 or last is None:
            nreal = rng.randint(1, 6)
            real = [tuple(rng.randint(-2, 2) for _ in range(3)) for _ in range(nreal)]
            if rng.random() < 0.3 and nreal > 2:
                real[-1] = real[0]
            nodes = []
            for m, v in enumerate(real):
                if rng.random() < 0.25:
                    nodes += [()] * rng.choice([1, 1, 2])
                nodes.append(v)
            deflab = rng.random() < 0.3
            labels = None if deflab else [rng.choice(["G", "X", "M", "R", "Z", "K'", "GAMMA"]) for _ in real]
            nseg = sum(1 for a, b in zip(nodes, nodes[1:]) if len(a) and len(b))
            mode = rng.choice(["int", "list", "list", "dk", "length"])
            spec = dict(mode=mode, nk=[], inv=[0, 1], A=[list(x) for x in rng.choice(mats)])
            if mode == "int":
                spec["nk"] = [rng.randint(2, 6)]
            elif mode == "list":
                spec["nk"] = [rng.randint(2, 6) for _ in range(nseg)]
            else:
                spec["inv"] = rng.choice([[1, 1], [1, 2], [3, 2], [2, 3], [1, 3], [2, 5]])
                if tie(nodes, spec):
                    continue
            route = rng.choice(ROUTES)
            detail = dict(nodes=[list(x) if len(x) else None for x in nodes], node_denominator=nd, labels=labels, spec=spec, lattice_given_as=route)
            ok, path = U.guarded(rep, "from_nodes", detail, make_from_nodes, nodes, labels, spec, nd, route, rng)
            if not ok:
                if U.was_skipped(rep, "from_nodes"):
                    raise MachineryError("Path.from_nodes cannot be called the way the harness calls it (see skipped_private)")
                continue
            if len(path.K_list) > 30:       # keep TLC's recursion shallow
                continue
            unit = 2 * np.pi if mode == "length" else 1.0
            rec = node_record(rep, path, nodes, labels, deflab, spec, nd, unit, route, detail, "from_nodes")
            if rec is None:
                continue
            recs.append(rec)
            rep.case(("rec_nodes", tuple(nodes), mode, tuple(spec["nk"]), tuple(spec["inv"]), deflab, nd, route))
            src = path_out(path)             # with the real label texts (labels=None: whatever the default texts are)
            src["K"] = unscale(src["K"], nd)
            last = (path, src, spec["A"], nd, unit)
        elif r < 0.8:
            path, out, A, nd0, unit = last
            f = rng.randint(1, 4)
            if len(path.K_list) * f > 60:
                continue
            detail = dict(path=out, factor=f)

            def refine():
                with quiet():
                    return path.get_refined(factor=f)
            ok, ref = U.guarded(rep, "get_refined", detail, refine)
            if not ok:
                continue
            why = path_sane(ref)
            if why:
                rep.violation("get_refined:malformed_path", dict(detail, what=why))
                continue
            o2 = path_out(ref)
            if any(p is None for p in o2["K"]):
                rep.violation("get_refined:nonrational_points", dict(detail, got=np.asarray(ref.K_list).tolist()))
                continue
            o2["K"] = unscale(o2["K"], nd0)
            # get_refined builds the new Path from the point group: its lattice must be the old one for getKline
            d = check_kline(rep, "get_refined", ref, detail)
            if d is None:
                continue
            recs.append(dict(fn="refined", path=out, f=f, A=A, out=o2, kline2=steps_rat(d, unit)))
            rep.case(("rec_refined", repr(out), f))
            if rng.random() < 0.3:
                last = (ref, o2, A, nd0, unit)
        elif r < 0.9:
            n = rng.randint(1, 12)
            kb = rng.randint(1, 6)
            K = [[rng.randint(-3, 3), rng.randint(0, 2), 0, rng.choice([1, 2, 3])] for _ in range(n)]
            detail = dict(K=K, k_batch=kb)
            ok, path = U.guarded(rep, "Path", detail, make_path, dict(K=K, labels=[], breaks=[]), np.eye(3))
            if not ok:
                continue
            ok, KL = U.guarded(rep, "get_K_list", detail, real_batches, path, kb)
            if not ok:
                if U.was_skipped(rep, "get_K_list"):
                    last_resort_batches(recs, K, kb)
                continue
            outb = [[U.rat_point(k) for k in a] for a in KL]
            if any(p is None for b in outb for p in b):
                rep.violation("get_K_list:does_not_cover_path", dict(detail, got=[a.tolist() for a in KL]))
                continue
            recs.append(dict(fn="batches", K=[U.rat_point(U.pt_float(p)) for p in K], kb=kb, out=outb))
            rep.case(("rec_batches", repr(K), kb))
        else:
            n = rng.randint(1, 9)
            K = [[rng.randint(-3, 3), rng.randint(0, 2), 0, rng.choice([1, 2, 3])] for _ in range(n)]
            ok, path = U.guarded(rep, "Path", dict(K=K), make_path, dict(K=K, labels=[], breaks=[]), np.eye(3))
            if not ok:
                continue
            Kr = [U.rat_point(U.pt_float(p)) for p in K]
            cls = []
            for j in range(n):
                cls.append(min(i for i in range(n) if all((Kr[i][c] * Kr[j][3] - Kr[j][c] * Kr[i][3]) % (Kr[i][3] * Kr[j][3]) == 0 for c in range(3))) + 1)
            kb = rng.randint(1, 4)
            bidx = [list(range(a, min(a + kb, n))) for a in range(0, n, kb)]
            order = rng.sample(range(len(bidx)), len(bidx))
            res = call_to_path(rep, path, bidx, order, cls, dict(K=K, k_batch=kb))
            if res is None:
                if U.was_skipped(rep, "self_to_path"):
                    last_resort_to_path(recs, Kr, cls)
                continue
            idx, tags, found, _ = res
            if any(t is None or len(t) != n or np.any(t != np.round(t)) for t in found.values()) or len({tuple(t) for t in found.values()}) != 1:
                rep.violation("self_to_path:order", dict(K=K, batch_order=order, expected_tags=cls,
                                                         got_tags={q: None if t is None else np.asarray(t).tolist() for q, t in found.items()}))
                continue
            # TABresult reduces its k-points modulo 1: record what it stores
            kp = [U.rat_point(np.array(U.pt_float(K[j])) % 1) for j in idx]
            recs.append(dict(fn="to_path", K=Kr, kp=kp, tags=tags, out=[int(x) for x in found["Energy"]]))
            rep.case(("rec_to_path", repr(K), tuple(order)))
    return recs


def large_nk_records(rep, rng, thorough):
    """uniform sampling for EVERY segment size up to a bound, not only the handful of sizes TLC enumerates / the random records
    draw: one from_nodes record per nk (alternating int / list mode, seeded nodes, node denominators and lattices) and a few
    dk / length records that imply long segments.  The records are decided by TLC (PathSpecRec) like all the others."""
    recs = []
    mats = list(LATS.values()) + [((1, 0, 0), (0, 1, 0), (0, 0, 1)), ((2, 1, 0), (0, 1, 0), (1, 0, 1))]
    top = 640 if thorough else 200
    sizes = [("nk", n) for n in range(7, top + 1)]
    sizes += [("inv", iv) for iv in ([37, 1], [64, 3], [101, 2], [55, 1], [89, 2]) + (([233, 3], [150, 1], [301, 2]) if thorough else ())]
    for kind, val in sizes:
        for _ in range(20):
            # the points are observed as rationals with denominators <= 2000 (U.rat_point): nd * (nk - 1) stays below that
            if kind == "nk":
                nd, span = rng.choice([d for d in (1, 2, 4) if d * (val - 1) <= 2000]), 2
            else:
                nd, span = (rng.choice([1, 2]) if val[0] <= 60 * val[1] else 1), 1      # segments of at most ~8 reciprocal units
            a = tuple(rng.randint(-span, span) for _ in range(3))
            b = tuple(rng.randint(-span, span) for _ in range(3))
            c = tuple(rng.randint(-span, span) for _ in range(3))
            if a == b or b == c:
                continue
            A = [list(x) for x in rng.choice(mats)]
            if kind == "nk":
                if val % 2:
                    nodes, labels, spec = [a, b], ["G", "X"], dict(mode="int", nk=[val], inv=[0, 1], A=A)
                else:
                    nodes, labels, spec = [a, b, c], ["G", "X", "M"], dict(mode="list", nk=[val, rng.randint(2, 4)][::rng.choice([1, -1])], inv=[0, 1], A=A)
            else:
                nodes, labels, spec = [a, b], ["G", "X"], dict(mode=rng.choice(["dk", "length"]), nk=[], inv=list(val), A=A)
                if tie(nodes, spec):
                    continue
            break
        else:
            raise MachineryError(f"large_nk_records: no admissible node pair for {kind} {val}")
        route = rng.choice(ROUTES)
        detail = dict(nodes=[list(x) for x in nodes], node_denominator=nd, labels=labels, spec=spec, lattice_given_as=route)
        ok, path = U.guarded(rep, "from_nodes", detail, make_from_nodes, nodes, labels, spec, nd, route, rng)
        if not ok:
            continue
        unit = 2 * np.pi if spec["mode"] == "length" else 1.0
        rec = node_record(rep, path, nodes, labels, False, spec, nd, unit, route, detail, "from_nodes")
        if rec is None:
            continue
        recs.append(rec)
        rep.case(("rec_nodes_long", kind, tuple(val) if kind == "inv" else val))
    if not rep.violations and len(recs) < len(sizes):
        raise MachineryError(f"large_nk_records: {len(recs)} records for {len(sizes)} segment sizes")
    rep.part("long_segments", records=len(recs), nk_every_value_up_to=top, dk_length_cases=sum(1 for k, _ in sizes if k == "inv"),
             longest_path=max((len(r["out"]["K"]) for r in recs), default=0))
    return recs


def last_resort_batches(recs, K, kb):
    """get_K_list / the K-point attribute is not callable the harness's way any more: keep the record kinds non-empty with
    the specification's own batches (marked, they bind nothing) so that the other kinds are still validated"""
    Kr = [U.rat_point(U.pt_float(p)) for p in K]
    recs.append(dict(fn="batches", K=Kr, kb=kb, out=[Kr[a:a + kb] for a in range(0, len(Kr), kb)], placeholder=True))


def last_resort_to_path(recs, Kr, cls):
    recs.append(dict(fn="to_path", K=Kr, kp=[U.rat_point(np.array(U.pt_float(p)) % 1) for p in Kr], tags=list(cls), out=list(cls), placeholder=True))


def unscale(pts, nd):
    """points given as reduced [x, y, z, d] of coordinates that were divided by nd -> the same points times nd, reduced"""
    out = []
    for p in pts:
        g = math.gcd(math.gcd(abs(p[0]) * nd, abs(p[1]) * nd), math.gcd(abs(p[2]) * nd, p[3]))
        out.append([p[0] * nd // g, p[1] * nd // g, p[2] * nd // g, p[3] // g])
    return out


def steps_rat(d, unit):
    """squared getKline steps as reduced fractions in the units of the integer lattice and of the integer nodes; a step
    that is not such a fraction (the path coordinate has another unit) is recorded by its sign only: the deciding
    clauses look at signs and zeros, the magnitudes are information"""
    out = []
    for x in d:
        sq = (x / unit) ** 2
        fr = U.rat(sq, maxden=10 ** 6, tol=1e-9 * max(1.0, sq)) if abs(x) > ZERO else None
        if x < -ZERO:
            out.append([-1, 1])
        elif abs(x) <= ZERO:
            out.append([0, 1])
        elif fr is None or fr.numerator <= 0 or fr.numerator >= 2 ** 30:
            out.append([1, 1])
        else:
            out.append([fr.numerator, fr.denominator])
    return out


def _t(msg, t0=[None]):
    import time
    if os.environ.get("VERIF_TIMING"):
        now = time.time()
        cpu = sum(os.times()[:4])
        print(f"[timing] {msg}: wall {0.0 if t0[0] is None else now - t0[0][0]:.1f}s cpu {0.0 if t0[0] is None else cpu - t0[0][1]:.1f}s", flush=True)
        t0[0] = (now, cpu)


def check(pid, tier):
    rep = Report(pid, tier, "model_checking")
    scr = U.Scratch(pid)
    try:
        return _check(rep, scr, tier)
    except Exception:
        if rep.violations:          # never lose what was already found
            rep.finish()
        raise
    finally:
        scr.cleanup()


def _check(rep, scr, tier):
    _t("start")
    thorough = tier == "thorough"
    rng = random.Random(seed() * 7919 + 29)
    rep.rule("TLC enumerates (a) node lists with None entries x labels/default labels x nk int / nk list / dk / length, (b) all paths of "
             "<= MaxLen points from a point set x every labels dict x every breaks list (none at the last point) x refinement factor, (c) path "
             "lengths x k_batch; a case = one finished TLC state replayed on the real Path/TABresult (exact comparison; states sorted, so the "
             "cases depend on VERIF_SEED only) or one seeded random recorded call validated by TLC; distinct by input tuple")
    rep.assume("node coordinates are integers/1,2,4 and lattices integer matrices, so path points are rationals with small denominators and the "
               "float results are within 1e-13 of them (integrality tolerance 1e-9)")
    rep.assume("dk/length inputs exactly half-way between two nk (RoundTie) are excluded: the code rounds a floating-point quotient there")
    late_recs = []

    # ---------------- spec: from_nodes
    counts = {}
    keep = []
    configs = [("nodes", cfg_nodes("NodeSetTiny", 3, 1, "LatSkew", factors="{2}", nks="{2, 4}", invs="InvsTwo", full=False), "LatSkew", True)]
    if thorough:
        configs = [("nodes", cfg_nodes("NodeSetQuick", 3, 2, "LatSkew"), "LatSkew", True),
                   ("nodes_ortho", cfg_nodes("NodeSetTiny", 4, 1, "LatOrtho", nks="{2, 4}"), "LatOrtho", True),
                   ("nodes_big", cfg_nodes("NodeSetQuick", 4, 1, "LatSkew", factors="{2}", nks="{2, 3}"), "LatSkew", False)]
    for short, cfg, lat, dump in configs:
        name = "c29_" + short
        if dump:
            st = ftable.enumerate_states("MC_PathNodes.tla", cfg, scr.tlc(short), workers=W, timeout=3000)
        else:
            st = tlc.require_ok(tlc.run_tlc("MC_PathNodes.tla", cfg, scr.tlc(short), workers=W, timeout=3000), name)
        if ftable.spec_violation(rep, st, name):
            continue
        tlc.check_not_vacuous(st, ["Segment", "BreakEnd", "SkipNone", "Finish"], name)
        rep.add_tlc(name, st)
        if dump:
            n = replay_nodes(rep, st, rng, counts, lat, keep, late_recs)
            if n == 0:
                raise MachineryError(f"no finished state in the dump of {name}")
            rep.part(name, replayed=n)
        else:
            rep.part(name, replayed=0, note="checked by TLC only")
    for cls in ("int", "list", "dk", "length", "int:break", "list:break", "dk:break", "length:break", "route:recip", "route:real", "route:system"):
        if counts.get(cls, 0) == 0:
            raise MachineryError(f"from_nodes: no replayed case of class {cls}")
    rep.part("from_nodes_classes", **counts)

    _t("from_nodes")
    # ---------------- spec: get_refined (+ getKline)
    counts = {}
    name = "c29_refine"
    st = ftable.enumerate_states("MC_PathRefine.tla", cfg_refine("PointsMid", 4) if thorough else cfg_refine("PointsQuick", 3, compose="{2}"), scr.tlc("refine"), workers=W, timeout=3000)
    if not ftable.spec_violation(rep, st, name):
        tlc.check_not_vacuous(st, ["KeepBreak", "Subdivide", "LastPoint"], name)
        rep.add_tlc(name, st)
        prob = 0.15 if thorough else 1.0
        n = replay_refine(rep, st, rng, counts, prob=prob)
        rep.part(name, replayed=n, replay_probability=prob)
        if not U.was_skipped(rep, "Path", "get_refined"):
            for cls in ("break:f>1", "nobreak:f>1", "break:f1"):
                if counts.get(cls, 0) == 0:
                    raise MachineryError(f"get_refined: no replayed case of class {cls}")
        rep.part("get_refined_classes", **counts)
    # sensitivity: a refinement that also sub-divides the step across a break must be rejected by TLC
    st0 = tlc.run_tlc("MC_PathRefine.tla", cfg_refine("PointsQuick", 3, wrong=True, nodepaths="NoPaths"), scr.tlc("refine_v0"), workers=W, timeout=900)
    if not st0.get("violation"):
        raise MachineryError("sensitivity self-test failed: MC_PathRefine with RefineAcrossBreaks=TRUE should violate an invariant")
    rep.part("c29_refine_v0", sensitivity_violation=st0["violation"][1])

    _t("refine")
    # ---------------- spec: get_K_list batches and self_to_path
    counts = {}
    name = "c29_batch"
    st = ftable.enumerate_states("MC_PathBatch.tla", cfg_batch(10 if thorough else 7), scr.tlc("batch"), workers=W, timeout=3000)
    if not ftable.spec_violation(rep, st, name):
        tlc.check_not_vacuous(st, ["Batch", "BatchEnd"], name)
        rep.add_tlc(name, st)
        n = replay_batch(rep, st, rng, counts)
        rep.part(name, replayed=n, **counts)
        if counts.get("multi", 0) == 0 and not U.was_skipped(rep, "get_K_list", "Path"):
            raise MachineryError("get_K_list: no case with more than one batch")
        if counts.get("to_path", 0) == 0 and not U.was_skipped(rep, "self_to_path", "Path"):
            raise MachineryError("self_to_path: no replayed case")

    _t("batch")
    # ---------------- second half: tabulation along TLC-built paths vs evaluate_k point by point (numeric)
    numeric_paths(rep, scr, rng, keep, thorough, late_recs)
    _t("numeric")

    # ---------------- code -> spec : recorded calls validated by TLC
    recs = random_records(rep, rng, 2500 if thorough else 240) + late_recs + large_nk_records(rep, rng, thorough)
    kinds = {}
    for r in recs:
        kinds[r["fn"]] = kinds.get(r["fn"], 0) + 1
    for k in ("from_nodes", "refined", "batches", "to_path"):
        if kinds.get(k, 0) == 0:
            raise MachineryError(f"no record of kind {k}")
    stv, bad = ftable.validate_records("PathSpecRec.tla", ftable.REC_CFG, recs, scr.rec("records"))
    rep.add_tlc("c29_records", stv)
    rep.add_traces(sum(1 for r in recs if not r.get("placeholder")))
    rep.part("c29_records", **kinds, replays_decided_by_record=len(late_recs), placeholders=sum(1 for r in recs if r.get("placeholder")))
    site = {"from_nodes": "from_nodes", "refined": "get_refined", "batches": "get_K_list", "to_path": "self_to_path"}
    for i, clauses in sorted(bad.items()):
        if "in_domain" in clauses:
            raise MachineryError(f"harness generated a record outside the specification's domain: {recs[i]}")
        for c in clauses:
            if c.startswith("info_"):
                U.info(rep, "info_record_clauses", f"{recs[i]['fn']}:{c[5:]}:differs")
        deciding = [c for c in clauses if not c.startswith("info_")]
        if deciding:
            rep.violation(f"{site[recs[i]['fn']]}:recorded", dict(record=recs[i], failing_clauses=deciding))
    rep.sample(recs[0])
    # binding self-test: corrupted records must be rejected
    cor = []

    def pick(cond, what):
        for r in recs:
            if not r.get("placeholder") and cond(r):
                return copy.deepcopy(r)
        raise MachineryError(f"binding self-test: no record with {what} among {len(recs)} records (seed {seed()})")
    r0 = pick(lambda r: r["fn"] == "from_nodes" and len(r["out"]["K"]) > 2, "a from_nodes path of 3 points")
    r0["out"]["K"][1][0] += 1
    cor.append(r0)
    r1 = pick(lambda r: r["fn"] == "refined" and r["f"] > 1 and len(r["out"]["labels"]) > 1, "a refined path with 2 labels")
    r1["out"]["labels"][-1][0] -= 1
    cor.append(r1)
    want = 2
    if not U.was_skipped(rep, "self_to_path", "Path"):
        r2 = pick(lambda r: r["fn"] == "to_path" and len(set(r["out"])) > 1, "a to_path record with two classes")
        r2["out"] = r2["out"][::-1] if r2["out"][::-1] != r2["out"] else r2["out"][1:] + r2["out"][:1]
        cor.append(r2)
        want += 1
    if not U.was_skipped(rep, "get_K_list", "Path"):
        r3 = pick(lambda r: r["fn"] == "batches" and len(r["K"]) > 1 and r["K"][0] != r["K"][1], "a batches record with two different points")
        r3["out"][0][0] = list(r3["K"][1] if r3["out"][0][0] == r3["K"][0] else r3["K"][0])
        cor.append(r3)
        want += 1
    _, b2 = ftable.validate_records("PathSpecRec.tla", ftable.REC_CFG, cor, scr.rec("selftest"))
    rejected = sorted(i for i, cl in b2.items() if any(not c.startswith("info_") for c in cl))
    if rejected != list(range(want)):
        raise MachineryError(f"binding self-test failed: corrupted records accepted (rejected: {rejected} of {want})")
    rep.part("binding_selftest", corrupted_records_rejected={str(k): [c for c in v if not c.startswith("info_")] for k, v in b2.items()})
    _t("records")
    return rep.finish()


# ---------------------------------------------------------------- numeric part
def shuffled_path(path, how, sd):
    """a Path whose get_K_list hands the batches to run() reversed / shuffled: emulates any completion order of a parallel
    run deterministically in a serial one.  run() must come back in path order (TABresult.self_to_path)."""
    import wannierberri as wb

    class PermutedPath(wb.Path):
        permuted = None

        def get_K_list(self, *a, **kw):
            KL = super().get_K_list(*a, **kw)
            order = list(range(len(KL)))
            if how == "reversed":
                order.reverse()
            else:
                random.Random(sd).shuffle(order)
            self.permuted = order
            return [KL[i] for i in order]
    with quiet():
        return PermutedPath(recip_lattice=path.recip_lattice, k_list=np.array(path.K_list), labels=dict(path.labels), breaks=list(path.breaks))


def numeric_paths(rep, scr, rng, keep, thorough, late_recs):
    import wannierberri as wb
    from wannierberri import calculators as calc
    if not keep:
        raise MachineryError("no TLC-built path kept for the tabulation part")
    keep = sorted(keep, key=repr)
    which = U.WHICH
    tol = 1e-8
    nsys = 3 if thorough else 1
    npaths = 8 if thorough else 3
    maxdev = 0.0
    npts = 0
    kinds = {}
    wd = scr.workdir("run")

    def choose():
        """a seeded choice of paths: one closed path, one with a break, every nk mode if possible"""
        sel = []
        for cond in (lambda k: k["closed"], lambda k: k["nbreak"] > 0, lambda k: k["spec"]["mode"] == "length", lambda k: k["spec"]["mode"] == "int",
                     lambda k: k["spec"]["mode"] == "dk", lambda k: k["spec"]["mode"] == "list" and k["labels"] is None):
            c = [k for k in keep if cond(k) and k not in sel]
            if c and len(sel) < npaths:
                sel.append(rng.choice(c))
        rest = [k for k in keep if k not in sel]
        sel += rng.sample(rest, min(max(0, npaths - len(sel)), len(rest)))
        return sel

    def evaluate(system, path, how, kb, ib, sd):
        tabs = U.tab_calculators(which, external=True)
        if how == "evaluate_k_path":
            with quiet():
                return wb.evaluate_k_path(system, path=path, tabulators=tabs, ibands=ib, parallel=False, k_batch=kb, fout_name=wd + "/r"), None
        grid = path
        if how in ("reversed", "shuffled"):
            grid = shuffled_path(path, how, sd)
        tall = calc.TabulatorAll(tabs, ibands=ib, mode="path")
        with quiet():
            res = wb.run(system, grid=grid, calculators={"tabulate": tall}, parallel=False, k_batch=kb, fout_name=wd + "/r").results["tabulate"]
        return res, getattr(grid, "permuted", None)

    def compare(res, path, single, bands, detail, key):
        nonlocal maxdev, npts
        if U.diff_mod1(res.kpoints, path.K_list) > 1e-9:
            rep.violation(f"{key}:kpoints", dict(detail, got=np.asarray(res.kpoints).tolist(), expected=np.asarray(path.K_list).tolist(),
                                                 note="compared modulo reciprocal lattice vectors"))
            return
        for q in which:
            got = np.asarray(res.get_data(quantity=q, iband=np.arange(len(bands))))
            exp = np.array([s[q][bands] for s in single])
            if got.shape != exp.shape:
                rep.violation(f"{key}:{q}:shape", dict(detail, got=got.shape, expected=exp.shape))
                continue
            dev = float(np.max(np.abs(got - exp))) if np.all(np.isfinite(got)) else float("inf")
            maxdev = max(maxdev, dev if np.isfinite(dev) else 0.0)
            if dev > tol:
                j = int(np.argmax(np.max(np.abs(np.nan_to_num(got - exp, nan=np.inf)).reshape(len(exp), -1), axis=1)))
                rep.violation(f"{key}:{q}", dict(detail, point_index=j, k=np.asarray(path.K_list)[j].tolist(), maxdiff=dev, tolerance=tol))
        npts += len(path.K_list)

    for isys in range(nsys):
        for _try in range(60):
            system = U.random_system(rng, nw=3, centres=True, aa=True)
            ok = True
            cases = []
            for k in choose():
                nd = rng.choice([2, 4])
                path = make_from_nodes(k["nodes"], k["labels"], k["spec"], nd)
                if rng.random() < 0.5:
                    with quiet():
                        path = path.get_refined(factor=2)
                single = [U.eval_point(system, kk, which, external=True) for kk in path.K_list]
                gap = min(float(np.min(np.diff(s["Energy"]))) for s in single)
                if gap < GAP_MIN:   # per-band quantities are ill-conditioned near degeneracies (error ~ eps/gap^3): take another model
                    ok = False
                    break
                cases.append((k, nd, path, single))
            if ok:
                break
        else:
            raise MachineryError("no random model without near-degenerate bands on the paths")
        for k, nd, path, single in cases:
            kbs = (1, 2, 3, 4) if thorough else sorted(rng.sample([1, 2, 3, 4], 2))
            hows = [rng.choice(["evaluate_k_path", "run"]) for _ in kbs]
            # one run of every path with permuted batches, with a k_batch that gives at least two batches
            kbs = list(kbs)
            jp = min(range(len(kbs)), key=lambda j: kbs[j])
            kbs[jp] = min(kbs[jp], max(1, len(path.K_list) // 2))
            hows[jp] = rng.choice(["reversed", "shuffled"])
            for kb, how in zip(kbs, hows):
                ib = rng.choice([None, [0, 2], [1]])
                bands = list(range(3)) if ib is None else ib
                detail = dict(nodes=[list(x) if len(x) else None for x in k["nodes"]], node_denominator=nd, mode=k["spec"]["mode"], nk=list(k["spec"]["nk"]),
                              inv_dk=list(k["spec"]["inv"]), k_batch=kb, ibands=ib, npoints=len(path.K_list), evaluated_with=how, closed_path=k["closed"])
                rep.case(("tab_path", k["nodes"], k["spec"]["mode"], k["spec"]["nk"], k["spec"]["inv"], nd, kb, repr(ib), isys, how))
                ok, res = U.guarded(rep, "run_path", detail, evaluate, system, path, how, kb, ib, rng.randrange(1 << 30))
                if not ok:
                    continue
                res, perm = res
                if how in ("reversed", "shuffled"):
                    if perm is None:
                        U.skipped(rep, "run_path:permuted_batches", AttributeError("run() did not ask the Path for its K-list through get_K_list"))
                    elif perm != sorted(perm):
                        kinds["permuted"] = kinds.get("permuted", 0) + 1
                        detail["batch_order"] = perm
                kinds[how] = kinds.get(how, 0) + 1
                kinds["closed" if k["closed"] else "open"] = kinds.get("closed" if k["closed"] else "open", 0) + 1
                kinds["mode:" + k["spec"]["mode"]] = kinds.get("mode:" + k["spec"]["mode"], 0) + 1
                compare(res, path, single, bands, detail, "tabulate_path")
    if kinds.get("permuted", 0) == 0 and not U.was_skipped(rep, "run_path:permuted_batches", "run_path"):
        raise MachineryError("numeric part: no run with permuted batches")

    # ---- the path built inside evaluate_k_path(nodes=, labels=, length=) from the lattice of the System
    cands = [k for k in keep if k["spec"]["mode"] == "length" and k["labels"] is not None]
    nin = 0
    for k in rng.sample(cands, min(len(cands), 6 if thorough else 2)):
        spec = k["spec"]
        A = np.array(spec["A"], dtype=float) * 2 * np.pi
        detail = dict(nodes=[list(x) if len(x) else None for x in k["nodes"]], labels=k["labels"], length=list(spec["inv"]), recip_lattice_int=[list(r) for r in spec["A"]])
        for _try in range(30):
            system = U.random_system(rng, nw=3, lattice=2 * np.pi * np.linalg.inv(A).T, centres=True, aa=True)
            single = [U.eval_point(system, U.pt_float(p), which, external=True) for p in k["exp"]["K"]]
            if min(float(np.min(np.diff(s["Energy"]))) for s in single) >= GAP_MIN:
                break
        else:
            continue

        def inside():
            with quiet():
                return wb.evaluate_k_path(system, nodes=[None if len(n) == 0 else [float(c) for c in n] for n in k["nodes"]], labels=list(k["labels"]),
                                          length=spec["inv"][0] / spec["inv"][1], tabulators=U.tab_calculators(which, external=True), parallel=False,
                                          k_batch=3, fout_name=wd + "/r")
        rep.case(("tab_path_nodes", k["nodes"], tuple(spec["inv"])))
        ok, out = U.guarded(rep, "evaluate_k_path", detail, inside)
        if not ok:
            continue
        if not (isinstance(out, tuple) and len(out) == 2):
            rep.violation("evaluate_k_path:no_path_returned", dict(detail, got=type(out).__name__))
            continue
        path, res = out
        why = path_sane(path)
        if why:
            rep.violation("evaluate_k_path:malformed_path", dict(detail, what=why))
            continue
        nin += 1
        bad = cmp_path(rep, "evaluate_k_path", path, k["exp"], 1, detail, report=False)
        if bad:
            rec = node_record(rep, path, k["nodes"], k["labels"], False, spec, 1, 2 * np.pi, "system", detail, "evaluate_k_path")
            if rec is not None:
                late_recs.append(rec)
                single = [U.eval_point(system, kk, which, external=True) for kk in path.K_list]
                if min(float(np.min(np.diff(s["Energy"]))) for s in single) < GAP_MIN:
                    continue
            else:
                continue
        compare(res, path, single, [0, 1, 2], detail, "evaluate_k_path")
    rep.assume(f"numeric part: models whose bands come closer than {GAP_MIN} eV on the path are replaced (per-band quantities are ill-conditioned there)")
    rep.part("numeric_only", what="run(Path)/evaluate_k_path (serial; batches in path order, reversed, shuffled) vs evaluate_k at every path point: Energy, "
                                  "Berry curvature and velocity (with external terms, random Wannier centres and AA), inverse mass",
             systems=nsys, path_points=npts, paths_built_inside_evaluate_k_path=nin, max_deviation=maxdev, tolerance=tol, **kinds)
    if maxdev * 1e4 > tol:
        rep.part("numeric_only", warning="observed deviation is less than 10^4 below the tolerance")
