"""C29: paths are built and tabulated faithfully.

spec  : PathSpec.tla (Path.from_nodes, get_refined, getKline, get_K_list, TABresult.self_to_path as operators shaped like
        the code + the loop-free statement of the property), MC_PathNodes (zip loop of from_nodes), MC_PathRefine (loop of
        get_refined; sensitivity switch RefineAcrossBreaks), MC_PathBatch (batch loop + every batch order through
        self_to_path)
bind  : every finished TLC state is replayed on the real Path / TABresult (K_list scaled to integers with integrality
        verification, labels dict and breaks list exactly, squared path-coordinate steps against exact fractions);
        seeded random calls of the same functions are recorded and validated by TLC against PathSpecRec.tla
second half (numeric): evaluate_k_path / run(Path) (serial) on a tiny random tight-binding model along TLC-built paths
        against evaluate_k at every path point alone (tolerance 1e-8).
"""
import copy
import math
import os
import random
import shutil

import numpy as np

from .. import tlc, ftable
from ..common import Report, MachineryError, seed, quiet, workdir
from . import _c2930_util as U

PROPS = {
    "C29": dict(level="model_checking",
                technique="TLC exhaustive on PathSpec.tla (loop-level transcription of Path.from_nodes / get_refined / get_K_list vs the loop-free statement with explicit positions; exact rational points) + replay of every finished TLC state on the real Path / TABresult.self_to_path + TLC validation of recorded calls; numeric comparison of run(Path) with evaluate_k point by point",
                text="TLC enumerates node lists with None breaks, label choices, nk / nk-list / dk / length, small arbitrary paths with every "
                     "labels dict and breaks list, refinement factors, k_batch values and batch orders, and checks: every node present in order "
                     "with its label, uniform sampling, refinement keeps points/labels/breaks at the refined index, path coordinate "
                     "non-decreasing, flat across breaks and unchanged by refinement, batches concatenate to the path and are mapped back "
                     "to path order. Each finished state is executed on the real code and compared exactly; random larger inputs are "
                     "recorded from the real code and every clause of PathSpecRec is evaluated on them by TLC. Along TLC-built paths "
                     "run()/evaluate_k_path (serial, k_batch 1..4) is compared with evaluate_k at each point (Energy, Berry curvature, velocity).",
                note="node coordinates are integers divided by 1, 2 or 4; dk/length values exactly half-way between two nk are excluded by the "
                     "named predicate RoundTie; getKline with a break at the last index (outside its domain) by KlineOK; the parallel "
                     "completion order of run(Path) belongs to C12",
                ref="DESIGN.md 3.7"),
}

THR2 = (3, 7)
W = int(os.environ.get("VERIF_TLC_WORKERS", "16"))
GAP_MIN = 0.05                   # smallest band gap admitted in the numeric comparisons (named exclusion)
LATS = {"LatSkew": ((1, 0, 0), (1, 2, 0), (0, -1, 2)), "LatOrtho": ((1, 0, 0), (0, 2, 0), (0, 0, 3))}


# ---------------------------------------------------------------- calling the real code
def make_from_nodes(nodes, labels, spec, nd=1):
    """nodes: sequence of 3-tuples of ints or () for None; labels: list or None; spec: dict(mode, nk, inv, A)"""
    import wannierberri as wb
    A = np.array(spec["A"], dtype=float) * nd
    kw = {}
    mode = spec["mode"]
    if mode == "int":
        kw["nk"] = int(spec["nk"][0])
    elif mode == "list":
        kw["nk"] = [int(x) for x in spec["nk"]]
    elif mode == "dk":
        kw["dk"] = spec["inv"][1] / spec["inv"][0]
    elif mode == "length":
        A = A * (2 * np.pi)
        kw["length"] = spec["inv"][0] / spec["inv"][1]
    else:
        raise MachineryError(f"unknown mode {mode}")
    nn = [None if len(n) == 0 else [c / nd for c in n] for n in nodes]
    with quiet():
        return wb.Path.from_nodes(recip_lattice=A, nodes=nn, labels=None if labels is None else list(labels), **kw)


def make_path(P, A, nd=1):
    import wannierberri as wb
    with quiet():
        return wb.Path(recip_lattice=np.array(A, dtype=float) * nd, k_list=[U.pt_float(p, nd) for p in P["K"]],
                       labels={int(i): l for i, l in P["labels"]}, breaks=[int(b) for b in P["breaks"]])


def path_out(path):
    """what is observed of a real Path: points as reduced rationals, labels as sorted pairs, breaks"""
    pts = [U.rat_point(k) for k in np.asarray(path.K_list, dtype=float).reshape(-1, 3)]
    return dict(K=pts, labels=[[int(i), str(l)] for i, l in sorted(path.labels.items())], breaks=[int(b) for b in path.breaks])


def kline2(path, unit=1.0, thresh=None):
    """squared steps of getKline as floats (in units of unit^2) and the raw differences"""
    with quiet():
        kl = path.getKline() if thresh is None else path.getKline(break_thresh=thresh)
    d = np.diff(kl)
    return (d / unit) ** 2, d


def cmp_steps(sq, exp, tol=1e-9):
    if len(sq) != len(exp):
        return f"{len(sq)} steps instead of {len(exp)}"
    for j, (n, d) in enumerate(exp):
        if abs(sq[j] - n / d) > tol * max(1.0, n / d):
            return f"step {j}: squared length {sq[j]} instead of {n}/{d}"
    return None


def cmp_path(rep, key, path, exp, nd, detail):
    """exact comparison of a real Path with the specification's path; returns True if equal"""
    ok = True
    bad = U.cmp_points(path.K_list, exp["K"], nd)
    if bad:
        rep.violation(f"{key}:K_list", dict(detail, what=bad, got=np.asarray(path.K_list).tolist(), expected=[list(p) for p in exp["K"]]))
        ok = False
    lab = {int(i): l for i, l in exp["labels"]}
    if {int(k): v for k, v in path.labels.items()} != lab:
        rep.violation(f"{key}:labels", dict(detail, got={int(k): v for k, v in path.labels.items()}, expected=lab))
        ok = False
    if [int(b) for b in path.breaks] != [int(b) for b in exp["breaks"]]:
        rep.violation(f"{key}:breaks", dict(detail, got=[int(b) for b in path.breaks], expected=list(exp["breaks"])))
        ok = False
    return ok


def tie(nodes, spec):
    """RoundTie of the specification, for the harness' own input generation"""
    A = np.array(spec["A"], dtype=int)
    p, q = spec["inv"]
    for a, b in zip(nodes, nodes[1:]):
        if len(a) and len(b):
            d = (np.array(a) - np.array(b)) @ A
            s2 = int(d @ d)
            x = 4 * s2 * p * p
            n = 0
            while (2 * n + 1) ** 2 * q * q < x:
                n += 1
            if (2 * n + 1) ** 2 * q * q == x:
                return True
    return False


# ---------------------------------------------------------------- the check
def cfg_nodes(nodeset, maxnodes, maxnone, lat, factors="{1, 2, 3}", nks="{2, 3, 4}", invs="InvsDef", full=True):
    inv = ["LoopIsOperator", "InvNodesInOrder", "InvLabelsExact", "InvUniform", "InvBreaksExact", "InvLength", "InvPathOK", "InvKline",
           "InvRound", "InvRefinedNodes"]
    return ("SPECIFICATION Spec\nCONSTANTS\n"
            f"  NodeSet <- {nodeset}\n  MaxNodes = {maxnodes}\n  MaxNone = {maxnone}\n  NKS = {nks}\n  INVS <- {invs}\n  LatA <- {lat}\n  Factors = {factors}\n  FullProduct = {'TRUE' if full else 'FALSE'}\n"
            + "".join(f"INVARIANT {i}\n" for i in inv) + "CHECK_DEADLOCK FALSE\n")


def cfg_refine(points, maxlen, wrong=False, nodepaths="NodePathsDef", compose="{1, 2, 3}"):
    inv = ["InvKeeps", "InvIdentity", "InvKline"] + ([] if wrong else ["LoopIsOperator", "InvCompose"])
    return ("SPECIFICATION Spec\nCONSTANTS\n"
            f"  Points <- {points}\n  MaxLen = {maxlen}\n  Factors = {{1, 2, 3}}\n  ComposeWith = {compose}\n  LatA <- LatSkew\n  NodePaths <- {nodepaths}\n"
            f"  RefineAcrossBreaks = {'TRUE' if wrong else 'FALSE'}\n"
            + "".join(f"INVARIANT {i}\n" for i in inv) + "CHECK_DEADLOCK FALSE\n")


def cfg_batch(maxlen):
    inv = ["LoopIsOperator", "InvBatches", "InvToPath"]
    return (f"SPECIFICATION Spec\nCONSTANTS\n  MaxLen = {maxlen}\n  KBatch = {{1, 2, 3, 4}}\n  Dens = {{1, 2, 3}}\n"
            + "".join(f"INVARIANT {i}\n" for i in inv) + "CHECK_DEADLOCK FALSE\n")


def replay_nodes(rep, st, rng, counts, lat, keep_paths):
    n = 0
    for s in U.states_where(st):
        n += 1
        nodes, spec = s["nodes"], s["spec"]
        labels = None if s["deflab"] else list(s["labs"])
        nd = rng.choice([1, 1, 2, 4])
        exp = s["st"]
        nbreak = len(exp["breaks"])
        cls = spec["mode"] + (":break" if nbreak else "")
        counts[cls] = counts.get(cls, 0) + 1
        rep.case(("from_nodes", nodes, s["deflab"], spec["mode"], spec["nk"], spec["inv"], lat), nontrivial=len(exp["K"]) > 1)
        detail = dict(nodes=[list(x) if len(x) else None for x in nodes], node_denominator=nd, labels=labels, mode=spec["mode"], nk=list(spec["nk"]),
                      inv_dk=list(spec["inv"]), recip_lattice_int=[list(r) for r in spec["A"]])
        try:
            path = make_from_nodes(nodes, labels, spec, nd)
        except Exception as ex:  # the specification says these inputs are inside the domain
            rep.violation("from_nodes:exception", dict(detail, exception=repr(ex)))
            continue
        ok = cmp_path(rep, "from_nodes", path, exp, nd, detail)
        if ok and len(exp["K"]) > 1:
            d = np.diff(path.getKline())
            if np.any(d < 0):
                rep.violation("getKline:decreasing", dict(detail, got=d.tolist()))
            if any(d[b] != 0.0 for b in exp["breaks"]):
                rep.violation("getKline:not_flat_at_break", dict(detail, got=d.tolist(), breaks=list(exp["breaks"])))
        if n <= 2:
            rep.sample(dict(fn="Path.from_nodes", **detail, K=[list(p) for p in exp["K"]], labels_out=[list(x) for x in exp["labels"]], breaks=list(exp["breaks"])))
        if keep_paths is not None and nbreak and len(exp["K"]) >= 4 and len(keep_paths) < 40 and spec["mode"] in ("list", "dk") and not s["deflab"]:
            keep_paths.append((nodes, labels, spec))
    return n


def replay_refine(rep, st, rng, counts, prob=1.0):
    A = LATS["LatSkew"]
    n = 0
    for s in U.states_where(st, prob=prob, rng=rng):
        n += 1
        P, f, R = s["P"], s["f"], s["r"]
        nd = rng.choice([1, 2])
        kline_ok = all(b < len(P["K"]) - 1 for b in P["breaks"])
        cls = ("break" if len(P["breaks"]) else "nobreak") + (":f1" if f == 1 else ":f>1") + ("" if kline_ok else ":lastbreak")
        counts[cls] = counts.get(cls, 0) + 1
        rep.case(("refined", P["K"], P["labels"], P["breaks"], f), nontrivial=len(P["K"]) > 1)
        detail = dict(K=[list(p) for p in P["K"]], point_denominator_factor=nd, labels=[list(x) for x in P["labels"]], breaks=list(P["breaks"]), factor=f)
        path = make_path(P, A, nd)
        try:
            with quiet():
                ref = path.get_refined(factor=f)
        except Exception as ex:
            rep.violation("get_refined:exception", dict(detail, exception=repr(ex)))
            continue
        ok = cmp_path(rep, "get_refined", ref, R, nd, detail)
        if ok and kline_ok and len(R["K"]) > 1:
            steps, stepsT = s["aux"]["steps"], s["aux"]["stepsT"]
            sq, d = kline2(ref)
            bad = cmp_steps(sq, steps)
            if bad:
                rep.violation("getKline:steps", dict(detail, what=bad, got=sq.tolist(), expected=[list(x) for x in steps]))
            if np.any(d < 0):
                rep.violation("getKline:decreasing", dict(detail, got=d.tolist()))
            if any(d[b] != 0.0 for b in R["breaks"]):
                rep.violation("getKline:not_flat_at_break", dict(detail, got=d.tolist(), breaks=list(R["breaks"])))
            sqT, _ = kline2(ref, thresh=math.sqrt(THR2[0] / THR2[1]))
            bad = cmp_steps(sqT, stepsT)
            if bad:
                rep.violation("getKline:break_thresh", dict(detail, what=bad, got=sqT.tolist(), expected=[list(x) for x in stepsT], break_thresh2=list(THR2)))
        if n <= 2:
            rep.sample(dict(fn="Path.get_refined", **detail, K_out=[list(p) for p in R["K"]], labels_out=[list(x) for x in R["labels"]], breaks_out=list(R["breaks"])))
    return n


def tab_of(kpts, tags, recip):
    from wannierberri.result import KBandResult, TABresult
    data = np.array([[t, -t] for t in tags], dtype=float)
    return TABresult(kpoints=np.array(kpts, dtype=float), recip_lattice=recip, results={"Energy": KBandResult(data, rank=0)}, mode="path")


def call_to_path(path, batches_idx, order, cls):
    """result of the batches (lists of path indices) collected in `order`, re-ordered by the real self_to_path.
    The data of a k-point is the class tag (first equivalent path point, 1-based)."""
    idx = [j for b in order for j in batches_idx[b]]
    kp = [path.K_list[j] for j in idx]
    tags = [cls[j] for j in idx]
    with quiet():
        tab = tab_of(kp, tags, path.recip_lattice)
        tab.self_to_path(path)
    out = tab.get_data("Energy", iband=0)
    return idx, tags, [int(round(x)) for x in out], bool(np.all(out == np.round(out))), np.asarray(tab.kpoints)


def replay_batch(rep, st, rng, counts):
    n = 0
    for s in U.states_where(st):
        n += 1
        P, kb, bs, cls = s["P"], s["kb"], s["bs"], list(s["cls"])
        rep.case(("batches", P["K"], kb), nontrivial=len(P["K"]) > kb)
        detail = dict(K=[list(p) for p in P["K"]], k_batch=kb)
        path = make_path(P, np.eye(3))
        with quiet():
            KL = path.get_K_list(k_batch=kb)
        if len(KL) != len(bs):
            rep.violation("get_K_list:number_of_batches", dict(detail, got=len(KL), expected=len(bs)))
            continue
        good = True
        for b, (Kp, e) in enumerate(zip(KL, bs)):
            for what, arr in (("K", Kp.K), ("Kp_fullBZ", Kp.Kp_fullBZ)):
                bad = U.cmp_points(arr, e)
                if bad:
                    rep.violation(f"get_K_list:{what}", dict(detail, batch=b, what=bad, got=np.asarray(arr).tolist(), expected=[list(p) for p in e]))
                    good = False
        counts["multi" if len(bs) > 1 else "single"] = counts.get("multi" if len(bs) > 1 else "single", 0) + 1
        if not good:
            continue
        # the batches in several orders through the real self_to_path
        pos, bidx = 0, []
        for e in bs:
            bidx.append(list(range(pos, pos + len(e))))
            pos += len(e)
        orders = [list(range(len(bs))), list(range(len(bs)))[::-1]] + [rng.sample(range(len(bs)), len(bs)) for _ in range(2)]
        for order in orders:
            try:
                idx, tags, out, integral, kpo = call_to_path(path, bidx, order, cls)
            except Exception as ex:
                rep.violation("self_to_path:exception", dict(detail, order=order, exception=repr(ex)))
                continue
            rep.case(("to_path", P["K"], kb, tuple(order)), nontrivial=order != sorted(order))
            if not integral or out != cls:
                rep.violation("self_to_path:order", dict(detail, batch_order=order, expected_tags=cls, got_tags=out))
            if np.abs(kpo - path.K_list).max() > 1e-12:
                rep.violation("self_to_path:kpoints", dict(detail, batch_order=order, got=kpo.tolist()))
        if n <= 1:
            rep.sample(dict(fn="Path.get_K_list", **detail, batches=[[list(p) for p in e] for e in bs]))
    return n


def random_records(rep, rng, nrec):
    recs = []
    mats = list(LATS.values()) + [((1, 0, 0), (0, 1, 0), (0, 0, 1)), ((2, 1, 0), (0, 1, 0), (1, 0, 1))]
    while len(recs) < nrec:
        r = rng.random()
        nd = rng.choice([1, 2, 4])
        if r < 0.45 or not recs:
            nreal = rng.randint(1, 6)
            real = [tuple(rng.randint(-2, 2) for _ in range(3)) for _ in range(nreal)]
            if rng.random() < 0.3 and nreal > 2:
                real[-1] = real[0]
            nodes = []
            for m, v in enumerate(real):
                if rng.random() < 0.25:
                    nodes += [()] * rng.choice([1, 1, 2])
                nodes.append(v)
            deflab = rng.random() < 0.3
            labels = None if deflab else [rng.choice(["G", "X", "M", "R", "Z", "K'", "GAMMA"]) for _ in real]
            nseg = sum(1 for a, b in zip(nodes, nodes[1:]) if len(a) and len(b))
            mode = rng.choice(["int", "list", "list", "dk", "length"])
            spec = dict(mode=mode, nk=[], inv=[0, 1], A=[list(x) for x in rng.choice(mats)])
            if mode == "int":
                spec["nk"] = [rng.randint(2, 6)]
            elif mode == "list":
                spec["nk"] = [rng.randint(2, 6) for _ in range(nseg)]
            else:
                spec["inv"] = rng.choice([[1, 1], [1, 2], [3, 2], [2, 3], [1, 3], [2, 5]])
                if tie(nodes, spec):
                    continue
            path = make_from_nodes(nodes, labels, spec, nd)
            if len(path.K_list) > 30:       # keep TLC's recursion shallow
                continue
            out = path_out(path)
            if any(p is None for p in out["K"]):
                rep.violation("from_nodes:nonintegral", dict(nodes=nodes, spec=spec, got=np.asarray(path.K_list).tolist()))
                continue
            # rescale the points by the node denominator: the specification's nodes are the integers
            out["K"] = unscale(out["K"], nd)
            rec = dict(fn="from_nodes", nodes=[list(x) for x in nodes], deflab=deflab, labels=labels or [], mode=mode, nk=spec["nk"], inv=spec["inv"],
                       A=spec["A"], out=out, kline2=steps_rat(path, nd, 2 * np.pi if mode == "length" else 1.0))
            if rec["kline2"] is None:
                rep.violation("getKline:nonrational", dict(nodes=nodes, spec=spec))
                continue
            recs.append(rec)
            rep.case(("rec_nodes", tuple(nodes), mode, tuple(spec["nk"]), tuple(spec["inv"]), len(recs)))
            last = (path, out, spec["A"], nd, 2 * np.pi if mode == "length" else 1.0)
        elif r < 0.8:
            path, out, A, nd0, unit = last
            f = rng.randint(1, 4)
            if len(path.K_list) * f > 60:
                continue
            with quiet():
                ref = path.get_refined(factor=f)
            o2 = path_out(ref)
            if any(p is None for p in o2["K"]):
                rep.violation("get_refined:nonintegral", dict(path=out, factor=f, got=np.asarray(ref.K_list).tolist()))
                continue
            o2["K"] = unscale(o2["K"], nd0)
            # get_refined builds the new Path from the point group: its lattice must be the old one for getKline
            k2 = steps_rat(ref, nd0, unit)
            if k2 is None:
                rep.violation("getKline:nonrational", dict(path=out, factor=f))
                continue
            recs.append(dict(fn="refined", path=out, f=f, A=A, out=o2, kline2=k2))
            rep.case(("rec_refined", repr(out), f, len(recs)))
            if rng.random() < 0.3:
                last = (ref, o2, A, nd0, unit)
        elif r < 0.9:
            n = rng.randint(1, 12)
            kb = rng.randint(1, 6)
            K = [[rng.randint(-3, 3), rng.randint(0, 2), 0, rng.choice([1, 2, 3])] for _ in range(n)]
            path = make_path(dict(K=K, labels=[], breaks=[]), np.eye(3))
            with quiet():
                KL = path.get_K_list(k_batch=kb)
            outb = [[U.rat_point(k) for k in Kp.Kp_fullBZ] for Kp in KL]
            recs.append(dict(fn="batches", K=[U.rat_point(U.pt_float(p)) for p in K], kb=kb, out=outb))
            rep.case(("rec_batches", repr(K), kb))
        else:
            n = rng.randint(1, 9)
            K = [[rng.randint(-3, 3), rng.randint(0, 2), 0, rng.choice([1, 2, 3])] for _ in range(n)]
            path = make_path(dict(K=K, labels=[], breaks=[]), np.eye(3))
            Kr = [U.rat_point(U.pt_float(p)) for p in K]
            cls = []
            for j in range(n):
                cls.append(min(i for i in range(n) if all((Kr[i][c] * Kr[j][3] - Kr[j][c] * Kr[i][3]) % (Kr[i][3] * Kr[j][3]) == 0 for c in range(3))) + 1)
            kb = rng.randint(1, 4)
            bidx = [list(range(a, min(a + kb, n))) for a in range(0, n, kb)]
            order = rng.sample(range(len(bidx)), len(bidx))
            idx, tags, out, integral, _ = call_to_path(path, bidx, order, cls)
            if not integral:
                rep.violation("self_to_path:nonintegral", dict(K=K, order=order))
                continue
            # TABresult reduces its k-points modulo 1: record what it stores
            kp = [U.rat_point(np.array(U.pt_float(K[j])) % 1) for j in idx]
            recs.append(dict(fn="to_path", K=Kr, kp=kp, tags=tags, out=out))
            rep.case(("rec_to_path", repr(K), tuple(order)))
    return recs


def unscale(pts, nd):
    """points given as reduced [x, y, z, d] of coordinates that were divided by nd -> the same points times nd, reduced"""
    out = []
    for p in pts:
        g = math.gcd(math.gcd(abs(p[0]) * nd, abs(p[1]) * nd), math.gcd(abs(p[2]) * nd, p[3]))
        out.append([p[0] * nd // g, p[1] * nd // g, p[2] * nd // g, p[3] // g])
    return out


def steps_rat(path, nd, unit):
    """squared getKline steps as reduced fractions, in the units of the integer lattice and of the integer nodes"""
    sq, d = kline2(path, unit=unit)
    if np.any(d < 0):
        return None
    out = []
    for x in sq:
        fr = U.rat(x, maxden=10 ** 6, tol=1e-9 * max(1.0, x))
        if fr is None:
            return None
        out.append([fr.numerator, fr.denominator])
    return out


def _t(msg, t0=[None]):
    import time
    if os.environ.get("VERIF_TIMING"):
        now = time.time()
        print(f"[timing] {msg}: {0.0 if t0[0] is None else now - t0[0]:.1f}s", flush=True)
        t0[0] = now


def check(pid, tier):
    rep = Report(pid, tier, "model_checking")
    _t("start")
    thorough = tier == "thorough"
    rng = random.Random(seed() * 7919 + 29)
    rep.rule("TLC enumerates (a) node lists with None entries x labels/default labels x nk int / nk list / dk / length, (b) all paths of "
             "<= MaxLen points from a point set x every labels dict x every breaks list x refinement factor, (c) path lengths x k_batch; a case "
             "= one finished TLC state replayed on the real Path/TABresult (exact comparison) or one seeded random recorded call validated by "
             "TLC; distinct by input tuple")
    rep.assume("node coordinates are integers/1,2,4 and lattices integer matrices, so path points are rationals with small denominators and the "
               "float results are within 1e-13 of them (integrality tolerance 1e-9)")
    rep.assume("dk/length inputs exactly half-way between two nk (RoundTie) are excluded: the code rounds a floating-point quotient there")

    # ---------------- spec: from_nodes
    counts = {}
    keep = []
    configs = [("c29_nodes", cfg_nodes("NodeSetTiny", 3, 1, "LatSkew", factors="{2}", nks="{2, 4}", invs="InvsTwo", full=False), "LatSkew", True)]
    if thorough:
        configs = [("c29_nodes", cfg_nodes("NodeSetQuick", 3, 2, "LatSkew"), "LatSkew", True),
                   ("c29_nodes_ortho", cfg_nodes("NodeSetTiny", 4, 1, "LatOrtho", nks="{2, 4}"), "LatOrtho", True),
                   ("c29_nodes_big", cfg_nodes("NodeSetQuick", 4, 1, "LatSkew", factors="{2}", nks="{2, 3}"), "LatSkew", False)]
    for name, cfg, lat, dump in configs:
        st = ftable.enumerate_states("MC_PathNodes.tla", cfg, name, workers=W, timeout=3000) if dump else tlc.require_ok(tlc.run_tlc("MC_PathNodes.tla", cfg, name, workers=W, timeout=3000), name)
        if ftable.spec_violation(rep, st, name):
            continue
        tlc.check_not_vacuous(st, ["Segment", "BreakEnd", "SkipNone", "Finish"], name)
        rep.add_tlc(name, st)
        if dump:
            n = replay_nodes(rep, st, rng, counts, lat, keep)
            if n == 0:
                raise MachineryError(f"no finished state in the dump of {name}")
            rep.part(name, replayed=n)
    for cls in ("int", "list", "dk", "length", "int:break", "list:break", "dk:break", "length:break"):
        if counts.get(cls, 0) == 0:
            raise MachineryError(f"from_nodes: no replayed case of class {cls}")
    rep.part("from_nodes_classes", **counts)

    _t("from_nodes")
    # ---------------- spec: get_refined (+ getKline)
    counts = {}
    name = "c29_refine"
    st = ftable.enumerate_states("MC_PathRefine.tla", cfg_refine("PointsMid", 4) if thorough else cfg_refine("PointsQuick", 3, compose="{2}"), name, workers=W, timeout=3000)
    if not ftable.spec_violation(rep, st, name):
        tlc.check_not_vacuous(st, ["KeepBreak", "Subdivide", "LastPoint"], name)
        rep.add_tlc(name, st)
        prob = 0.15 if thorough else 1.0
        n = replay_refine(rep, st, rng, counts, prob=prob)
        rep.part(name, replayed=n, replay_probability=prob)
        for cls in ("break:f>1", "nobreak:f>1", "break:f1", "break:f>1:lastbreak"):
            if counts.get(cls, 0) == 0:
                raise MachineryError(f"get_refined: no replayed case of class {cls}")
        rep.part("get_refined_classes", **counts)
    # sensitivity: a refinement that also sub-divides the step across a break must be rejected by TLC
    st0 = tlc.run_tlc("MC_PathRefine.tla", cfg_refine("PointsQuick", 2, wrong=True, nodepaths="NoPaths"), "c29_refine_v0", workers=W, timeout=900)
    if not st0.get("violation"):
        raise MachineryError("sensitivity self-test failed: MC_PathRefine with RefineAcrossBreaks=TRUE should violate an invariant")
    rep.part("c29_refine_v0", sensitivity_violation=st0["violation"][1])

    _t("refine")
    # ---------------- spec: get_K_list batches and self_to_path
    counts = {}
    name = "c29_batch"
    st = ftable.enumerate_states("MC_PathBatch.tla", cfg_batch(10 if thorough else 7), name, workers=W, timeout=3000)
    if not ftable.spec_violation(rep, st, name):
        tlc.check_not_vacuous(st, ["Batch", "BatchEnd"], name)
        rep.add_tlc(name, st)
        n = replay_batch(rep, st, rng, counts)
        rep.part(name, replayed=n, **counts)
        if counts.get("multi", 0) == 0:
            raise MachineryError("get_K_list: no case with more than one batch")

    _t("batch")
    # ---------------- code -> spec : recorded calls validated by TLC
    recs = random_records(rep, rng, 2500 if thorough else 240)
    kinds = {}
    for r in recs:
        kinds[r["fn"]] = kinds.get(r["fn"], 0) + 1
    for k in ("from_nodes", "refined", "batches", "to_path"):
        if kinds.get(k, 0) == 0:
            raise MachineryError(f"no record of kind {k}")
    stv, bad = ftable.validate_records("PathSpecRec.tla", ftable.REC_CFG, recs, "c29")
    rep.add_tlc("c29_records", stv)
    rep.add_traces(len(recs))
    rep.part("c29_records", **kinds)
    site = {"from_nodes": "from_nodes", "refined": "get_refined", "batches": "get_K_list", "to_path": "self_to_path"}
    for i, clauses in bad.items():
        if "in_domain" in clauses:
            raise MachineryError(f"harness generated a record outside the specification's domain: {recs[i]}")
        rep.violation(f"{site[recs[i]['fn']]}:recorded", dict(record=recs[i], failing_clauses=clauses))
    rep.sample(recs[0])
    # binding self-test: corrupted records must be rejected
    cor = []
    r0 = copy.deepcopy(next(r for r in recs if r["fn"] == "from_nodes" and len(r["out"]["K"]) > 2))
    r0["out"]["K"][1][0] += 1
    cor.append(r0)
    r1 = copy.deepcopy(next(r for r in recs if r["fn"] == "refined" and r["f"] > 1 and len(r["out"]["labels"]) > 1))
    r1["out"]["labels"][-1][0] -= 1
    cor.append(r1)
    r2 = copy.deepcopy(next(r for r in recs if r["fn"] == "to_path" and len(set(r["out"])) > 1))
    r2["out"] = r2["out"][::-1] if r2["out"][::-1] != r2["out"] else r2["out"][1:] + r2["out"][:1]
    cor.append(r2)
    _, b2 = ftable.validate_records("PathSpecRec.tla", ftable.REC_CFG, cor, "c29_selftest")
    if sorted(b2) != [0, 1, 2]:
        raise MachineryError(f"binding self-test failed: corrupted records accepted ({sorted(b2)})")
    rep.part("binding_selftest", corrupted_records_rejected={str(k): v for k, v in b2.items()})

    _t("records")
    # ---------------- second half: tabulation along TLC-built paths vs evaluate_k point by point (numeric)
    numeric_paths(rep, rng, keep, thorough)
    _t("numeric")
    return rep.finish()


def numeric_paths(rep, rng, keep, thorough):
    import wannierberri as wb
    from wannierberri import calculators as calc
    if not keep:
        raise MachineryError("no TLC-built path with a break kept for the tabulation part")
    which = ("Energy", "berry", "vel")
    tol = 1e-8
    nsys = 3 if thorough else 1
    npaths = 8 if thorough else 3
    maxdev = 0.0
    npts = 0
    wd = workdir("c29_run")
    for isys in range(nsys):
        for _try in range(60):
            system = U.random_system(rng, nw=3)
            sel = rng.sample(keep, min(npaths, len(keep)))
            ok = True
            cases = []
            for nodes, labels, spec in sel:
                nd = rng.choice([2, 4])
                path = make_from_nodes(nodes, labels, spec, nd)
                if rng.random() < 0.5:
                    with quiet():
                        path = path.get_refined(factor=2)
                single = [U.eval_point(system, k, which) for k in path.K_list]
                gap = min(float(np.min(np.diff(s["Energy"]))) for s in single)
                if gap < GAP_MIN:   # per-band quantities are ill-conditioned near degeneracies (error ~ eps/gap^3): take another model
                    ok = False
                    break
                cases.append((nodes, labels, spec, nd, path, single))
            if ok:
                break
        else:
            raise MachineryError("no random model without near-degenerate bands on the paths")
        for nodes, labels, spec, nd, path, single in cases:
            for kb in ((1, 2, 3, 4) if thorough else rng.sample([1, 2, 3, 4], 2)):
                ib = rng.choice([None, [0, 2], [1]])
                tabs = U.tab_calculators(which)
                with quiet():
                    if rng.random() < 0.5:
                        res = wb.evaluate_k_path(system, path=path, tabulators=tabs, ibands=ib, parallel=False, k_batch=kb, fout_name=wd + "/r")
                    else:
                        tall = calc.TabulatorAll(tabs, ibands=ib, mode="path")
                        res = wb.run(system, grid=path, calculators={"tabulate": tall}, parallel=False, k_batch=kb, fout_name=wd + "/r").results["tabulate"]
                bands = list(range(3)) if ib is None else ib
                detail = dict(nodes=[list(x) if len(x) else None for x in nodes], node_denominator=nd, mode=spec["mode"], nk=list(spec["nk"]),
                              inv_dk=list(spec["inv"]), k_batch=kb, ibands=ib, npoints=len(path.K_list))
                rep.case(("tab_path", nodes, spec["mode"], spec["nk"], spec["inv"], nd, kb, repr(ib), isys))
                if res.kpoints.shape != path.K_list.shape or np.abs(res.kpoints - path.K_list).max() > 1e-12:
                    rep.violation("tabulate_path:kpoints", dict(detail, got=np.asarray(res.kpoints).tolist(), expected=path.K_list.tolist()))
                    continue
                for q in which:
                    got = res.get_data(quantity=q, iband=np.arange(len(bands)))
                    exp = np.array([s[q][bands] for s in single])
                    if got.shape != exp.shape:
                        rep.violation(f"tabulate_path:{q}:shape", dict(detail, got=got.shape, expected=exp.shape))
                        continue
                    dev = float(np.max(np.abs(got - exp)))
                    maxdev = max(maxdev, dev)
                    if dev > tol:
                        j = int(np.argmax(np.max(np.abs(got - exp).reshape(len(exp), -1), axis=1)))
                        rep.violation(f"tabulate_path:{q}", dict(detail, point_index=j, k=path.K_list[j].tolist(), maxdiff=dev, tolerance=tol))
                npts += len(path.K_list)
    shutil.rmtree(wd, ignore_errors=True)
    rep.assume(f"numeric part: models whose bands come closer than {GAP_MIN} eV on the path are replaced (per-band quantities are ill-conditioned there)")
    rep.part("numeric_only", what="run(Path)/evaluate_k_path (serial) vs evaluate_k at every path point: Energy, Berry curvature (internal terms), velocity",
             systems=nsys, path_points=npts, max_deviation=maxdev, tolerance=tol)
    if maxdev * 1e4 > tol:
        rep.part("numeric_only", warning="observed deviation is less than 10^4 below the tolerance")
