"""C27: Berry curvature obeys the sum rule and Chern quantisation.

spec  : SumRule.tla - exact transcription of the internal terms of formula/covariant.py:Omega over Hermitian Gaussian-integer
        velocity matrices and integer spectra, as rationals with a common denominator; MC_SumRule enumerates every input
        inside the constants (one state each): sum_n Omega_n = 0, block traces additive, antisymmetry, the sum rule over
        multiplets when two levels are made degenerate; two wrong variants must violate the sum rule.
bind  : the TLC states are replayed through the PUBLIC path: a k.p system SystemKP(Ham(k) = diag(E) + kx Vx + ky Vy, analytic
        derivatives) evaluated at k = 0 with wannierberri.evaluate_k (quantity berry_curvature_internal_terms, tabulate.BerryCurvature
        with band groups, static.AHC on a list of Fermi levels) and compared with the exact rationals; larger random integer
        inputs (also with exactly degenerate levels) are recorded from the same calls and validated by TLC (SumRuleRec.tla).
        Optional extra (skipped when the internals it needs are renamed): the block traces Formula_ln.trace over arbitrary
        band blocks through a duck-typed data_K.
num   : (numeric_only) evaluate_k sum over all bands of berry_curvature_internal_terms on random complex models, run()+AHC
        (with and without tetrahedra) with the Fermi level above all bands, Chern numbers of Haldane models (tbmodels and
        PythTB builders), of coupled Haldane bilayers and of random four-band models with two occupied bands against an
        independent link-variable (Fukui) computation on the closed-form / harness-side Bloch Hamiltonian.
"""
import os
import copy
import random

import numpy as np

from .. import tlc, ftable
from ..common import Report, MachineryError, seed, quiet, workdir
from ._fdutil import Scratch, Skipped, accepted_kwargs

PROPS = {
    "C27": dict(level="exploration",
                technique="TLC exhaustive on SumRule.tla (exact rational transcription of the internal Berry-curvature formula on Gaussian-integer matrices) + replay of TLC states on the real evaluate_k / BerryCurvature tabulator / AHC code through a k.p system carrying the same integer data + TLC validation of recorded evaluations (also degenerate spectra); numeric sum rule, AHC above all bands and Chern numbers",
                text="The specification decides exactly (rationals) the value of the internal Berry curvature of every band/block for all small Hermitian "
                     "Gaussian-integer velocity matrices and integer spectra and proves sum_n Omega_n = 0 and block additivity inside the constants; the real "
                     "code is executed on the same integer data through the public API (SystemKP with Ham = diag(E) + kx Vx + ky Vy at k = 0, "
                     "evaluate_k with the quantity berry_curvature_internal_terms, the BerryCurvature tabulator and the AHC calculator) and compared with "
                     "the exact value (1e-9 relative); spectra with exactly degenerate levels are recorded and validated by TLC per multiplet. For "
                     "Hamiltonian-derived input (random models, Haldane, bilayers) only implementation-vs-expected-number comparisons in floating point "
                     "are possible.",
                note="spec decides: the algebraic identity sum_n Omega_n = 0 (also over multiplets), additivity over band blocks, the Fermi-sea partial sums, the exact value for integer inputs. "
                     "implementation numerics (numeric_only, not carrying the level): evaluate_k / run() on random complex tight-binding models (tolerance 1e-8 x scale), "
                     "Chern number on a 40x40 (thorough 60x60) grid within 1e-4 of an integer (2e-2 for the four-band models) for Haldane models (parameters at least 0.25 away from the gap closing "
                     "|delta| = 3 sqrt(3) |t2 sin(phi)|, Fermi level in the middle of a global gap of at least 0.5), coupled Haldane bilayers and random four-band "
                     "models with two occupied bands; the integer is fixed by an independent plaquette (Fukui) computation on the closed-form Bloch Hamiltonian, "
                     "sign convention AHC*c/(e^2/h) = -C with C = (1/2 pi) int Omega_z. The traces over arbitrary band blocks (Formula_ln.trace) are an "
                     "optional extra through a duck-typed data_K, skipped when the internals change.",
                ref="DESIGN.md 5 (row C27), 2.3"),
}

TLC_WORKERS = int(os.environ.get("VERIF_TLC_WORKERS", "4"))
TOL_CHERN = dict(haldane=1e-4, bilayer=2e-2, random=2e-2, weak_bilayer=1e-4)   # >= 10^3 x the distance from an integer observed on the 40 x 40 grid


# ---------------------------------------------------------------- public path: a k.p system that carries the integer data
class KPHost:
    """one SystemKP per band number; Ham(k) = diag(E) + kx Vx + ky Vy with analytic derivatives, evaluated at k = 0 where
    E_n are the band energies and Vx, Vy the velocity matrices in the eigenbasis (up to phases, which Omega does not see)"""

    def __init__(self, nb):
        from wannierberri.system.system_kp import SystemKP
        self.nb = nb
        self.d = dict(E=np.arange(nb, dtype=float), Vx=np.zeros((nb, nb), complex), Vy=np.zeros((nb, nb), complex))
        z2 = np.zeros((nb, nb, 3, 3), complex)
        z3 = np.zeros((nb, nb, 3, 3, 3), complex)
        d = self.d
        with quiet():
            self.s = SystemKP(lambda k: np.diag(d["E"]).astype(complex) + k[0] * d["Vx"] + k[1] * d["Vy"],
                              derHam=lambda k: np.stack([d["Vx"], d["Vy"], np.zeros_like(d["Vx"])], axis=-1),
                              der2Ham=lambda k: z2, der3Ham=lambda k: z3, kmax=1.0, finite_diff_dk=0.25)
        self.vol = float(abs(np.linalg.det(self.s.real_lattice)))

    def evaluate(self, E, Vx, Vy, group_thresh=1.5, scans=()):
        """-> dict(band (nb,3) quantity, tab (nb,3) tabulator, grp (nb,3) tabulator with band groups, Ef, ahc (nEf,3) per unit cell)"""
        import wannierberri as wb
        from wannierberri.calculators import tabulate, static
        self.d["E"], self.d["Vx"], self.d["Vy"] = np.array(E, dtype=float), np.array(Vx, dtype=complex), np.array(Vy, dtype=complex)
        Ef = np.arange(-0.5, max(E) + 1.0, 1.0)
        kwf = dict(external_terms=False)
        kw = accepted_kwargs(static.StaticCalculator.__init__, constant_factor=1.0)
        ahc = static.AHC(Efermi=Ef, kwargs_formula=kwf, degen_thresh=0.25, **kw)
        fac = 1.0 if kw else float(getattr(ahc, "constant_factor"))
        cc = dict(tab=tabulate.BerryCurvature(kwargs_formula=kwf, degen_thresh=0.25),
                  grp=tabulate.BerryCurvature(kwargs_formula=kwf, degen_thresh=group_thresh), ahc=ahc)
        # Fermi scans that start INSIDE the bands: (lowest level, grouping code 0 none / 1 neighbours <= 1 apart / 2 Kramers pairs)
        for i, (lo, code) in enumerate(scans):
            cc[f"scan{i}"] = static.AHC(Efermi=np.arange(lo, max(E) + 2.0, 1.0), kwargs_formula=kwf, degen_thresh=1.5 if code == 1 else 0.25,
                                        degen_Kramers=(code == 2), **kw)
        with quiet():
            r = wb.evaluate_k(self.s, k=np.zeros(3), quantities=["berry_curvature_internal_terms"], calculators=cc, return_single_as_dict=True)
        return dict(band=np.array(r["berry_curvature_internal_terms"]), tab=np.array(r["tab"].data[0]), grp=np.array(r["grp"].data[0]),
                    Ef=Ef, ahc=np.array(r["ahc"].data) * self.vol / fac,
                    scans=[np.array(r[f"scan{i}"].data)[:, 2] * self.vol / fac for i in range(len(scans))])


def chain_groups(E, thresh):
    """the band groups of a tabulator: neighbouring bands closer than thresh belong together (0-based half-open)"""
    b = [0] + [i + 1 for i in range(len(E) - 1) if E[i + 1] - E[i] > thresh] + [len(E)]
    return list(zip(b, b[1:]))


def scan_groups(E, code):
    """band groups (0-based half-open) of a Fermi scan: 0 every band alone, 1 neighbours at most 1 apart, 2 Kramers pairs"""
    nb = len(E)
    if code == 2:
        b = [i for i in range(nb + 1) if i % 2 == 0 or i == nb]
    elif code == 1:
        b = [0] + [i + 1 for i in range(nb - 1) if E[i + 1] - E[i] > 1] + [nb]
    else:
        b = list(range(nb + 1))
    return list(zip(b, b[1:]))


def level_inside_group(E, level, code):
    """the level lies strictly between two neighbouring bands of one group (named predicate LevelInsideGroup of SumRule.tla)"""
    return any(any(E[n] < level < E[n + 1] for n in range(a, b - 1)) for a, b in scan_groups(E, code))


def scan_plan(E, idx):
    """the scans of one input: one start level inside the bands per grouping (E_j + 1/4), now and then one below all bands"""
    j = idx % len(E)
    return [((E[j] + 0.25) if (idx + c) % 5 else -0.75, c) for c in (0, 1, 2)]


def den_io(E, a, b):
    d = 1
    for n in range(a, b):
        for l in range(len(E)):
            if not a <= l < b:
                d *= (E[l] - E[n]) ** 2
    return d


# ---------------------------------------------------------------- optional extra: duck-typed data_K around the real formula code
class DuckK:
    """carries E_K and Xbar('Ham', 1); everything else is the real wannierberri code (internals: may stop working)"""
    force_internal_terms_only = False

    def __init__(self, E, Vx, Vy):
        nb = len(E)
        self.E_K = np.array([E], dtype=float)
        V = np.zeros((1, nb, nb, 3), dtype=complex)
        V[0, :, :, 0] = Vx
        V[0, :, :, 1] = Vy
        self._V = V
        self.nk = 1
        self.num_wann = nb
        self.cell_volume = 1.0

    def Xbar(self, name, der=0):
        if name != "Ham" or der != 1:
            raise AttributeError(f"duck data_K asked for Xbar({name},{der})")
        return self._V

    @property
    def dEig_inv(self):
        from wannierberri.data_K.data_K import Data_K
        return Data_K.dEig_inv.func(self)

    @property
    def D_H(self):
        from wannierberri.data_K.data_K import Data_K
        return Data_K.D_H.func(self)

    @property
    def Dcov(self):
        from wannierberri.data_K.data_K import Data_K
        return Data_K.Dcov.func(self)


def cmat(M):
    return np.array([[complex(x[0], x[1]) for x in row] for row in M])


def duck_blocks(E, Vx, Vy, blocks):
    """{block: trace (3,)} through Formula_ln.trace of the real Omega on the duck"""
    from wannierberri.formula.covariant import Omega
    d = DuckK(E, cmat(Vx), cmat(Vy))
    f = Omega(d, external_terms=False)
    allb = np.arange(len(E))
    return {(a, b): np.array(f.trace(0, np.arange(a, b), np.setdiff1d(allb, np.arange(a, b)))) for a, b in blocks}


def occupied(E, ef):
    return sum(1 for e in E if e < ef)


def cfg_text(nbs, emax, offd, variant, invs, diag="{0}"):
    return ("SPECIFICATION Spec\nCONSTANTS\n" + f"  NBS = {{{', '.join(str(x) for x in nbs)}}}\n  EMAX = {emax}\n  OFFD <- {offd}\n  DIAG = {diag}\n"
            f"  Variant = \"{variant}\"\n" + "".join(f"INVARIANT {i}\n" for i in invs) + "CHECK_DEADLOCK FALSE\n")


def check(pid, tier):
    rep = Report(pid, tier, "exploration")
    scratch = Scratch(pid)
    try:
        return _check(rep, tier, scratch)
    except Exception:
        if rep.violations:
            rep.finish()
        raise
    finally:
        scratch.cleanup()


def _check(rep, tier, scratch):
    thorough = tier == "thorough"
    rng = random.Random(seed() * 104729 + 27)
    skipped = Skipped()
    rep.rule("TLC enumerates every (spectrum, Vx, Vy) inside the constants; a case = one TLC state replayed on the real evaluate_k / "
             "BerryCurvature tabulator / AHC code through a k.p system carrying the same integer data (exact rational expectation), or one seeded "
             "random recorded evaluation validated by TLC, or (numeric_only) one model/k-point/parameter set; distinct by input")
    rep.assume("velocity matrices are Gaussian integers, spectra integers (distinct, or with exactly degenerate multiplets in the recorded "
               "evaluations), Fermi levels half-integers (never on a band energy)")
    rep.assume("numeric part: k-points with a band gap below 1e-3 (run(): models with a gap below 0.02 on the grid), Haldane parameters closer than 0.25 to the gap closing, and parameter sets without a global gap of 0.5 (bands overlapping in energy) are excluded (NonDegenerateK, AwayFromTransition, GlobalGap); the Fermi level is put in the middle of the global gap")
    wd = workdir(scratch.name("c27"))

    # ------------------------------------------------------------ spec
    nbs, emax, offd = ((2, 3), 4, "OFFD_4") if thorough else ((2, 3), 3, "OFFD_3")
    invs = ("TypeOK", "SumRuleZero", "Additive", "Antisym", "DegenSumRule", "ScanZero")
    st = tlc.run_tlc("MC_SumRule.tla", cfg_text(nbs, emax, offd, "code", invs), scratch.name("c27_sumrule"), workers=TLC_WORKERS, dump=True,
                     coverage=False, timeout=1500)
    if st.get("timeout"):
        raise MachineryError("TLC timed out on c27_sumrule")
    if st.get("error") and not st.get("violation"):
        raise MachineryError(f"TLC error on c27_sumrule: {st['error'][:600]}")
    ftable.spec_violation(rep, st, "c27_sumrule")
    rep.add_tlc("c27_sumrule", st)
    # band velocities (diagonal of V) do not enter: two-band models with arbitrary diagonals
    sd = tlc.run_tlc("MC_SumRule.tla", cfg_text((2,), 3, "OFFD_4", "code", invs, diag="{0, 1}"), scratch.name("c27_sumrule_diag"), workers=TLC_WORKERS,
                     timeout=900)
    tlc.require_ok(sd, "c27_sumrule_diag")
    ftable.spec_violation(rep, sd, "c27_sumrule_diag")
    rep.add_tlc("c27_sumrule_diag", sd)
    # sensitivity: formulas that do not obey the sum rule must be rejected by TLC
    for variant in ("weighted", "oddden"):
        sv = tlc.run_tlc("MC_SumRule.tla", cfg_text((2, 3), 2, "OFFD_3", variant, ("SumRuleZero",)), scratch.name(f"c27_{variant}"), workers=TLC_WORKERS,
                         timeout=900)
        if not sv.get("violation") or sv["violation"][1] != "SumRuleZero":
            raise MachineryError(f"sensitivity self-test failed: variant {variant} should violate SumRuleZero ({sv.get('error')})")
        rep.part(f"c27_sensitivity_{variant}", violated=sv["violation"][1])

    # the two wrong book-keepings of a Fermi scan that starts inside the bands must both be rejected (one run, -continue)
    sv = tlc.run_tlc("MC_SumRule.tla", cfg_text((2, 3), 2, "OFFD_3", "code", ("ScanZeroNOCLAMP", "ScanZeroKRAMERSDROP")), scratch.name("c27_scan_wrong"),
                     workers=TLC_WORKERS, timeout=900, extra=["-continue"], coverage=False)
    for nm in ("ScanZeroNOCLAMP", "ScanZeroKRAMERSDROP"):
        if f"Invariant {nm} is violated" not in sv.get("output", ""):
            raise MachineryError(f"sensitivity self-test failed: {nm} should be violated ({sv.get('error')})")
    rep.part("c27_sensitivity_scan", violated=["ScanZeroNOCLAMP", "ScanZeroKRAMERSDROP"])

    # ------------------------------------------------------------ spec -> code (public path)
    states = list(ftable.dump_states(st))
    if len(states) != st["distinct"] and not st.get("violation"):
        raise MachineryError(f"dump has {len(states)} states, TLC reported {st['distinct']}")
    # the order of the dump depends on the scheduling of the TLC workers: fix it before anything is drawn
    states.sort(key=lambda s: (len(s["E"]), tuple(s["E"]), repr(s["Vx"]), repr(s["Vy"])))
    nonzero = sum(1 for s in states if any(s["om"]))
    if nonzero < 10:
        raise MachineryError("vacuous: (almost) no state with non-zero Berry curvature")
    rep.part("c27_sumrule", states_with_nonzero_curvature=nonzero)
    nrep = len(states) if thorough else 1500
    if len(states) <= nrep:
        sel = states
    else:
        pop = [s for s in states if len(s["E"]) > 2 and any(s["om"])]
        sel = [s for s in states if len(s["E"]) == 2] + rng.sample(pop, min(nrep, len(pop)))
    hosts = {}

    def host(nb):
        if nb not in hosts:
            hosts[nb] = KPHost(nb)
        return hosts[nb]

    tol = 1e-9
    maxdev = 0.0
    duck = dict(ok=0, on=True)
    scan_classes = dict(lowest_level_inside_group=0, lowest_level_between_groups=0, lowest_level_below_all_bands=0)

    def check_scans(E, om, den, plan, got, inp, count=True):
        """AHC on a scan of Fermi levels that starts at plan[i][0]: 0 above all bands; the exact partial sum at every level that is
        not inside a band group (inside a group the value depends on where the group is put: LevelInsideGroup, not compared)"""
        out = []
        for (lo, code), vals in zip(plan, got):
            levels = [lo + i for i in range(len(vals))]
            if count:
                cls = ("lowest_level_below_all_bands" if lo < min(E) else
                       "lowest_level_inside_group" if level_inside_group(E, lo, code) else "lowest_level_between_groups")
                scan_classes[cls] += 1
            det = dict(inp, scan_lowest_level=lo, grouping=["none", "degen_thresh=1.5", "degen_Kramers"][code], levels=levels, got=[float(v) for v in vals])
            if levels[-1] <= max(E):
                raise MachineryError(f"scan does not end above all bands: {levels} {E}")
            if abs(vals[-1]) * den > tol:
                rep.violation("static.AHC:scan:above_all_bands", dict(det, what="the Fermi scan starts inside the bands; above all bands the internal AHC must vanish"))
            for lv, v in zip(levels, vals):
                if level_inside_group(E, lv, code):
                    continue
                exp = sum(om[:occupied(E, lv)])
                if abs(v * den - exp) > tol * max(1, abs(exp)):
                    rep.violation("static.AHC:scan:sea", dict(det, level=lv, expected_num=exp, got_value=float(v)))
                    break
            out.append([int(round(4 * lo)), code, [v for v in vals]])
        return out

    for istate, s in enumerate(sel):
        E, Vx, Vy, om, den = list(s["E"]), s["Vx"], s["Vy"], list(s["om"]), s["den"]
        nb = len(E)
        key = ("replay", tuple(E), repr(Vx), repr(Vy))
        rep.case(key, nontrivial=any(om))
        inp = dict(E=E, Vx=[[list(x) for x in r] for r in Vx], Vy=[[list(x) for x in r] for r in Vy], den=den,
                   how="SystemKP(Ham = diag(E) + kx Vx + ky Vy, analytic derivatives), evaluate_k at k = 0")
        try:
            plan = scan_plan(E, istate)
            r = host(nb).evaluate(E, cmat(Vx), cmat(Vy), scans=plan)
        except Exception as ex:  # noqa
            if isinstance(ex, (MachineryError, OSError, ImportError)):
                raise
            rep.violation("raises:evaluate_k:" + type(ex).__name__, dict(inp, error=repr(ex)[:300]))
            continue
        band, tab, grp, Ef, ahc = r["band"], r["tab"], r["grp"], r["Ef"], r["ahc"]
        check_scans(E, om, den, plan, r["scans"], inp)
        if np.abs(band[:, :2]).max() != 0:
            rep.violation("Omega:xy_components_nonzero", dict(inp, got=band.tolist()))
        for n in range(nb):
            dev = abs(band[n, 2] * den - om[n])
            maxdev = max(maxdev, dev / max(1, abs(om[n])))
            if dev > tol * max(1, abs(om[n])):
                rep.violation("evaluate_k:berry_curvature_internal_terms:band", dict(inp, band=n, expected_num=om[n], got=float(band[n, 2])))
            if abs(tab[n, 2] * den - om[n]) > tol * max(1, abs(om[n])):
                rep.violation("tabulate.BerryCurvature", dict(inp, band=n, expected_num=om[n], got=float(tab[n, 2])))
        if abs(band[:, 2].sum()) * den > tol * max(1, max(abs(x) for x in om)):
            rep.violation("Omega:sum_rule", dict(inp, got=band[:, 2].tolist()))
        for a, b in chain_groups(E, 1.5):
            exp = sum(om[a:b])
            for n in range(a, b):
                if abs(grp[n, 2] * den * (b - a) - exp) > tol * max(1, abs(exp)):
                    rep.violation("tabulate.BerryCurvature:band_group", dict(inp, block=[a, b], expected_num=exp, got=float(grp[n, 2]) * (b - a)))
                    break
        for ie, ef in enumerate(Ef):
            j = occupied(E, ef)
            exp = sum(om[:j])
            if abs(ahc[ie, 2] * den - exp) > tol * max(1, abs(exp)):
                rep.violation("static.AHC:sea", dict(inp, Ef=float(ef), occupied=j, expected_num=exp, got=float(ahc[ie, 2])))
        if abs(ahc[-1, 2]) * den > tol:
            rep.violation("static.AHC:above_all_bands", dict(inp, got=float(ahc[-1, 2])))
        # optional extra: traces over arbitrary band blocks with the real Omega on a duck-typed data_K
        if duck["on"]:
            blocks = [(a, b) for a in range(nb) for b in range(a + 1, nb + 1)]
            try:
                blk = duck_blocks(E, Vx, Vy, blocks)
            except (AttributeError, TypeError) as ex:
                skipped.add("duck_data_K_block_traces", ex)
                duck["on"] = False
                blk = {}
            for (a, b), v in blk.items():
                exp = sum(om[a:b]) if (b - a) < nb else 0
                if abs(v[2] * den - exp) > tol * max(1, abs(exp)):
                    rep.violation("Omega.trace:block", dict(inp, block=[a, b], expected_num=exp, got=float(v[2]), how="Formula_ln.trace on a duck-typed data_K"))
            duck["ok"] += bool(blk)
        rep.sample(dict(fn="evaluate_k(SystemKP)", E=E, Vx=inp["Vx"], Vy=inp["Vy"], den=den, expected_num=om, got=band[:, 2].tolist()))
    if not rep.violations and not all(scan_classes.values()):
        raise MachineryError(f"a class of Fermi scans is empty: {scan_classes}")
    rep.part("replay", states_replayed=len(sel), max_relative_deviation=maxdev, tolerance=tol, block_traces_through_duck_data_K=duck["ok"],
             fermi_scans=scan_classes)

    # ------------------------------------------------------------ code -> spec
    recs = []
    nrec = 1500 if thorough else 300
    ndeg = 200 if thorough else 60

    def herm(nb):
        M = [[[0, 0] for _ in range(nb)] for _ in range(nb)]
        for m in range(nb):
            M[m][m] = [rng.randint(-2, 2), 0]
            for n in range(m + 1, nb):
                z = [rng.randint(-2, 2), rng.randint(-2, 2)]
                M[m][n] = z
                M[n][m] = [z[0], -z[1]]
        return M

    def to_int(x, scale, what, ctx):
        v = x * scale
        if abs(v - round(v)) > 1e-6:
            rep.violation("Omega:nonintegral_projection", dict(ctx, scale=scale, what=what, value=float(x)))
            return None
        return int(round(v))

    for irec in range(nrec):
        nb = rng.choice([3, 4, 4])
        E = sorted(rng.sample(range(0, 6), nb))
        Vx, Vy = herm(nb), herm(nb)
        den = 1
        for m in range(nb):
            for l in range(m):
                den *= (E[m] - E[l]) ** 2
        ctx = dict(E=E, Vx=Vx, Vy=Vy, den=den)
        plan = scan_plan(E, irec)
        try:
            r = host(nb).evaluate(E, cmat(Vx), cmat(Vy), scans=plan)
        except Exception as ex:  # noqa
            if isinstance(ex, (MachineryError, OSError, ImportError)):
                raise
            rep.violation("raises:evaluate_k:" + type(ex).__name__, dict(ctx, error=repr(ex)[:300]))
            continue
        om = [to_int(r["band"][n, 2], den, f"band {n}", ctx) for n in range(nb)]
        grp = [[a, b, to_int(r["grp"][a, 2] * (b - a), den, f"band group {a}:{b}", ctx)] for a, b in chain_groups(E, 1.5)]
        sea_by_occ = {}
        for ie, ef in enumerate(r["Ef"]):
            sea_by_occ[occupied(E, ef)] = to_int(r["ahc"][ie, 2], den, f"sea Ef={ef}", ctx)
        scans = [[int(round(4 * lo)), code, [to_int(v, den, f"scan from {lo} grouping {code}", ctx) for v in vals]]
                 for (lo, code), vals in zip(plan, r["scans"])]
        if None in om or any(g[2] is None for g in grp) or None in sea_by_occ.values() or sorted(sea_by_occ) != list(range(nb + 1)) \
                or any(None in sc[2] for sc in scans):
            continue
        recs.append(dict(E=E, Vx=Vx, Vy=Vy, den=den, om=om, grp=grp, sea=[sea_by_occ[j] for j in range(nb + 1)], scans=scans))
        rep.case(("rec", tuple(E), repr(Vx), repr(Vy)), nontrivial=any(om))
    nnondeg = len(recs)
    # spectra with exactly degenerate levels: only traces over whole multiplets are defined
    DEG = [(0, 0, 1), (0, 1, 1), (0, 0, 2), (0, 2, 2), (0, 0, 0, 1), (0, 0, 1, 1), (0, 0, 1, 2), (0, 1, 1, 2), (0, 1, 2, 2), (0, 0, 2, 2), (1, 1, 2)]
    ndegrec = 0
    nz_deg = 0
    for i in range(ndeg):
        E = list(DEG[i % len(DEG)])
        nb = len(E)
        Vx, Vy = herm(nb), herm(nb)
        ctx = dict(E=E, Vx=Vx, Vy=Vy)
        try:
            r = host(nb).evaluate(E, cmat(Vx), cmat(Vy), group_thresh=0.25)
        except Exception as ex:  # noqa
            if isinstance(ex, (MachineryError, OSError, ImportError)):
                raise
            rep.violation("raises:evaluate_k:" + type(ex).__name__, dict(ctx, error=repr(ex)[:300]))
            continue
        rep.case(("rec_degenerate", tuple(E), repr(Vx), repr(Vy)))
        mult = []
        for a, b in chain_groups(E, 0.25):
            for name in ("tab", "band"):
                # the default degen_thresh of the quantity (1e-4) and 0.25 give the same multiplets for integer spectra
                vals = r[name][a:b, 2]
                if np.abs(vals - vals[0]).max() > 1e-9 * max(1.0, abs(vals[0])):
                    rep.violation("tabulate.BerryCurvature:multiplet_members_differ", dict(ctx, block=[a, b], got=vals.tolist(), source=name))
            mult.append([a, b, to_int(r["tab"][a, 2] * (b - a), den_io(E, a, b), f"multiplet {a}:{b}", ctx)])
        msea = []
        for ie, ef in enumerate(r["Ef"]):
            b = occupied(E, ef)
            msea.append([b, to_int(r["ahc"][ie, 2], den_io(E, 0, b), f"sea Ef={ef}", ctx)])
        if any(m[2] is None for m in mult) or any(m[1] is None for m in msea):
            continue
        recs.append(dict(E=E, Vx=Vx, Vy=Vy, mult=mult, msea=msea))
        ndegrec += 1
        nz_deg += any(m[2] for m in mult)
    if not rep.violations and (nnondeg < nrec // 2 or ndegrec < ndeg // 2 or not nz_deg):
        raise MachineryError(f"too few records ({nnondeg} non-degenerate, {ndegrec} degenerate, {nz_deg} degenerate with non-zero curvature)")
    if recs:
        stv, bad = ftable.validate_records("SumRuleRec.tla", ftable.REC_CFG, recs, scratch.name("c27"))
        rep.add_tlc("c27_records", stv)
        rep.add_traces(len(recs))
        for i, clauses in sorted(bad.items()):
            rep.violation("Omega:recorded:" + clauses[0], dict(record=recs[i], failing_clauses=clauses))
        rep.part("records", n=len(recs), non_degenerate=nnondeg, degenerate=ndegrec, degenerate_with_nonzero_curvature=nz_deg)
        rep.sample(recs[0])
        badrec = copy.deepcopy([r for r in recs if "om" in r and any(r["om"])][:1])
        baddeg = copy.deepcopy([r for r in recs if "mult" in r and any(m[2] for m in r["mult"])][:1])
        if badrec and baddeg:
            k = [j for j, v in enumerate(badrec[0]["om"]) if v][0]
            badrec[0]["om"][k] += 1
            k = [j for j, m in enumerate(baddeg[0]["mult"]) if m[2]][0]
            baddeg[0]["mult"][k][2] += 1
            _, b2 = ftable.validate_records("SumRuleRec.tla", ftable.REC_CFG, badrec + baddeg, scratch.name("c27_selftest"))
            if 0 not in b2 or "band_equals_spec" not in b2[0] or "sum_rule" not in b2[0]:
                raise MachineryError(f"binding self-test failed: corrupted record accepted ({b2})")
            if 1 not in b2 or "multiplet_equals_spec" not in b2[1] or "multiplet_sum_rule" not in b2[1]:
                raise MachineryError(f"binding self-test failed: corrupted degenerate record accepted ({b2})")
            rep.part("binding_selftest", corrupted_record_rejected=b2[0], corrupted_degenerate_record_rejected=b2[1])
        elif not rep.violations:
            raise MachineryError("no record with non-zero curvature")

    # ------------------------------------------------------------ numeric_only
    try:
        numeric(rep, rng, thorough, wd)
    finally:
        import shutil
        shutil.rmtree(wd, ignore_errors=True)
    skipped.report(rep)
    return rep.finish()


# -------------------------------------------------------------------------------------------------- numeric part
def haldane_expected(delta, hop2, phi):
    """|C| of the lower band from the phase diagram; None if closer than 0.25 to the transition"""
    bound = 3 * np.sqrt(3) * abs(hop2 * np.sin(phi))
    if abs(abs(delta) - bound) < 0.25:
        return None
    return 0 if abs(delta) > bound else 1   # magnitude only; the sign is fixed by the plaquette computation


def fukui(Hk, N, nocc=1):
    """(1/2 pi) int Omega_z over the nocc lowest bands by the plaquette method on the N x N mesh of the Bloch Hamiltonian
    Hk(k reduced); Omega = curl A, A = i<u|du>: the plaquette phase arg prod <u|u'> equals MINUS the flux of Omega.
    Returns (C, top of the occupied bands, bottom of the empty bands)"""
    U = None
    vmax, cmin = -np.inf, np.inf
    for i in range(N):
        for j in range(N):
            H = np.array(Hk(np.array([i / N, j / N, 0.0])))
            H = (H + H.conj().T) / 2
            ev, vec = np.linalg.eigh(H)
            if U is None:
                U = np.zeros((N, N, H.shape[0], nocc), complex)
            U[i, j] = vec[:, :nocc]
            vmax, cmin = max(vmax, ev[nocc - 1]), min(cmin, ev[nocc])

    def link(a, b):
        return np.linalg.det(a.conj().T @ b)
    F = 0.0
    for i in range(N):
        for j in range(N):
            u00, u10, u11, u01 = U[i, j], U[(i + 1) % N, j], U[(i + 1) % N, (j + 1) % N], U[i, (j + 1) % N]
            F += np.angle(link(u00, u10) * link(u10, u11) * link(u11, u01) * link(u01, u00))
    return -F / (2 * np.pi), float(vmax), float(cmin)


def ahc_run(system, Ef, NK, fft, wd, name, tetra=False, variants=None):
    """variants: {name: keyword arguments of static.AHC} evaluated in the same run (degen_thresh, degen_Kramers, tetra)"""
    import wannierberri as wb
    from wannierberri import calculators as calc
    kwf = {"external_terms": False}
    cc = {"ahc": calc.static.AHC(Efermi=np.array(Ef, dtype=float), kwargs_formula=kwf)}
    if tetra:
        cc["ahc_tetra"] = calc.static.AHC(Efermi=np.array(Ef, dtype=float), kwargs_formula=kwf, tetra=True)
    for nm, kw in (variants or {}).items():
        cc[nm] = calc.static.AHC(Efermi=np.array(Ef, dtype=float), kwargs_formula=kwf, **kw)
    with quiet():
        grid = wb.Grid(system, NK=NK, NKFFT=fft)
        res = wb.run(system, grid, cc, parallel=False, adpt_num_iter=0, use_irred_kpt=False, symmetrize=False, fout_name=f"{wd}/{name}")
    return {k: np.array(v.data) for k, v in res.results.items()}, float(abs(getattr(cc["ahc"], "constant_factor", 0.0)))


def guarded(rep, site, detail, fn, *a, **kw):
    """a public call of the package: an exception is a violation and the check goes on with the next input"""
    try:
        return True, fn(*a, **kw)
    except Exception as ex:  # noqa
        if isinstance(ex, (MachineryError, OSError, ImportError)):
            raise
        import traceback
        rep.violation(f"raises:{site}:{type(ex).__name__}", dict(detail, error=repr(ex)[:300], traceback=traceback.format_exc()[-1200:]))
        return False, None


def numeric(rep, rng, thorough, wd):
    import warnings
    import wannierberri as wb
    from wannierberri import models
    from scipy.constants import elementary_charge, angstrom, h
    from . import kmodels as km
    tol = 1e-8
    # (a) sum over all bands at random k
    nmod = 40 if thorough else 10
    worst = 0.0
    ncase = 0
    for im in range(nmod):
        nw = rng.choice([2, 3, 4, 5])
        dim = rng.choice([2, 3])
        m = km.build(rng.randrange(1 << 30), nw=nw, dim=dim, rmax=1, keys=("Ham",), centres="random")
        ok, s = guarded(rep, "System_R.from_sparse", dict(model=m.describe()), m.system)
        if not ok:
            continue
        r = np.random.RandomState(rng.randrange(1 << 30))
        for _ in range(6):
            k = km.generic_k(r, dim=dim)
            if km.min_gap(m, k) < 1e-3:   # NonDegenerateK
                continue

            def ev():
                with quiet(), warnings.catch_warnings():
                    warnings.simplefilter("ignore")
                    return np.array(wb.evaluate_k(s, k=k, quantities=["berry_curvature_internal_terms"]))
            ok, oc = guarded(rep, "evaluate_k", dict(model=m.dump(), k=k.tolist()), ev)
            if not ok:
                continue
            scale = max(1.0, float(np.abs(oc).max()))
            dev = float(np.abs(oc.sum(axis=0)).max())
            worst = max(worst, dev / scale)
            ncase += 1
            rep.case(("sumrule_k", m.meta["seed"], tuple(k)), nontrivial=np.abs(oc).max() > 1e-6)
            if dev > tol * scale:
                rep.violation("evaluate_k:berry_curvature_internal_terms:sum_rule", dict(model=m.dump(), k=k.tolist(), per_band=oc.tolist(), sum=oc.sum(axis=0).tolist()))
    if ncase < nmod and not rep.violations:
        raise MachineryError("too few non-degenerate k-points")
    rep.part("numeric_only", sum_rule_cases=ncase, sum_rule_max_rel_dev=worst, tolerance=tol)

    # (b) AHC with the Fermi level above all bands (and a non-zero value inside the spectrum), with and without tetrahedra
    nrun = 6 if thorough else 2
    worst = 0.0
    done = 0
    tries = 0
    while done < nrun and tries < 10 * nrun:
        tries += 1
        nw = 3 if done == 0 else rng.choice([2, 3])     # an odd number of bands at least once (degen_Kramers groups: the last band is alone)
        m = km.build(rng.randrange(1 << 30), nw=nw, dim=3, rmax=1, keys=("Ham",), centres="random")
        kgrid = [np.array([i, j, l]) / 4.0 for i in range(4) for j in range(4) for l in range(4)]
        if min(km.min_gap(m, k) for k in kgrid) < 0.02:      # NonDegenerateK on the k-points of the run
            continue
        Es = np.concatenate([np.linalg.eigvalsh(m.Hk(k)) for k in kgrid])
        bw = float(np.abs(Es).max()) + 20.0   # safely above sum of all |hoppings|
        mid = float(np.median(Es))
        det = dict(model=m.dump(), Efermi=[mid, bw, bw + 1.0])
        ok, s = guarded(rep, "System_R.from_sparse", det, m.system)
        if not ok:
            done += 1
            continue
        ok, out = guarded(rep, "run:AHC", det, ahc_run, s, [mid, bw, bw + 1.0], [4, 4, 4], [2, 2, 2], wd, f"ahc{done}", tetra=True,
                          variants=dict(ahc_kramers=dict(degen_Kramers=True), ahc_thresh=dict(degen_thresh=0.05),
                                        ahc_thresh_tetra=dict(degen_thresh=0.05, tetra=True)))
        done += 1
        if not ok:
            continue
        res, fac = out
        data = res["ahc"]
        vol = float(abs(np.linalg.det(m.lattice)))
        scale = max(1.0, float(np.abs(data[0]).max()), fac / vol * 1e-3)
        rep.case(("ahc_above", m.meta["seed"]), nontrivial=np.abs(data[0]).max() > 1e-6 * scale)
        if np.abs(data[0]).max() < 1e-9:
            raise MachineryError("vacuous: AHC inside the spectrum vanishes for a random complex model")
        for nm, dd in res.items():
            dev = float(np.abs(dd[1:]).max())
            worst = max(worst, dev / scale)
            if dev > tol * scale:
                rep.violation(f"run:AHC:Ef_above_all_bands{'' if nm == 'ahc' else ':' + nm[4:]}", dict(det, ahc=dd.tolist(), calculator=nm))
    rep.part("numeric_only", ahc_above_runs=done, ahc_above_max_rel_dev=worst,
             ahc_above_calculators=["AHC", "AHC(tetra=True)", "AHC(degen_Kramers=True)", "AHC(degen_thresh=0.05)", "AHC(degen_thresh=0.05, tetra=True)"],
             note_ahc_above="the lowest Fermi level of these scans is the median band energy, i.e. inside the bands")

    # (c) Chern numbers
    quantum = elementary_charge ** 2 / h
    N = 60 if thorough else 40
    worst = dict(haldane=0.0, bilayer=0.0, random=0.0)
    seen = dict(haldane=set(), bilayer=set(), random=set())
    counts = dict(haldane=0, bilayer=0, random=0, skipped_no_global_gap=0)

    def chern_case(kind, name, build_system, Hk, nocc, det, expmag=None):
        cf, vmax, cmin = fukui(Hk, 24, nocc)
        if cmin - vmax < 0.5:   # GlobalGap: the Fermi level must lie in a global gap
            counts["skipped_no_global_gap"] += 1
            return
        if abs(cf - round(cf)) > 1e-6 or (expmag is not None and abs(round(cf)) != expmag):
            raise MachineryError(f"plaquette oracle is not an integer / disagrees with the Haldane phase diagram: {cf} {det}")
        ok, s = guarded(rep, name, det, build_system)
        if not ok:
            return
        c = float(s.real_lattice[2, 2])
        ef = 0.5 * (vmax + cmin)
        ok, out = guarded(rep, "run:AHC", dict(det, Efermi=ef), ahc_run, s, [ef, 100.0], [N, N, 1], [N // 4, N // 4, 1], wd, "chern")
        if not ok:
            return
        data = out[0]["ahc"]
        cz = data[0, 2] * c * angstrom / quantum    # = -C
        cfull = data[1, 2] * c * angstrom / quantum
        counts[kind] += 1
        seen[kind].add(int(round(cf)))
        rep.case(("chern", kind, name, repr(sorted(det.items()))[:200]), nontrivial=round(cf) != 0)
        det = dict(det, grid=N, Efermi=ef, occupied_bands=nocc, global_gap=cmin - vmax, ahc_c_over_e2h=float(cz), plaquette_C=float(cf),
                   xy_components=data[0, :2].tolist())
        worst[kind] = max(worst[kind], float(abs(cz - round(cz))))
        if abs(cz - round(cz)) > TOL_CHERN[kind]:
            rep.violation("AHC:Chern:not_integer", det)
        elif round(cz) != -round(cf):
            rep.violation("AHC:Chern:wrong_phase" if abs(round(cz)) != abs(round(cf)) else "AHC:Chern:sign", det)
        if abs(cfull) > 1e-6:
            rep.violation("AHC:Chern:filled_bands_nonzero", dict(det, ahc_all_bands=float(cfull)))
        if np.abs(data[0, :2]).max() > 1e-8:
            rep.violation("AHC:Chern:inplane_components", det)
        rep.sample(dict(fn="AHC/" + kind, **det))

    grid_params = [(0.2, 0.15, np.pi / 2), (0.2, 0.15, -np.pi / 2), (1.2, 0.15, np.pi / 2), (-0.2, 0.2, 2.0), (0.2, 0.25, -1.0), (-1.5, 0.15, 0.7)]
    if thorough:
        grid_params += [(d, t2, ph) for d in (0.0, 0.3, -0.3, 1.5) for t2 in (0.15, 0.3) for ph in (np.pi / 2, -np.pi / 3, 2.5)]
    for delta, t2, phi in grid_params:
        expmag = haldane_expected(delta, t2, phi)
        if expmag is None:   # AwayFromTransition
            continue
        Hk = km.haldane_hk(delta, -1.0, t2, phi)
        for bname, bld in (("System_R.from_tbmodels", lambda: _quiet(lambda: wb.system.System_R.from_tbmodels(models.Haldane_tbm(delta=delta, hop1=-1.0, hop2=t2, phi=phi)))),
                           ("System_R.from_pythtb", lambda: _quiet(lambda: wb.system.System_R.from_pythtb(models.Haldane_ptb(delta=delta, hop1=-1.0, hop2=t2, phi=phi))))):
            chern_case("haldane", bname, bld, Hk, 1, dict(builder=bname, delta=delta, hop2=t2, phi=phi), expmag=expmag)
    # coupled Haldane bilayers: four bands, two occupied, C in {-2, ..., 2}
    layer = [(0.2, 0.15, np.pi / 2), (0.2, 0.15, -np.pi / 2), (1.2, 0.15, np.pi / 2), (-0.2, 0.2, 2.0)]
    pairs = [(0, 0), (0, 1), (0, 2), (1, 1)] + ([(1, 3), (2, 3), (3, 3), (0, 3)] if thorough else [])
    for a, b in pairs:
        m = km.haldane_bilayer(rng.randrange(1 << 30), layer[a], layer[b], coupling=0.125)
        chern_case("bilayer", "System_R.from_sparse", lambda: m.system(periodic=(True, True, False)), m.Hk, 2, dict(model=m.describe()))
    # weakly coupled identical layers: the two valence bands are closer than degen_thresh = 0.05 and the Fermi scan starts just below the
    # valence-band top, INSIDE that near-degenerate pair at some k-points of the run (class lowest_level_inside_group)
    weak = dict(done=0, straddling_kpoints=0, worst_in_gap=0.0, worst_above=0.0)
    for ilay in ((0, 1) if thorough else (0,)):
        ks = [np.array([i / N, j / N, 0.0]) for i in range(N) for j in range(N)]
        for _draw in range(64):   # SuitableWeakBilayer: a named input-class predicate, evaluated on the model Hamiltonian only
            m = km.haldane_bilayer(rng.randrange(1 << 30), layer[ilay], layer[ilay], coupling=0.015625)
            Es = np.array([np.linalg.eigvalsh(m.Hk(k)) for k in ks])
            itop = int(np.argmax(Es[:, 1]))
            split = float(Es[itop, 1] - Es[itop, 0])
            vtop, cbot, emax = float(Es[:, 1].max()), float(Es[:, 2].min()), float(Es.max())
            ef0_ = vtop - split / 2
            nstr_ = int(np.sum((Es[:, 0] < ef0_) & (Es[:, 1] >= ef0_) & (Es[:, 1] - Es[:, 0] <= 0.05)))
            if 1e-3 < split < 0.05 and cbot - vtop >= 0.5 and nstr_ > 0:
                break
        else:
            raise MachineryError(f"weak bilayer: none of 64 seeded couplings is suitable (last: splitting {split}, gap {cbot - vtop})")
        ef0 = vtop - split / 2
        step = 0.5 * (vtop + cbot) - ef0
        nlev = int(np.ceil((emax - ef0) / step)) + 3
        Ef = ef0 + step * np.arange(nlev)          # Ef[1] = mid-gap, Ef[-1], Ef[-2] above all bands
        nstr = int(np.sum((Es[:, 0] < ef0) & (Es[:, 1] >= ef0) & (Es[:, 1] - Es[:, 0] <= 0.05)))
        if nstr == 0 or Ef[-2] <= emax:
            raise MachineryError(f"weak bilayer: no k-point where the lowest level lies inside the near-degenerate pair ({nstr}) / scan too short")
        cf, _, _ = fukui(m.Hk, 24, 2)
        det = dict(model=m.describe(), Efermi_first=ef0, Efermi_step=step, levels=nlev, kpoints_with_lowest_level_inside_group=nstr, plaquette_C=float(cf))
        ok, s = guarded(rep, "System_R.from_sparse", det, lambda: m.system(periodic=(True, True, False)))
        if not ok:
            continue
        ok, out = guarded(rep, "run:AHC", det, ahc_run, s, Ef, [N, N, 1], [N // 4, N // 4, 1], wd, "weak",
                          variants=dict(ahc_thresh=dict(degen_thresh=0.05), ahc_thresh_tetra=dict(degen_thresh=0.05, tetra=True), ahc_tetra=dict(tetra=True)))
        if not ok:
            continue
        c = float(s.real_lattice[2, 2])
        weak["done"] += 1
        weak["straddling_kpoints"] += nstr
        rep.case(("chern_weak_bilayer", ilay), nontrivial=round(cf) != 0)
        for nm, dd in out[0].items():
            cz = dd[1, 2] * c * angstrom / quantum
            above = float(np.abs(dd[-2:, 2]).max() * c * angstrom / quantum)
            weak["worst_in_gap"] = max(weak["worst_in_gap"], float(abs(cz - round(cz))))
            weak["worst_above"] = max(weak["worst_above"], above)
            d2 = dict(det, calculator=nm, ahc_c_over_e2h_in_gap=float(cz), above_all_bands=above)
            if abs(cz - round(cz)) > TOL_CHERN["weak_bilayer"] or round(cz) != -round(cf):
                rep.violation("AHC:Chern:weak_bilayer:in_gap:" + nm, d2)
            if above > 1e-6:
                rep.violation("AHC:Chern:weak_bilayer:above_all_bands:" + nm, d2)
    if not rep.violations and not weak["done"]:
        raise MachineryError("no weak-bilayer case was run")
    rep.part("numeric_only", weak_bilayer=weak, weak_bilayer_calculators=["AHC", "AHC(degen_thresh=0.05)", "AHC(degen_thresh=0.05, tetra=True)", "AHC(tetra=True)"])
    # random four-band 2-D models with a staircase of on-site energies, two occupied bands
    for _ in range(4 if thorough else 2):
        m = km.build(rng.randrange(1 << 30), nw=4, dim=2, rmax=1, keys=("Ham",), centres="random", onsite_spread=rng.choice([8.0, 12.0]))
        chern_case("random", "System_R.from_sparse", lambda: m.system(periodic=(True, True, False)), m.Hk, 2, dict(model=m.describe()))
    if not rep.violations:
        if not {-1, 0, 1} <= seen["haldane"]:
            raise MachineryError(f"Haldane Chern cases do not cover -1, 0, +1: {seen['haldane']}")
        if not counts["bilayer"] or not counts["random"] or not any(abs(x) == 2 for x in seen["bilayer"]):
            raise MachineryError(f"multi-band Chern cases missing: {counts}, bilayer C seen {seen['bilayer']}")
    rep.part("numeric_only", chern_cases=counts, chern_numbers_seen={k: sorted(v) for k, v in seen.items()}, chern_max_distance_from_integer=worst,
             chern_tolerance=TOL_CHERN, chern_grid=N)


def _quiet(fn):
    import warnings
    with quiet(), warnings.catch_warnings():
        warnings.simplefilter("ignore")
        return fn()
