"""C27: Berry curvature obeys the sum rule and Chern quantisation.

spec  : SumRule.tla - exact transcription of the internal terms of formula/covariant.py:Omega (through data_K.dEig_inv,
        data_K.D_H, Omega.nn, Formula_ln.trace) over Hermitian Gaussian-integer velocity matrices and integer spectra, as
        rationals with a common denominator; MC_SumRule enumerates every input inside the constants (one state each):
        sum_n Omega_n = 0, block traces additive, antisymmetry; two wrong variants must violate the sum rule.
bind  : every / a seeded selection of the TLC states is replayed on the REAL dEig_inv, D_H, Dcov, Omega, Formula_ln.trace,
        tabulate.BerryCurvature and static.AHC through a duck-typed data_K carrying the same integer matrices (exact
        rational expected values); larger random integer inputs are recorded from the same real code and validated by TLC
        (SumRuleRec.tla).
num   : (numeric_only) evaluate_k sum over all bands of berry_curvature_internal_terms on random complex models,
        run()+AHC with the Fermi level above all bands, Chern numbers of Haldane models (tbmodels and PythTB builders)
        against the phase diagram and an independent link-variable (Fukui) computation.
"""
import random
import numpy as np

from .. import tlc, ftable
from ..common import Report, MachineryError, seed, quiet, workdir

PROPS = {
    "C27": dict(level="exploration",
                technique="TLC exhaustive on SumRule.tla (exact rational transcription of the internal Berry-curvature formula on Gaussian-integer matrices) + replay of TLC states on the real Omega/Tabulator/AHC code through a duck-typed data_K + TLC validation of recorded evaluations; numeric sum rule, AHC above all bands and Haldane Chern numbers",
                text="The specification decides exactly (rationals) the value of the internal Berry curvature of every band/block for all small Hermitian "
                     "Gaussian-integer velocity matrices and integer spectra and proves sum_n Omega_n = 0 and block additivity inside the constants; the real "
                     "formula code is executed on the same integer data and compared with the exact value (1e-9 relative). For Hamiltonian-derived input "
                     "(random models, Haldane) only implementation-vs-expected-number comparisons in floating point are possible.",
                note="spec decides: the algebraic identity sum_n Omega_n = 0, additivity over band blocks, the Fermi-sea partial sums, the exact value for integer inputs. "
                     "implementation numerics (numeric_only, not carrying the level): evaluate_k / run() on random complex tight-binding models (tolerance 1e-8 x scale), "
                     "Chern number of Haldane models on a 40x40 (thorough 60x60) grid within 0.02 of the integer fixed by the phase diagram |delta| <> 3 sqrt(3) |t2 sin(phi)| "
                     "(parameters at least 0.25 away from the gap closing, Fermi level in the middle of a global gap of at least 0.5) and by an independent plaquette (Fukui) computation, sign convention AHC*c/(e^2/h) = -C "
                     "with C = (1/2 pi) int Omega_z.",
                ref="DESIGN.md 5 (row C27), 2.3"),
}


# ---------------------------------------------------------------- duck-typed data_K around the real code
class DuckK:
    """carries E_K and Xbar('Ham', 1); everything else is the real wannierberri code"""
    force_internal_terms_only = False

    def __init__(self, E, Vx, Vy):
        nb = len(E)
        self.E_K = np.array([E], dtype=float)
        V = np.zeros((1, nb, nb, 3), dtype=complex)
        V[0, :, :, 0] = Vx
        V[0, :, :, 1] = Vy
        self._V = V
        self.nk = 1
        self.num_wann = nb
        self.cell_volume = 1.0

    def Xbar(self, name, der=0):
        if name != "Ham" or der != 1:
            raise MachineryError(f"duck data_K asked for Xbar({name},{der})")
        return self._V

    @property
    def dEig_inv(self):
        from wannierberri.data_K.data_K import Data_K
        return Data_K.dEig_inv.func(self)

    @property
    def D_H(self):
        from wannierberri.data_K.data_K import Data_K
        return Data_K.D_H.func(self)

    @property
    def Dcov(self):
        from wannierberri.data_K.data_K import Data_K
        return Data_K.Dcov.func(self)

    def get_bands_in_range_groups_ik(self, *a, **kw):
        from wannierberri.data_K.data_K import Data_K
        return Data_K.get_bands_in_range_groups_ik(self, *a, **kw)

    def get_bands_in_range_groups(self, *a, **kw):
        from wannierberri.data_K.data_K import Data_K
        return Data_K.get_bands_in_range_groups(self, *a, **kw)


def cmat(M):
    return np.array([[complex(x[0], x[1]) for x in row] for row in M])


def real_omega(E, Vx, Vy, blocks):
    """-> (per band z-values, {block: z-value}, tabulated z-values, sea sums for Ef = -1/2, 1/2, ... above all) from the real code"""
    from wannierberri.formula.covariant import Omega
    from wannierberri.calculators import tabulate, static
    nb = len(E)
    d = DuckK(E, cmat(Vx), cmat(Vy))
    f = Omega(d, external_terms=False)
    allb = np.arange(nb)
    band = []
    for n in range(nb):
        inn = np.array([n])
        band.append(f.trace(0, inn, np.setdiff1d(allb, inn)))
    blk = {}
    for a, b in blocks:
        inn = np.arange(a, b)
        blk[(a, b)] = f.trace(0, inn, np.setdiff1d(allb, inn))
    tab = tabulate.BerryCurvature(kwargs_formula=dict(external_terms=False), degen_thresh=0.25)(d).data[0]
    Ef = np.arange(-0.5, max(E) + 1.0, 1.0)
    ahc = static.AHC(Efermi=Ef, constant_factor=1.0, kwargs_formula=dict(external_terms=False), degen_thresh=0.25)(d).data
    return np.array(band), blk, tab, Ef, ahc


def occupied(E, ef):
    return sum(1 for e in E if e < ef)


def cfg_text(nbs, emax, offd, variant, invs, diag="{0}"):
    return ("SPECIFICATION Spec\nCONSTANTS\n" + f"  NBS = {{{', '.join(str(x) for x in nbs)}}}\n  EMAX = {emax}\n  OFFD <- {offd}\n  DIAG = {diag}\n"
            f"  Variant = \"{variant}\"\n" + "".join(f"INVARIANT {i}\n" for i in invs) + "CHECK_DEADLOCK FALSE\n")


def check(pid, tier):
    rep = Report(pid, tier, "exploration")
    thorough = tier == "thorough"
    rng = random.Random(seed() * 104729 + 27)
    rep.rule("TLC enumerates every (spectrum, Vx, Vy) inside the constants; a case = one TLC state replayed on the real Omega / "
             "BerryCurvature tabulator / AHC code through a duck-typed data_K (exact rational expectation), or one seeded random recorded "
             "evaluation validated by TLC, or (numeric_only) one model/k-point/parameter set; distinct by input")
    rep.assume("velocity matrices are Gaussian integers, spectra distinct integers, Fermi levels half-integers (never on a band energy)")
    rep.assume("numeric part: k-points with a band gap below 1e-3, Haldane parameters closer than 0.25 to the gap closing, and parameter sets without a global gap of 0.5 (bands overlapping in energy) are excluded (NonDegenerateK, AwayFromTransition, GlobalGap); the Fermi level is put in the middle of the global gap")
    wd = workdir("c27")

    # ------------------------------------------------------------ spec
    nbs, emax, offd = ((2, 3), 4, "OFFD_4") if thorough else ((2, 3), 3, "OFFD_3")
    invs = ("TypeOK", "SumRuleZero", "Additive", "Antisym")
    st = ftable.enumerate_states("MC_SumRule.tla", cfg_text(nbs, emax, offd, "code", invs), "c27_sumrule")
    ftable.spec_violation(rep, st, "c27_sumrule")
    rep.add_tlc("c27_sumrule", st)
    # band velocities (diagonal of V) do not enter: two-band models with arbitrary diagonals
    sd = tlc.run_tlc("MC_SumRule.tla", cfg_text((2,), 3, "OFFD_4", "code", invs, diag="{0, 1}"), "c27_sumrule_diag", timeout=900)
    tlc.require_ok(sd, "c27_sumrule_diag")
    ftable.spec_violation(rep, sd, "c27_sumrule_diag")
    rep.add_tlc("c27_sumrule_diag", sd)
    # sensitivity: formulas that do not obey the sum rule must be rejected by TLC
    for variant in ("weighted", "oddden"):
        sv = tlc.run_tlc("MC_SumRule.tla", cfg_text((2, 3), 2, "OFFD_3", variant, ("SumRuleZero",)), f"c27_{variant}", timeout=900)
        if not sv.get("violation") or sv["violation"][1] != "SumRuleZero":
            raise MachineryError(f"sensitivity self-test failed: variant {variant} should violate SumRuleZero ({sv.get('error')})")
        rep.part(f"c27_sensitivity_{variant}", violated=sv["violation"][1])

    # ------------------------------------------------------------ spec -> code
    states = list(ftable.dump_states(st))
    if len(states) != st["distinct"]:
        raise MachineryError(f"dump has {len(states)} states, TLC reported {st['distinct']}")
    nonzero = sum(1 for s in states if any(s["om"]))
    if nonzero < 10:
        raise MachineryError("vacuous: (almost) no state with non-zero Berry curvature")
    rep.part("c27_sumrule", states_with_nonzero_curvature=nonzero)
    nrep = len(states) if thorough else 1500
    sel = states if len(states) <= nrep else [s for s in states if len(s["E"]) == 2] + rng.sample([s for s in states if len(s["E"]) > 2 and any(s["om"])], nrep)
    tol = 1e-9
    maxdev = 0.0
    for s in sel:
        E, Vx, Vy, om, den = list(s["E"]), s["Vx"], s["Vy"], list(s["om"]), s["den"]
        nb = len(E)
        blocks = [(a, b) for a in range(nb) for b in range(a + 1, nb + 1)]
        band, blk, tab, Ef, ahc = real_omega(E, Vx, Vy, blocks)
        key = ("replay", tuple(E), repr(Vx), repr(Vy))
        rep.case(key, nontrivial=any(om))
        inp = dict(E=E, Vx=[[list(x) for x in r] for r in Vx], Vy=[[list(x) for x in r] for r in Vy], den=den)
        if np.abs(band[:, :2]).max() != 0:
            rep.violation("Omega:xy_components_nonzero", dict(inp, got=band.tolist()))
        for n in range(nb):
            dev = abs(band[n, 2] * den - om[n])
            maxdev = max(maxdev, dev / max(1, abs(om[n])))
            if dev > tol * max(1, abs(om[n])):
                rep.violation("Omega.trace:band", dict(inp, band=n, expected_num=om[n], got=float(band[n, 2])))
            if abs(tab[n, 2] * den - om[n]) > tol * max(1, abs(om[n])):
                rep.violation("tabulate.BerryCurvature", dict(inp, band=n, expected_num=om[n], got=float(tab[n, 2])))
        if abs(band[:, 2].sum()) * den > tol * max(1, max(abs(x) for x in om)):
            rep.violation("Omega:sum_rule", dict(inp, got=band[:, 2].tolist()))
        for (a, b), v in blk.items():
            exp = sum(om[a:b]) if (b - a) < nb else 0
            if abs(v[2] * den - exp) > tol * max(1, abs(exp)):
                rep.violation("Omega.trace:block", dict(inp, block=[a, b], expected_num=exp, got=float(v[2])))
        for ie, ef in enumerate(Ef):
            j = occupied(E, ef)
            exp = sum(om[:j])
            if abs(ahc[ie, 2] * den - exp) > tol * max(1, abs(exp)):
                rep.violation("static.AHC:sea", dict(inp, Ef=float(ef), occupied=j, expected_num=exp, got=float(ahc[ie, 2])))
        if abs(ahc[-1, 2]) * den > tol:
            rep.violation("static.AHC:above_all_bands", dict(inp, got=float(ahc[-1, 2])))
        rep.sample(dict(fn="Omega(duck)", E=E, Vx=inp["Vx"], Vy=inp["Vy"], den=den, expected_num=om, got=band[:, 2].tolist()))
    rep.part("replay", states_replayed=len(sel), max_relative_deviation=maxdev, tolerance=tol)

    # ------------------------------------------------------------ code -> spec
    recs = []
    nrec = 1500 if thorough else 300
    for _ in range(nrec):
        nb = rng.choice([3, 4, 4])
        E = sorted(rng.sample(range(0, 6), nb))
        def herm():
            M = [[[0, 0] for _ in range(nb)] for _ in range(nb)]
            for m in range(nb):
                M[m][m] = [rng.randint(-2, 2), 0]
                for n in range(m + 1, nb):
                    z = [rng.randint(-2, 2), rng.randint(-2, 2)]
                    M[m][n] = z
                    M[n][m] = [z[0], -z[1]]
            return M
        Vx, Vy = herm(), herm()
        den = 1
        for m in range(nb):
            for l in range(m):
                den *= (E[m] - E[l]) ** 2
        blocks = [tuple(sorted(rng.sample(range(nb + 1), 2))) for _ in range(3)]
        band, blk, tab, Ef, ahc = real_omega(E, Vx, Vy, blocks)

        def to_int(x, what):
            v = x * den
            if abs(v - round(v)) > 1e-6:
                rep.violation("Omega:nonintegral_projection", dict(E=E, Vx=Vx, Vy=Vy, den=den, what=what, value=float(x)))
                return None
            return int(round(v))
        om = [to_int(band[n, 2], f"band {n}") for n in range(nb)]
        grp = [[a, b, to_int(blk[(a, b)][2], f"block {a}:{b}")] for a, b in blocks]
        sea_by_occ = {}
        for ie, ef in enumerate(Ef):
            sea_by_occ[occupied(E, ef)] = to_int(ahc[ie, 2], f"sea Ef={ef}")
        if None in om or any(g[2] is None for g in grp) or None in sea_by_occ.values() or sorted(sea_by_occ) != list(range(nb + 1)):
            continue
        recs.append(dict(E=E, Vx=Vx, Vy=Vy, den=den, om=om, grp=grp, sea=[sea_by_occ[j] for j in range(nb + 1)]))
        rep.case(("rec", tuple(E), repr(Vx), repr(Vy)), nontrivial=any(om))
    if len(recs) < nrec // 2:
        raise MachineryError("too few records")
    stv, bad = ftable.validate_records("SumRuleRec.tla", ftable.REC_CFG, recs, "c27")
    rep.add_tlc("c27_records", stv)
    rep.add_traces(len(recs))
    for i, clauses in bad.items():
        rep.violation("Omega:recorded:" + clauses[0], dict(record=recs[i], failing_clauses=clauses))
    rep.sample(recs[0])
    import copy
    badrec = copy.deepcopy([r for r in recs if any(r["om"])][:1])
    if not badrec:
        raise MachineryError("no record with non-zero curvature")
    k = [j for j, v in enumerate(badrec[0]["om"]) if v][0]
    badrec[0]["om"][k] += 1
    _, b2 = ftable.validate_records("SumRuleRec.tla", ftable.REC_CFG, badrec, "c27_selftest")
    if 0 not in b2 or "band_equals_spec" not in b2[0] or "sum_rule" not in b2[0]:
        raise MachineryError(f"binding self-test failed: corrupted record accepted ({b2})")
    rep.part("binding_selftest", corrupted_record_rejected=b2[0])

    # ------------------------------------------------------------ numeric_only
    numeric(rep, rng, thorough, wd)
    return rep.finish()


# -------------------------------------------------------------------------------------------------- numeric part
def haldane_expected(delta, hop2, phi):
    """C = (1/2 pi) int Omega_z of the lower band from the phase diagram; None if closer than 0.25 to the transition"""
    bound = 3 * np.sqrt(3) * abs(hop2 * np.sin(phi))
    if abs(abs(delta) - bound) < 0.25:
        return None
    return 0 if abs(delta) > bound else 1   # magnitude only; the sign is fixed by the plaquette computation


def fukui(system, N, nocc=1):
    """(1/2 pi) int Omega_z over the occupied bands by the plaquette method, with its own Fourier sum;
    Omega = curl A, A = i<u|du>: the plaquette phase arg prod <u|u'> equals MINUS the flux of Omega"""
    iR = system.rvec.iRvec
    H = system.get_R_mat('Ham')
    U = np.zeros((N, N, system.num_wann, nocc), complex)
    vmax, cmin = -np.inf, np.inf
    for i in range(N):
        for j in range(N):
            k = np.array([i / N, j / N, 0])
            Hk = np.einsum("r,rab->ab", np.exp(2j * np.pi * iR @ k), H)
            Hk = (Hk + Hk.conj().T) / 2
            ev, vec = np.linalg.eigh(Hk)
            U[i, j] = vec[:, :nocc]
            vmax, cmin = max(vmax, ev[nocc - 1]), min(cmin, ev[nocc])
    def link(a, b):
        return np.linalg.det(a.conj().T @ b)
    F = 0.0
    for i in range(N):
        for j in range(N):
            u00, u10, u11, u01 = U[i, j], U[(i + 1) % N, j], U[(i + 1) % N, (j + 1) % N], U[i, (j + 1) % N]
            F += np.angle(link(u00, u10) * link(u10, u11) * link(u11, u01) * link(u01, u00))
    return -F / (2 * np.pi), float(vmax), float(cmin)


def ahc_run(system, Ef, NK, fft, wd, name):
    import wannierberri as wb
    from wannierberri import calculators as calc
    with quiet():
        grid = wb.Grid(system, NK=NK, NKFFT=fft)
        res = wb.run(system, grid, {"ahc": calc.static.AHC(Efermi=np.array(Ef, dtype=float), kwargs_formula={"external_terms": False}, save_mode="")},
                     parallel=False, adpt_num_iter=0, use_irred_kpt=False, symmetrize=False, fout_name=f"{wd}/{name}", print_progress_step_time=1e9)
    return res.results["ahc"].data


def numeric(rep, rng, thorough, wd):
    import warnings
    warnings.filterwarnings("ignore")
    import wannierberri as wb
    from wannierberri import models
    from scipy.constants import elementary_charge, angstrom, h
    from . import kmodels as km
    tol = 1e-8
    # (a) sum over all bands at random k
    nmod = 40 if thorough else 10
    worst = 0.0
    ncase = 0
    for im in range(nmod):
        nw = rng.choice([2, 3, 4, 5])
        dim = rng.choice([2, 3])
        m = km.build(rng.randrange(1 << 30), nw=nw, dim=dim, rmax=1, keys=("Ham",), centres="random")
        s = m.system()
        r = np.random.RandomState(rng.randrange(1 << 30))
        for _ in range(6):
            k = km.generic_k(r, dim=dim)
            if km.min_gap(m, k) < 1e-3:   # NonDegenerateK
                continue
            with quiet():
                oc = wb.evaluate_k(s, k=k, quantities=["berry_curvature_internal_terms"])
            scale = max(1.0, float(np.abs(oc).max()))
            dev = float(np.abs(oc.sum(axis=0)).max())
            worst = max(worst, dev / scale)
            ncase += 1
            rep.case(("sumrule_k", m.meta["seed"], tuple(k)), nontrivial=np.abs(oc).max() > 1e-6)
            if dev > tol * scale:
                rep.violation("evaluate_k:berry_curvature_internal_terms:sum_rule", dict(model=m.dump(), k=k.tolist(), per_band=oc.tolist(), sum=oc.sum(axis=0).tolist()))
    if ncase < nmod:
        raise MachineryError("too few non-degenerate k-points")
    rep.part("numeric_only", sum_rule_cases=ncase, sum_rule_max_rel_dev=worst, tolerance=tol)
    # (b) AHC with the Fermi level above all bands (and a non-zero value inside the spectrum)
    nrun = 6 if thorough else 2
    worst = 0.0
    for im in range(nrun):
        nw = rng.choice([2, 3])
        m = km.build(rng.randrange(1 << 30), nw=nw, dim=3, rmax=1, keys=("Ham",), centres="random")
        s = m.system()
        Es = np.concatenate([np.linalg.eigvalsh(m.Hk(np.array([i, j, l]) / 4.0)) for i in range(4) for j in range(4) for l in range(4)])
        bw = float(np.abs(Es).max()) + 20.0   # safely above sum of all |hoppings|
        mid = float(np.median(Es))
        data = ahc_run(s, [mid, bw, bw + 1.0], [4, 4, 4], [2, 2, 2], wd, f"ahc{im}")
        scale = max(1.0, float(np.abs(data[0]).max()))
        dev = float(np.abs(data[1:]).max())
        worst = max(worst, dev / scale)
        rep.case(("ahc_above", m.meta["seed"]), nontrivial=np.abs(data[0]).max() > 1e-6 * scale)
        if np.abs(data[0]).max() < 1e-9:
            raise MachineryError("vacuous: AHC inside the spectrum vanishes for a random complex model")
        if dev > tol * scale:
            rep.violation("run:AHC:Ef_above_all_bands", dict(model=m.dump(), Efermi=[mid, bw, bw + 1.0], ahc=data.tolist()))
    rep.part("numeric_only", ahc_above_runs=nrun, ahc_above_max_rel_dev=worst)
    # (c) Chern numbers
    quantum = elementary_charge ** 2 / h
    N = 60 if thorough else 40
    grid_params = [(0.2, 0.15, np.pi / 2), (0.2, 0.15, -np.pi / 2), (1.2, 0.15, np.pi / 2), (-0.2, 0.2, 2.0), (0.2, 0.25, -1.0), (-1.5, 0.15, 0.7)]
    if thorough:
        grid_params += [(d, t2, ph) for d in (0.0, 0.3, -0.3, 1.5) for t2 in (0.15, 0.3) for ph in (np.pi / 2, -np.pi / 3, 2.5)]
    nch = 0
    nskip = 0
    worst = 0.0
    seen = set()
    for delta, t2, phi in grid_params:
        expmag = haldane_expected(delta, t2, phi)
        if expmag is None:   # AwayFromTransition
            continue
        builders = [("tbm", lambda: wb.system.System_R.from_tbmodels(models.Haldane_tbm(delta=delta, hop1=-1.0, hop2=t2, phi=phi)))]
        if abs(delta - 0.2) < 1e-12:   # Haldane_ptb ignores its delta argument (that is C32's business): use it only where it does not matter
            builders.append(("ptb", lambda: wb.system.System_R.from_pythtb(models.Haldane_ptb(delta=delta, hop1=-1.0, hop2=t2, phi=phi))))
        for bname, bld in builders:
            with quiet():
                s = bld()
            c = float(s.real_lattice[2, 2])
            cf, vmax, cmin = fukui(s, 24)
            if cmin - vmax < 0.5:   # GlobalGap: the Fermi level must lie in a global gap (large t2 cos(phi) makes the bands overlap)
                nskip += 1
                continue
            ef = 0.5 * (vmax + cmin)
            data = ahc_run(s, [ef, 100.0], [N, N, 1], [N // 4, N // 4, 1], wd, "haldane")
            cz = data[0, 2] * c * angstrom / quantum    # = -C
            cfull = data[1, 2] * c * angstrom / quantum
            nch += 1
            seen.add(int(round(cf)))
            rep.case(("chern", bname, delta, t2, round(phi, 6)), nontrivial=expmag == 1)
            det = dict(builder=bname, delta=delta, hop2=t2, phi=phi, grid=N, Efermi=ef, global_gap=cmin - vmax, ahc_c_over_e2h=float(cz), plaquette_C=float(cf), expected_abs=expmag,
                       xy_components=data[0, :2].tolist())
            worst = max(worst, float(abs(cz - round(cz))))
            if abs(cf - round(cf)) > 1e-6 or abs(round(cf)) != expmag:
                raise MachineryError(f"plaquette oracle disagrees with the Haldane phase diagram: {det}")
            if abs(cz - round(cz)) > 0.02:
                rep.violation("AHC:Chern:not_integer", det)
            elif abs(round(cz)) != expmag:
                rep.violation("AHC:Chern:wrong_phase", det)
            elif round(cz) != -round(cf):
                rep.violation("AHC:Chern:sign", det)
            if abs(cfull) > 1e-6:
                rep.violation("AHC:Chern:filled_bands_nonzero", dict(det, ahc_all_bands=float(cfull)))
            if np.abs(data[0, :2]).max() > 1e-8:
                rep.violation("AHC:Chern:inplane_components", det)
            rep.sample(dict(fn="AHC/Haldane", **det))
    if not {-1, 0, 1} <= seen:
        raise MachineryError(f"Chern cases do not cover -1, 0, +1: {seen}")
    import shutil
    shutil.rmtree(wd, ignore_errors=True)
    rep.part("numeric_only", chern_cases=nch, chern_skipped_no_global_gap=nskip, chern_max_distance_from_integer=worst, chern_tolerance=0.02, chern_grid=N)
