"""X01 (b): binding of WinFile.tla to wannierberri.w90files.win.WIN - rendering of the specification's token files to text,
tokenising of the text the real writer produces, projection of the real dictionary onto the specification's values."""
import re
import warnings
import numpy as np

from ..common import quiet

KDEN = 24
TOL = 1e-8                  # absolute, on numbers of order 1: 2 x 10^4 x the half-ulp of the writer's %16.12f
_A0 = []


def a0():
    if not _A0:
        from scipy.constants import physical_constants
        _A0.append(physical_constants['Bohr radius'][0] * 1e10)
    return _A0[0]


class Unrepresentable(Exception):
    pass


# --------------------------------------------------------------------------- values
def mk(t, i=0, s="", q=(), l=()):
    return dict(t=t, i=int(i), s=str(s), q=[int(x) for x in q], l=[str(x) for x in l])


VNONE = mk("none")


def canon_val(v):
    """parsed TLA+ record -> plain dict"""
    return mk(v["t"], v["i"], v["s"], v["q"], v["l"])


def canon_data(d):
    if not isinstance(d, dict):
        return {}
    return {k: canon_val(v) for k, v in d.items()}


def canon_file(f):
    return [dict(k=ln["k"], name=ln["name"], cs=ln["cs"], sep=ln["sep"], v=canon_val(ln["v"])) for ln in f]


def get(d, k):
    return d.get(k, VNONE)


def same_data(d1, d2, but=()):
    return [k for k in sorted(set(d1) | set(d2)) if k not in but and get(d1, k) != get(d2, k)]


def to_python(v):
    """specification value -> what a user would put into the dictionary"""
    t = v["t"]
    if t == "none":
        return None
    if t == "int":
        return int(v["i"])
    if t == "float":
        return v["i"] / 8
    if t == "bool":
        return bool(v["i"])
    if t == "str":
        return " ".join(v["s"]) if v["i"] == 1 else v["s"]
    if t == "ints":
        return list(v["q"])
    if t == "cell":
        return np.array(v["q"], dtype=float).reshape(3, 3) / 8 * a0() ** v["i"]
    if t == "kpts":
        return np.array(v["q"], dtype=float).reshape(-1, 3) / KDEN
    if t == "frac":
        return np.array(v["q"], dtype=float).reshape(-1, 3) / 8 * a0() ** v["i"]
    if t in ("names", "strs"):
        return list(v["l"])
    raise ValueError(t)


def _ints(a, scale, what):
    a = np.asarray(a, dtype=float) * scale
    r = np.rint(a)
    if a.size and (not np.all(np.isfinite(a)) or np.max(np.abs(a - r)) > TOL * scale):
        raise Unrepresentable(f"{what}: not a multiple of 1/{scale}")
    return [int(x) for x in r.reshape(-1)]


def _with_exponent(a, what):
    """numbers that are multiples of 1/8 times a0^e, e in 0, 1, -1 -> (integers, e)"""
    for e in (0, 1, -1):
        try:
            return _ints(np.asarray(a, dtype=float) / a0() ** e, 8, what), e
        except Unrepresentable:
            continue
    raise Unrepresentable(f"{what}: neither multiples of 1/8 nor of a0/8, 1/(8 a0)")


def spaced(x):
    """'p l o t' -> 'plot' (the characters of a string joined by blanks), else None"""
    if len(x) >= 3 and len(x) % 2 == 1 and all(c == " " for c in x[1::2]) and all(c != " " for c in x[0::2]):
        return x[0::2]
    return None


def project_val(key, x):
    """value found in WIN.data -> specification value"""
    if x is None:
        return VNONE
    if isinstance(x, (bool, np.bool_)):
        return mk("bool", int(bool(x)))
    if isinstance(x, (int, np.integer)):
        return mk("int", int(x))
    if isinstance(x, (float, np.floating)):
        return mk("float", _ints([x], 8, key)[0])
    if isinstance(x, str):
        s = spaced(x)
        return mk("str", 1, s) if s is not None else mk("str", 0, x)
    if isinstance(x, np.ndarray) and x.ndim == 2:
        if key == "kpoints":
            return mk("kpts", q=_ints(x, KDEN, key))
        q, e = _with_exponent(x, key)
        if key == "unit_cell_cart" and x.shape == (3, 3):
            return mk("cell", e, q=q)
        if x.shape[1] == 3:
            return mk("frac", e, q=q)
        raise Unrepresentable(f"{key}: array of shape {x.shape}")
    if isinstance(x, np.ndarray) and x.ndim != 1:
        raise Unrepresentable(f"{key}: array of shape {x.shape}")
    if isinstance(x, (list, tuple, np.ndarray)):
        xs = list(x)
        if all(isinstance(y, str) for y in xs):
            return mk("names" if key == "atoms_names" else "strs", l=xs)
        if all(isinstance(y, (int, np.integer)) and not isinstance(y, (bool, np.bool_)) for y in xs):
            return mk("ints", q=xs)
        raise Unrepresentable(f"{key}: list {xs!r:.80}")
    raise Unrepresentable(f"{key}: {type(x).__name__}")


def model_key(k):
    """key of the real dictionary -> key of the specification (KeyOf)"""
    if k == k.lower():
        return k
    if k == k.upper():
        return "upper:" + k.lower()
    if k == k.lower().title() or k == k.capitalize():
        return "title:" + k.lower()
    return "other:" + k


def project_data(w, seeds):
    """real WIN -> {key: value}; the seedname (a path of the scratch directory) is mapped back to the model's name"""
    out = {}
    for k, x in w.data.items():
        if k == "seedname":
            if x is None:
                out[k] = VNONE
                continue
            if isinstance(x, str):
                s = spaced(x)
                name = seeds.get(x) or (seeds.get(_unspace(x, seeds)) if s is not None else None)
                if name is not None:
                    out[k] = mk("str", 0 if x in seeds else 1, name)
                    continue
            out[k] = mk("str", 0, repr(x)[:60])
            continue
        out[model_key(k)] = project_val(k.lower(), x)
    return out


def _unspace(x, seeds):
    for path in seeds:
        if " ".join(path) == x:
            return path
    return None


# --------------------------------------------------------------------------- rendering a token file to text
def cased(word, cs):
    if cs == "upper":
        return word.upper()
    if cs == "title":
        return word[:1].upper() + word[1:]
    return word


def _fmt_float(x, cs):
    if cs == "upper":
        return f"{x:.4f}D0"
    if cs == "title":
        return f"{x:+.3f}"
    return repr(float(x))


def _fmt_ints(q, cs):
    if cs == "upper" and len(q) != 3 and all(x >= 0 for x in q):
        # ranges, comma separated: 1-3,5
        out, j = [], 0
        while j < len(q):
            e = j
            while e + 1 < len(q) and q[e + 1] == q[e] + 1:
                e += 1
            out.append(f"{q[j]}-{q[e]}" if e > j + 1 else " ".join(str(x) for x in q[j:e + 1]))
            j = e + 1
        return ",".join(out).replace(" ", ",")
    if cs == "title":
        return ";".join(str(x) for x in q)
    return " ".join(str(x) for x in q)


def value_text(v, cs):
    t = v["t"]
    if t == "int":
        return str(v["i"])
    if t == "float":
        return _fmt_float(v["i"] / 8, cs)
    if t == "bool":
        return {"lower": ("false", "true"), "upper": (".FALSE.", ".TRUE."), "title": ("F", "T")}[cs][v["i"]]
    if t == "str":
        return " ".join(v["s"]) if v["i"] == 1 else v["s"]
    if t == "ints":
        return _fmt_ints(v["q"], cs)
    raise ValueError(f"cannot render a parameter of type {t}")


def render(lines):
    """token lines of the specification -> text of a .win file"""
    out = []
    block = None
    ncom = 0
    for ln in lines:
        k, cs = ln["k"], ln["cs"]
        if k == "comment":
            ncom += 1
            out.append(("! " if ncom % 2 else "#") + f"comment {ncom}: num_wann = 99")
        elif k == "blank":
            out.append("")
        elif k == "param":
            sep = {"=": " = ", ":": ":", " ": "   "}[ln["sep"]]
            out.append(("  " if cs == "title" else "") + cased(ln["name"], cs) + sep + value_text(ln["v"], cs))
        elif k in ("begin", "end"):
            out.append(("\t" if cs == "title" else "") + cased(k, cs) + " " + cased(ln["name"], cs))
            block = ln["name"] if k == "begin" else None
        elif k == "units":
            out.append(cased(ln["name"], cs))
        elif k == "row":
            v = ln["v"]
            den = KDEN if block == "kpoints" else 8
            nums = [x / den * a0() ** v["i"] for x in v["q"]]
            txt = "  ".join(repr(float(x)) if block == "kpoints" else f"{x:.10f}" for x in nums)
            out.append(("  " + v["s"] + "  " if v["s"] else " ") + txt)
        elif k == "text":
            out.append("  " + ln["v"]["s"] + " ")
        else:
            raise ValueError(k)
    return "\n".join(out) + "\n"


# --------------------------------------------------------------------------- tokenising a written file
_INT = re.compile(r"^[-+]?\d+$")
_FLT = re.compile(r"^[-+]?(\d+(\.\d*)?|\.\d+)([eEdD][-+]?\d+)?$")
_TRUE = ("t", "true", ".true.")
_FALSE = ("f", "false", ".false.")


def convert_doc(text):
    """the value of a `keyword = value` line by the rules of the Wannier90 user guide -> specification value"""
    s = text.strip()
    if _INT.match(s):
        return mk("int", int(s))
    if _FLT.match(s):
        return mk("float", _ints([float(s.replace("d", "e").replace("D", "e"))], 8, s)[0])
    if s.lower() in _TRUE:
        return mk("bool", 1)
    if s.lower() in _FALSE:
        return mk("bool", 0)
    parts = [p for p in re.split(r"[ \t,;]+", s) if p]
    if len(parts) > 1 and all(re.match(r"^[-+]?\d+$", p) or re.match(r"^\d+-\d+$", p) for p in parts):
        q = []
        for p in parts:
            if re.match(r"^\d+-\d+$", p):
                a, b = p.split("-")
                q += list(range(int(a), int(b) + 1))
            else:
                q.append(int(p))
        return mk("ints", q=q)
    sp = spaced(s)
    return mk("str", 1, sp) if sp is not None else mk("str", 0, s)


def tokenise(text):
    """text of a .win file as WIN.write produces it -> token lines.  Raises Unrepresentable for a file that is not made of
    comment lines, blank lines, `keyword sep value` lines and begin/end blocks of numbers / text"""
    lines = []
    block = None
    rows = []           # (index in lines, species, floats) of the current block

    def close():
        if not rows:
            return
        nums = [x for _, _, fl in rows for x in fl]
        if block == "kpoints":
            q, e = _ints(nums, KDEN, "kpoints"), 0
        else:
            q, e = _with_exponent(nums, block)
        p = 0
        for idx, sp, fl in rows:
            lines[idx]["v"] = mk("row", e, sp, q[p:p + len(fl)])
            p += len(fl)
        rows.clear()

    for raw in text.split("\n"):
        s = raw.strip()
        if s == "":
            lines.append(dict(k="blank", name="", cs="lower", sep="", v=VNONE))
            continue
        if s[0] in "#!":
            lines.append(dict(k="comment", name="", cs="lower", sep="", v=VNONE))
            continue
        w = s.split()
        if w[0].lower() in ("begin", "end") and len(w) == 2:
            k = w[0].lower()
            if k == "end":
                close()
            name = w[1].lower()
            cs = "lower" if w[1] == name else "upper" if w[1] == name.upper() else "title"
            lines.append(dict(k=k, name=name, cs=cs, sep="", v=VNONE))
            block = name if k == "begin" else None
            continue
        if block is not None:
            if len(w) == 1 and w[0].lower() in ("ang", "bohr", "angstrom") and block != "projections" or \
                    (block == "projections" and len(w) == 1 and w[0].lower() in ("ang", "bohr") and not rows and lines[-1]["k"] == "begin"):
                u = w[0].lower()
                lines.append(dict(k="units", name="ang" if u.startswith("ang") else "bohr", cs="lower" if w[0] == u else "upper" if w[0] == u.upper() else "title",
                                  sep="", v=VNONE))
                continue
            if block == "projections":
                lines.append(dict(k="text", name="", cs="lower", sep="", v=mk("str", 0, s)))
                continue
            try:
                if block in ("atoms_frac", "atoms_cart"):
                    sp, fl = w[0], [float(x) for x in w[1:]]
                else:
                    sp, fl = "", [float(x) for x in w]
            except ValueError:
                raise Unrepresentable(f"line in block {block}: {s!r:.60}")
            lines.append(dict(k="row", name="", cs="lower", sep="", v=VNONE))
            rows.append((len(lines) - 1, sp, fl))
            continue
        m = re.match(r"^(\w+)\s*([=:])\s*(.*)$", s) or re.match(r"^(\w+)(\s)\s*(.*)$", s)
        if not m:
            raise Unrepresentable(f"line {s!r:.60}")
        key = m.group(1)
        name = key.lower()
        cs = "lower" if key == name else "upper" if key == name.upper() else "title"
        sep = m.group(2) if m.group(2) in "=:" else " "
        lines.append(dict(k="param", name=name, cs=cs, sep=sep, v=convert_doc(m.group(3))))
    close()
    while lines and lines[-1]["k"] == "blank":
        lines.pop()
    return lines


def significant(lines):
    return [ln for ln in lines if ln["k"] not in ("comment", "blank")]


# --------------------------------------------------------------------------- the real class
def read_win(seedpath, **kw):
    """-> (WIN or None, 'ExceptionClass: text' or None)"""
    from wannierberri.w90files.win import WIN
    try:
        with quiet(), warnings.catch_warnings():
            warnings.simplefilter("ignore")
            return WIN.from_w90_file(seedpath, **kw), None
    except Exception as ex:             # any exception of the library is its answer; the class is information
        return None, f"{type(ex).__name__}: {str(ex)[:160]}"


def write_win(w, seedpath):
    try:
        with quiet(), warnings.catch_warnings():
            warnings.simplefilter("ignore")
            w.write(seedpath)
        with open(seedpath + ".win") as f:
            return f.read(), None
    except Exception as ex:
        return None, f"{type(ex).__name__}: {str(ex)[:160]}"


def file_keys(lines):
    return [ln["name"] for ln in significant(lines) if ln["k"] in ("param", "begin")]
