"""C08: declared time-reversal and inversion parities match computed values.

spec  : ParityAlg.tla - (1) transcription of how the code arrives at every formula's transformTR / transformInv
        (constants, get_transform_TR/Inv, TransformProduct, FormulaSum, DeltaProduct, calculator overrides),
        (2) independent derivation of the required transformation from the composition of the quantity out of
        H, S, A, d/dk, real and imaginary products, pair tensors, Onsager; MC_ParityAlg: one state per formula,
        Declared = Derived, derivative / product / involution laws; mutated declarations must be rejected.
bind  : exact - every TLC state is replayed on the real formula classes instantiated on a real Data_K (all variants of
        internal/external terms, spin-current types, SDCT parts): (factor, conj, transpose_axes) compared with the state;
        the objects' declarations, data_K.covariant() declarations and the *measured* signs are recorded and validated by
        TLC (ParityAlgRec.tla).
num   : value at -k versus declared transformation of the value at k on time-reversal symmetric (spinless real and
        spinful, T = i sigma_y K) and inversion-symmetrised random models with all external-term matrices, per band,
        per block of bands, per degenerate pair (doubled models); tolerance 1e-8 x scale; the comparison is reduced to a
        sign in {+1, -1} which is then an exact datum checked by TLC.
"""
import copy
import random
import numpy as np

from .. import tlc, ftable
from ..common import Report, MachineryError, seed, quiet

PROPS = {
    "C08": dict(level="exploration",
                technique="TLC on ParityAlg.tla (code's declaration mechanism transcribed vs parities derived from the physical composition of each formula; product/derivative/involution laws) + exact replay of the declaration table on the real formula objects + TLC validation of recorded declarations and of signs measured at k / -k on symmetric random models",
                text="TLC decides for every catalogued formula (56 classes of formula/covariant.py, basic.py, elementary.py, sdct.py, calculators/dynamic.py) which "
                     "transformation under time reversal and inversion its composition requires and that the code's way of declaring it yields exactly that; the real objects' "
                     "declared (factor, conj, transpose_axes) are compared exactly with the table, and the value of every formula at -k is compared with the declared "
                     "transformation of its value at k on symmetric random models (floating point, 1e-8).",
                note="spec decides: the declaration table (exact, discrete) and the algebra (derivative flips both parities, products multiply, imaginary products flip TR, pair tensors "
                     "transpose, all transforms are involutions). implementation-vs-implementation numerics: value(-k) against the declared transform of value(k) on TR-symmetric and "
                     "inversion-symmetric random dyadic models; the floating comparison only classifies a sign, which TLC then checks against the derived table. Mixed-parity intermediate "
                     "tensors (tildeFab, tildeHab, tildeHab_d, ...) and unused entries of get_transform_TR (FF, GG) are outside the property (not used by a calculator as final formula); "
                     "spin Hall types ryoo/qiao exist only with external terms.",
                ref="DESIGN.md 3.3 (ParityAlg), 5 (row C08), 2.3"),
}

TOL = 1e-8
MINGAP = 0.05
INVS = ("DeclaredWellFormed", "DeclaredMatchesDerived", "ConsistentSums", "DerivativeFlips", "ProductsMultiply", "DeclaredInvolutions", "AllClassesPresent")
ALLKEYS = ("Ham", "AA", "BB", "CC", "FF", "GG", "OO", "SS", "SH", "SA", "SHA", "SR", "SHR")
NOSPIN_KEYS = ("Ham", "AA", "BB", "CC", "FF", "GG", "OO")


def cfg(mutate=""):
    return "SPECIFICATION Spec\nCONSTANTS\n  Mutate = \"%s\"\n" % mutate + "".join(f"INVARIANT {i}\n" for i in INVS) + "CHECK_DEADLOCK FALSE\n"


# ------------------------------------------------------------------------------------------------ registry
def registry():
    """-> list of dict(name (catalogue key), label, make(data_K) -> object carrying transformTR/transformInv and the values,
    kind 'ln' | 'dyn', spin (needs SS), transforms(obj) -> (tTR, tInv))"""
    from wannierberri.formula import covariant as F
    from wannierberri.formula import basic as B
    from wannierberri.formula import elementary as EL
    from wannierberri.formula import sdct as SD
    from wannierberri.calculators import dynamic as DY
    reg = []

    def add(name, label, make, kind="ln", spin=False, transforms=None, nonadditive=False):
        reg.append(dict(name=name, label=label, make=make, kind=kind, spin=spin, transforms=transforms, nonadditive=nonadditive))
    plain = dict(Identity=F.Identity, Eavln=EL.Eavln, Hamiltonian=F.Hamiltonian, InvMass=EL.InvMass, DerWln=EL.DerWln, Der3E=F.Der3E,
                 VelVel=F.VelVel, VelVelVel=F.VelVelVel, MassVel=F.MassVel, MassMass=F.MassMass, VelMassVel=F.VelMassVel)
    for n, c in plain.items():
        add(n, n, (lambda d, c=c: c(d)))
    for ext in (False, True):
        add("Velocity", f"Velocity(external_terms={ext})", (lambda d, ext=ext: F.Velocity(d, external_terms=ext)))
    for n, c in dict(Spin=F.Spin, DerSpin=F.DerSpin, Der2Spin=F.Der2Spin, VelSpin=F.VelSpin).items():
        add(n, n, (lambda d, c=c: c(d)), spin=True)
    ie = dict(Omega=F.Omega, DerOmega=F.DerOmega, Der2Omega=F.Der2Omega, Morb_H=F.Morb_H, Morb_Hpm=F.Morb_Hpm, morb=F.morb,
              DerMorb_H=F.DerMorb_H, DerMorb=F.DerMorb, Dermorb=F.Dermorb, Der2Morb_H=F.Der2Morb_H, Der2Morb=F.Der2Morb, Der2morb=F.Der2morb,
              VelOmega=F.VelOmega, VelHplus=F.VelHplus, OmegaOmega=F.OmegaOmega, OmegaHplus=F.OmegaHplus, emcha_surf=F.emcha_surf,
              NLDrude_Z_orb_Hplus=F.NLDrude_Z_orb_Hplus, NLDrude_Z_orb_Omega=F.NLDrude_Z_orb_Omega,
              QuantumMetric_ab=F.QuantumMetric_ab, DerQuantumMetric_ab_d=F.DerQuantumMetric_ab_d, VelDQM=F.VelDQM,
              tildeFc=B.tildeFc, tildeFc_d=B.tildeFc_d)
    nonadd = {"Morb_H", "Morb_Hpm", "morb", "DerMorb_H", "DerMorb", "Dermorb", "Der2Morb_H", "Der2Morb", "Der2morb", "tildeHGc", "tildeHGc_d", "Der_morb"}
    for n, c in ie.items():
        for ext in (False, True):
            add(n, f"{n}(external_terms={ext})", (lambda d, c=c, ext=ext: c(d, external_terms=ext)), nonadditive=n in nonadd)
    add("Morb_Hpm", "Morb_Hpm(sign=0,external_terms=True)", lambda d: F.Morb_Hpm(d, sign=0, external_terms=True), nonadditive=True)
    add("tildeFc", "tildeFc(FF_rotAA=True,external_terms=True)", lambda d: B.tildeFc(d, FF_rotAA=True, external_terms=True))
    for n, c in dict(tildeHGc=B.tildeHGc, tildeHGc_d=B.tildeHGc_d, Der_morb=B.Der_morb).items():
        for ext in (False, True):
            add(n, f"{n}(CCab_antisym=True,external_terms={ext})", (lambda d, c=c, ext=ext: c(d, CCab_antisym=True, external_terms=ext)), nonadditive=True)
    for n, c in dict(OmegaS=F.OmegaS, NLDrude_Z_spin=F.NLDrude_Z_spin).items():
        for ext in (False, True):
            add(n, f"{n}(external_terms={ext})", (lambda d, c=c, ext=ext: c(d, external_terms=ext)), spin=True)
    for typ, exts in (("simple", (False, True)), ("ryoo", (True,)), ("qiao", (True,))):
        for ext in exts:
            add("SpinVelocity", f"SpinVelocity({typ},external_terms={ext})", (lambda d, typ=typ, ext=ext: F.SpinVelocity(d, typ, external_terms=ext)), spin=True)
            add("SpinOmega", f"SpinOmega({typ},external_terms={ext})", (lambda d, typ=typ, ext=ext: F.SpinOmega(d, spin_current_type=typ, external_terms=ext)), spin=True)
            add("Formula_SHC", f"Formula_SHC({typ},external_terms={ext})", (lambda d, typ=typ, ext=ext: DY.Formula_SHC(d, SHC_type=typ, external_terms=ext)), kind="dyn", spin=True)
    add("Formula_dyn_ident", "Formula_dyn_ident", lambda d: DY.Formula_dyn_ident(d), kind="dyn")
    for ext in (False, True):
        add("Formula_OptCond", f"Formula_OptCond(external_terms={ext})", (lambda d, ext=ext: DY.Formula_OptCond(d, external_terms=ext)), kind="dyn")
        add("ShiftCurrentFormula", f"ShiftCurrentFormula(sc_eta=1/8,external_terms={ext})", (lambda d, ext=ext: DY.ShiftCurrentFormula(d, sc_eta=0.125, external_terms=ext)), kind="dyn")

        def inj_tr(obj):
            c = DY.InjectionCurrent(Efermi=np.array([0.0]), omega=np.array([1.0]))
            return c.transformTR, c.transformInv
        add("InjectionCurrent", f"InjectionCurrent/InjectionCurrentFormula(external_terms={ext})", (lambda d, ext=ext: DY.InjectionCurrentFormula(d, external_terms=ext)), kind="dyn", transforms=inj_tr)
        for cn, c in dict(Formula_SDCT_sea_I=SD.Formula_SDCT_sea_I, Formula_SDCT_sea_II=SD.Formula_SDCT_sea_II,
                          Formula_SDCT_surf_I=SD.Formula_SDCT_surf_I, Formula_SDCT_surf_II=SD.Formula_SDCT_surf_II).items():
            for sym in (True, False):
                add(cn, f"{cn}(sym={sym},external_terms={ext})", (lambda d, c=c, sym=sym, ext=ext: c(d, sym=sym, external_terms=ext)), kind="dyn")
    for sym in (True, False):
        add("Formula_SDCT_sea_I", f"Formula_SDCT_sea_I(sym={sym},S_terms=True,external_terms=True)", (lambda d, sym=sym: SD.Formula_SDCT_sea_I(d, sym=sym, S_terms=True, external_terms=True)), kind="dyn", spin=True)
        add("Formula_SDCT_surf_II", f"Formula_SDCT_surf_II(sym={sym},S_terms=True,external_terms=True)", (lambda d, sym=sym: SD.Formula_SDCT_surf_II(d, sym=sym, S_terms=True, external_terms=True)), kind="dyn", spin=True)
    return reg


def variant_tag(e):
    """the options that select a different code path of the class (sym / spin-current type), without internal/external switches"""
    opts = e["label"][len(e["name"]):].strip("()").split(",")
    keep = [o for o in opts if o and not o.startswith(("external_terms", "S_terms", "sc_eta", "CCab_antisym", "FF_rotAA"))]
    return (":" + ",".join(keep)) if keep else ""


def tdesc(t):
    """Transform (or None) -> JSON-able [factor, conj, axes-string]"""
    if t is None:
        return dict(factor=0, conj=False, axes="")
    ax = "" if t.transpose_axes is None else "".join(str(int(a)) for a in t.transpose_axes)
    if getattr(t, "swap_axes", None) is not None:
        ax = "swap" + "".join(str(int(a)) for a in t.swap_axes)
    return dict(factor=int(t.factor), conj=bool(t.conj), axes=ax)


def tdesc_state(t):
    return dict(factor=t["factor"], conj=t["conj"], axes="".join(str(a) for a in t["axes"]))


def get_transforms(entry, obj):
    if entry["transforms"] is not None:
        return entry["transforms"](obj)
    return obj.transformTR, obj.transformInv


def datak(system, k):
    import wannierberri as wb
    from wannierberri.data_K import get_data_k_class_from_system
    with quiet():
        grid = wb.Grid(system=system, NK=1, NKFFT=1)
        return get_data_k_class_from_system(system)(system, grid=grid, dK=np.array(k, dtype=float))


def groups_for(nb, degenerate):
    """band groups on which values are compared: (label, inn)"""
    gs = []
    if degenerate:
        for g in range(nb // 2):
            gs.append(("pair", np.arange(2 * g, 2 * g + 2)))
        gs.append(("sea", np.arange(0, 2)) if nb > 2 else ("all", np.arange(nb)))
        if nb >= 4:
            gs.append(("sea", np.arange(0, 4)))
    else:
        for n in range(nb):
            gs.append(("band", np.array([n])))
        for n in range(nb - 1):
            gs.append(("block", np.array([n, n + 1])))
        for n in range(1, nb):
            gs.append(("sea", np.arange(0, n)))
    return gs


def values(entry, obj, nb, degenerate):
    """-> list of (label, array with a leading axis of length 1)"""
    out = []
    allb = np.arange(nb)
    gs = groups_for(nb, degenerate)
    if entry["kind"] == "ln":
        for lab, inn in gs:
            v = obj.trace(0, inn, np.setdiff1d(allb, inn))
            out.append((f"{lab}{inn.tolist()}", np.array(v, dtype=float).reshape((1,) + np.shape(v))))
    else:
        base = [g for g in gs if g[0] in ("band", "pair")]
        for l1, i1 in base:
            for l2, i2 in base:
                v = obj.trace_ln(0, i1, i2)
                out.append((f"{l1}{i1.tolist()}x{i2.tolist()}", np.array(v).reshape((1,) + np.shape(v))))
    return out


def classify(t, v1, v2):
    """sign s with v2 = s * P(v1), P = conj/transposition part of t; returns (+1 | -1 | 0 = too small | None = neither, deviation, scale)"""
    from wannierberri.symmetry.point_symmetry import Transform
    P = Transform(factor=1, conj=t.conj, transpose_axes=t.transpose_axes)
    e = P(np.array(v1).copy())
    scale = max(1.0, float(np.abs(v1).max()), float(np.abs(v2).max()))
    dp = float(np.abs(v2 - e).max())
    dm = float(np.abs(v2 + e).max())
    big = max(float(np.abs(v1).max()), float(np.abs(v2).max())) > 1e-4 * scale
    if not big:
        return (0, min(dp, dm), scale) if min(dp, dm) <= TOL * scale else (None, min(dp, dm), scale)
    if dp <= TOL * scale:
        return 1, dp, scale
    if dm <= TOL * scale:
        return -1, dm, scale
    return None, min(dp, dm), scale


def check(pid, tier):
    rep = Report(pid, tier, "exploration")
    thorough = tier == "thorough"
    rng = random.Random(seed() * 7907 + 8)
    import warnings
    warnings.filterwarnings("ignore")
    from . import kmodels as km
    rep.rule("one TLC state per catalogued formula (56); a case = one real formula object (class x variant of its options) whose declared "
             "(factor, conj, transpose_axes) is compared exactly with the state, or one (formula variant, symmetric random model, k-point, band group) "
             "where value(-k) is compared with the declared transformation of value(k); distinct by (label, model seed, k, group)")
    rep.assume(f"numeric part: k-points with a gap between different multiplets below {MINGAP} are excluded (NonDegenerateK); data are dyadic rationals")

    # ------------------------------------------------------------ spec
    st = ftable.enumerate_states("MC_ParityAlg.tla", cfg(), "c08_parity")
    ftable.spec_violation(rep, st, "c08_parity")
    rep.add_tlc("c08_parity", st)
    mism = tlc.printed(st["output"], "TABLE_MISMATCH")
    rep.part("c08_parity", get_transform_table_entries_not_matching_physical_parity=mism,
             note="observation only: these names are never consumed through covariant() by a calculator's final formula")
    for mu in (("DerOmega", "VelSpin", "Formula_OptCond", "emcha_surf") if thorough else ("VelSpin",)):
        sv = tlc.run_tlc("MC_ParityAlg.tla", cfg(mu), f"c08_mut_{mu}", timeout=900)
        if not sv.get("violation"):
            raise MachineryError(f"sensitivity self-test failed: flipped declaration of {mu} accepted ({sv.get('error')})")
        rep.part(f"c08_sensitivity_{mu}", violated=sv["violation"][1])
    table = {s["f"]: s for s in ftable.dump_states(st)}
    if len(table) != st["distinct"] or len(table) < 50:
        raise MachineryError(f"dump has {len(table)} states, TLC reported {st['distinct']}")

    # ------------------------------------------------------------ spec -> code (exact): declarations of the real objects
    reg = registry()
    missing = set(table) - {e["name"] for e in reg}
    if missing:
        raise MachineryError(f"catalogue entries without a real constructor: {sorted(missing)}")
    unknown = {e["name"] for e in reg} - set(table)
    if unknown:
        raise MachineryError(f"registry entries missing in the catalogue: {sorted(unknown)}")
    mdecl = km.build(4242, nw=2, keys=ALLKEYS, spinful=True)
    dk0 = datak(mdecl.system(), [0.171875, 0.296875, 0])
    recs = []
    for e in reg:
        with quiet():
            obj = e["make"](dk0)
        tTR, tInv = get_transforms(e, obj)
        got = dict(tr=tdesc(tTR), inv=tdesc(tInv))
        s = table[e["name"]]
        exp = dict(tr=tdesc_state(s["dTR"]), inv=tdesc_state(s["dInv"]))
        rep.case(("decl", e["label"]))
        if s["kind"] != e["kind"]:
            raise MachineryError(f"kind mismatch for {e['name']}")
        if got != exp:
            rep.violation(f"declared_transform:{e['name']}", dict(formula=e["label"], expected=exp, got=got))
        recs.append(dict(kind="decl", name=e["name"], label=e["label"], **got))
    rep.sample(recs[0])
    # data_K.covariant declarations
    for name in ("Ham", "SS", "CC", "OO", "FF", "GG", "rotAA", "rotAAab", "CCab_antisym", "AA", "BB"):
        for cd, gd in ((0, 0), (1, 0), (2, 0), (3, 0), (0, 1)):
            if name != "Ham" and cd == 3:
                continue
            c = dk0.covariant(name, commader=cd, gender=gd, save=False)
            recs.append(dict(kind="cov", name=name, commader=cd, gender=gd, tr=tdesc(getattr(c, "transformTR", None)), inv=tdesc(getattr(c, "transformInv", None))))
            rep.case(("cov", name, cd, gd))

    # ------------------------------------------------------------ numeric: value(-k) vs declared transform of value(k)
    nseeds = 4 if thorough else 1
    nk = 3 if thorough else 1
    modes = [("TR", False, False), ("TR", True, False), ("Inv", False, False), ("Inv", True, False), ("TR", False, True), ("Inv", False, True)]
    signs = {}
    failed = set()
    nclass = dict(plus=0, minus=0, small=0)
    worst = 0.0
    for sym, spinful, doubled in modes:
        for isd in range(nseeds):
            sd = rng.randrange(1 << 30)
            keys = ALLKEYS if spinful else NOSPIN_KEYS
            m = km.build(sd, nw=2 if spinful else 3, keys=keys, spinful=spinful, tr=(sym == "TR"), inv=(sym == "Inv"))
            system = m.system()
            if doubled:
                system.double_spin()
            nb = system.num_wann
            r = np.random.RandomState(rng.randrange(1 << 30))
            done = 0
            for _ in range(40):
                if done >= nk:
                    break
                k = km.generic_k(r, dim=2)
                if km.min_gap(m, k) < MINGAP:   # NonDegenerateK (of the undoubled model)
                    continue
                done += 1
                d1, d2 = datak(system, k), datak(system, -k)
                if np.abs(d1.E_K - d2.E_K).max() > 1e-9:
                    raise MachineryError(f"model is not {sym}-symmetric: E(k) != E(-k)")
                for e in reg:
                    if e["spin"] and not spinful:
                        continue
                    with quiet():
                        o1, o2 = e["make"](d1), e["make"](d2)
                        vals1, vals2 = values(e, o1, nb, doubled), values(e, o2, nb, doubled)
                    t = get_transforms(e, o1)[0 if sym == "TR" else 1]
                    for (lab, v1), (_, v2) in zip(vals1, vals2):
                        s, dev, scale = classify(t, v1, v2)
                        modelname = f"{sym}{'_spinful' if spinful else ''}{'_doubled' if doubled else ''}"
                        rep.case(("num", e["label"], modelname, sd, tuple(k), lab), nontrivial=bool(s))
                        if s is None or (s != 0 and s != t.factor):
                            variant = variant_tag(e)
                            failed.add((e["label"], sym))
                            rep.violation(f"parity_numeric:{sym}:{e['name']}{variant}",
                                          dict(formula=e["label"], symmetry=sym, model=m.dump(), doubled=doubled, k=k.tolist(), group=lab,
                                               declared=tdesc(t), value_at_k=np.array(v1)[0].tolist() if np.isrealobj(v1) else str(np.array(v1)[0].tolist()),
                                               value_at_minus_k=np.array(v2)[0].tolist() if np.isrealobj(v2) else str(np.array(v2)[0].tolist()),
                                               measured_sign=s, deviation=dev, tolerance=TOL * scale))
                        if s == 0:
                            nclass["small"] += 1
                        elif s is not None:
                            nclass["plus" if s > 0 else "minus"] += 1
                            worst = max(worst, dev / scale)
                            signs.setdefault((e["name"], e["label"], sym), set()).add(s)
                if done == 1 and isd == 0:
                    rep.sample(dict(fn="value(-k) vs T(value(k))", symmetry=sym, spinful=spinful, doubled=doubled, model_seed=sd, k=k.tolist()))
            if done < nk:
                raise MachineryError("no non-degenerate k-point found")
    rep.part("numeric_only", classified=nclass, max_relative_deviation=worst, tolerance=TOL)
    # every formula variant must have been measured with a definite sign under both symmetries
    unmeasured = [(e["label"], sym) for e in reg for sym in ("TR", "Inv") if (e["name"], e["label"], sym) not in signs and e["name"] not in ("Identity", "Formula_dyn_ident") ]
    unmeasured = [u for u in unmeasured if u not in failed]
    if unmeasured:
        raise MachineryError(f"vacuous: no significant value measured for {unmeasured[:6]}")
    for (name, label, sym), ss in sorted(signs.items()):
        for s in sorted(ss):
            recs.append(dict(kind="sign", name=name, label=label, sym=sym, sign=int(s)))

    # ------------------------------------------------------------ code -> spec
    stv, bad = ftable.validate_records("ParityAlgRec.tla", ftable.REC_CFG, recs, "c08")
    rep.add_tlc("c08_records", stv)
    rep.add_traces(len(recs))
    for i, clauses in bad.items():
        r = recs[i]
        rep.violation(f"recorded_{r['kind']}:{r['name']}:{clauses[0]}", dict(record=r, failing_clauses=clauses))
    # binding self-test
    b1 = copy.deepcopy([r for r in recs if r["kind"] == "decl" and r["name"] == "DerOmega"][:1])
    b1[0]["inv"]["factor"] = 1
    b2 = copy.deepcopy([r for r in recs if r["kind"] == "sign" and r["name"] == "Omega" and r["sym"] == "TR"][:1])
    if not b1 or not b2:
        raise MachineryError("self-test records missing")
    b2[0]["sign"] = 1
    b3 = copy.deepcopy([r for r in recs if r["kind"] == "cov" and r["name"] == "SS" and r["commader"] == 1][:1])
    b3[0]["tr"]["factor"] = -1
    _, bb = ftable.validate_records("ParityAlgRec.tla", ftable.REC_CFG, b1 + b2 + b3, "c08_selftest")
    if set(bb) != {0, 1, 2}:
        raise MachineryError(f"binding self-test failed: corrupted records accepted ({bb})")
    rep.part("binding_selftest", corrupted_records_rejected={str(k): v for k, v in bb.items()})
    return rep.finish()
