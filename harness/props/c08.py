"""C08: declared time-reversal and inversion parities match computed values.

spec  : ParityAlg.tla - (1) transcription of how the code arrives at every formula's transformTR / transformInv
        (constants, get_transform_TR/Inv, TransformProduct, FormulaSum, DeltaProduct, calculator overrides),
        (2) independent derivation of the required transformation from the composition of the quantity out of
        H, S, A, d/dk, real and imaginary products, pair tensors, Onsager; MC_ParityAlg: one state per formula,
        Declared = Derived, derivative / product / involution laws; mutated declarations must be rejected.
bind  : exact - every TLC state is replayed on the real formula classes instantiated on a real Data_K (all variants of
        internal/external terms, spin-current types, SDCT parts).  A declaration is compared BY ITS EFFECT on a generic probe
        tensor of the formula's rank (complex probe for the complex pair formulas, real probe for real band traces), not by
        the attribute values of the Transform object; the same for the transformation every DynamicCalculator attaches to its
        result (calculator-level overrides).  The effects, the data_K.covariant() declarations that catalogued formulas
        consume (Ham, SS) and the *measured* signs are recorded and validated by TLC (ParityAlgRec.tla).
num   : value at -k versus declared transformation of the value at k on time-reversal symmetric (spinless real and
        spinful, T = i sigma_y K) and inversion-symmetrised random models with all external-term matrices, per band,
        per block of bands, per degenerate pair (doubled models), sea x rest blocks for the pair formulas; the complex
        result of every DynamicCalculator at -k versus the declared transformation of its result at k; formula classes
        that are not in the catalogue are found by introspection and measured against their own declaration;
        tolerance 1e-8 x scale; the comparison is reduced to a sign in {+1, -1} which is then an exact datum checked by TLC.
"""
import copy
import inspect
import itertools
import os
import random
import numpy as np

from .. import tlc, ftable
from ..common import Report, MachineryError, seed, quiet

PROPS = {
    "C08": dict(level="exploration",
                technique="TLC on ParityAlg.tla (code's declaration mechanism transcribed vs parities derived from the physical composition of each formula; product/derivative/involution laws) + replay of the declaration table on the real formula objects and dynamic calculators (effect of the declared Transform on a probe tensor) + TLC validation of recorded declarations and of signs measured at k / -k on symmetric random models",
                text="TLC decides for every catalogued formula (56 names + 8 nested products of products / sums / delta products of formula/covariant.py, basic.py, elementary.py, sdct.py, calculators/dynamic.py; ~110 option variants) which "
                     "transformation under time reversal and inversion its composition requires and that the code's way of declaring it yields exactly that; the effect of the real objects' "
                     "declared transformTR/transformInv on a probe tensor is compared exactly with the table (also for the transformation that each DynamicCalculator attaches to its result), "
                     "and the value of every formula variant at -k is compared with the declared transformation of its value at k on symmetric random models (floating point, 1e-8), as is the "
                     "complex result of every DynamicCalculator. Formula classes outside the catalogue are found by introspection and measured against their own declaration. "
                     "quick: 1 model and 1 k-point per symmetry mode (6 modes, one of them three-dimensional); thorough: 4 models x 3 k-points.",
                note="spec decides: the declaration table (exact, discrete) and the algebra (derivative flips both parities, products multiply, imaginary products flip TR, pair tensors "
                     "transpose, all transforms are involutions). implementation-vs-implementation numerics: value(-k) against the declared transform of value(k) on TR-symmetric and "
                     "inversion-symmetric random dyadic models; the floating comparison only classifies a sign; a wrong or undefined sign is a violation of the float comparison itself, the signs "
                     "that pass are then checked by TLC against the derived table. Identity and Formula_dyn_ident (constants) are exempt from the 'measured with a definite sign' requirement. "
                     "Mixed-parity intermediate tensors (tildeHab, tildeHab_d, ... : measured, reported in part 'intermediate_formulas', never a violation) and entries of "
                     "get_transform_TR/Inv that no catalogued formula consumes (FF, GG, rotAA, ...: part 'covariant_table_observation') are outside the property; "
                     "spin Hall types ryoo/qiao exist only with external terms. Known finding Formula_SDCT_surf_II(sym=False): the declaration (odd_trans_102) agrees with the derivation of "
                     "the specification; it is the VALUE that is wrong (the formula antisymmetrises axes (b,c) instead of (a,b) because swapaxes(3,4) is written for two band indices "
                     "while this class has one) - so TLC accepts the declaration and the float comparison reports the value.",
                ref="DESIGN.md 3.3 (ParityAlg), 5 (row C08), 2.3"),
}

TAG = f"_p{os.getpid()}"
TOL = 1e-8
MINGAP = 0.05
INVS = ("DeclaredWellFormed", "DeclaredMatchesDerived", "ConsistentSums", "DerivativeFlips", "ProductsMultiply", "DeclaredInvolutions", "AllClassesPresent")
ALLKEYS = ("Ham", "AA", "BB", "CC", "FF", "GG", "OO", "SS", "SH", "SA", "SHA", "SR", "SHR")
NOSPIN_KEYS = ("Ham", "AA", "BB", "CC", "FF", "GG", "OO")
# formula classes that carry a declaration but are mixed-parity intermediates, never the final formula of a calculator
INTERMEDIATE = {"tildeFab", "tildeFab_d", "tildeHab", "tildeHGab", "tildeHab_d", "tildeHGab_d"}
COV_CONSUMED = ("Ham", "SS")            # names that catalogued formulas take their declaration from (Same(Cov(...)))
COV_OBSERVED = ("CC", "OO", "FF", "GG", "rotAA", "rotAAab", "CCab_antisym", "AA", "BB")


def cfg(mutate=""):
    return "SPECIFICATION Spec\nCONSTANTS\n  Mutate = \"%s\"\n" % mutate + "".join(f"INVARIANT {i}\n" for i in INVS) + "CHECK_DEADLOCK FALSE\n"


def lib_raised(ex):
    """-> "module.function" if the exception was raised inside wannierberri (a violation), None if by the harness's own call"""
    from ..main import raised_by_code_under_test
    return raised_by_code_under_test(ex)


# ------------------------------------------------------------------------------------------------ registry
def _modules():
    from wannierberri.formula import covariant as F
    from wannierberri.formula import basic as B
    from wannierberri.formula import elementary as EL
    from wannierberri.formula import sdct as SD
    from wannierberri.calculators import dynamic as DY
    return dict(F=F, B=B, EL=EL, SD=SD, DY=DY)


def registry(skipped=None):
    """-> list of dict(name (catalogue key), label, cls, make(data_K) -> object carrying transformTR/transformInv and the values,
    kind 'ln' | 'dyn', spin (needs SS), transforms(obj) -> (tTR, tInv)).  Classes that do not exist (any more) are skipped."""
    mods = _modules()
    DY = mods["DY"]
    skipped = {} if skipped is None else skipped
    reg = []

    def add(name, label, mod, build, kind="ln", spin=False, transforms=None, nonadditive=False, clsname=None):
        c = getattr(mods[mod], clsname or name, None)
        if c is None:
            skipped[label] = f"class {clsname or name} not found in {mods[mod].__name__}"
            return
        reg.append(dict(name=name, label=label, cls=c, make=(lambda d, c=c, build=build: build(c, d)), kind=kind, spin=spin, transforms=transforms,
                        nonadditive=nonadditive))
    for n, mod in dict(Identity="F", Eavln="EL", Hamiltonian="F", InvMass="EL", DerWln="EL", Der3E="F", VelVel="F", VelVelVel="F", MassVel="F",
                       MassMass="F", VelMassVel="F").items():
        add(n, n, mod, lambda c, d: c(d))
    for ext in (False, True):
        add("Velocity", f"Velocity(external_terms={ext})", "F", lambda c, d, ext=ext: c(d, external_terms=ext))
    for n in ("Spin", "DerSpin", "Der2Spin", "VelSpin"):
        add(n, n, "F", lambda c, d: c(d), spin=True)
    ie = dict(Omega="F", DerOmega="F", Der2Omega="F", Morb_H="F", Morb_Hpm="F", morb="F", DerMorb_H="F", DerMorb="F", Dermorb="F", Der2Morb_H="F",
              Der2Morb="F", Der2morb="F", VelOmega="F", VelHplus="F", OmegaOmega="F", OmegaHplus="F", emcha_surf="F", NLDrude_Z_orb_Hplus="F",
              NLDrude_Z_orb_Omega="F", QuantumMetric_ab="F", DerQuantumMetric_ab_d="F", VelDQM="F", tildeFc="B", tildeFc_d="B")
    nonadd = {"Morb_H", "Morb_Hpm", "morb", "DerMorb_H", "DerMorb", "Dermorb", "Der2Morb_H", "Der2Morb", "Der2morb", "tildeHGc", "tildeHGc_d", "Der_morb"}
    for n, mod in ie.items():
        for ext in (False, True):
            add(n, f"{n}(external_terms={ext})", mod, lambda c, d, ext=ext: c(d, external_terms=ext), nonadditive=n in nonadd)
    add("Morb_Hpm", "Morb_Hpm(sign=0,external_terms=True)", "F", lambda c, d: c(d, sign=0, external_terms=True), nonadditive=True)
    add("tildeFc", "tildeFc(FF_rotAA=True,external_terms=True)", "B", lambda c, d: c(d, FF_rotAA=True, external_terms=True))
    for n in ("tildeHGc", "tildeHGc_d", "Der_morb"):
        for ext in (False, True):
            add(n, f"{n}(CCab_antisym=True,external_terms={ext})", "B", lambda c, d, ext=ext: c(d, CCab_antisym=True, external_terms=ext), nonadditive=True)
    for n in ("OmegaS", "NLDrude_Z_spin"):
        for ext in (False, True):
            add(n, f"{n}(external_terms={ext})", "F", lambda c, d, ext=ext: c(d, external_terms=ext), spin=True)
    for typ, exts in (("simple", (False, True)), ("ryoo", (True,)), ("qiao", (True,))):
        for ext in exts:
            add("SpinVelocity", f"SpinVelocity({typ},external_terms={ext})", "F", lambda c, d, typ=typ, ext=ext: c(d, typ, external_terms=ext), spin=True)
            add("SpinOmega", f"SpinOmega({typ},external_terms={ext})", "F", lambda c, d, typ=typ, ext=ext: c(d, spin_current_type=typ, external_terms=ext), spin=True)
            add("Formula_SHC", f"Formula_SHC({typ},external_terms={ext})", "DY", lambda c, d, typ=typ, ext=ext: c(d, SHC_type=typ, external_terms=ext), kind="dyn", spin=True)
    add("Formula_dyn_ident", "Formula_dyn_ident", "DY", lambda c, d: c(d), kind="dyn")
    for ext in (False, True):
        add("Formula_OptCond", f"Formula_OptCond(external_terms={ext})", "DY", lambda c, d, ext=ext: c(d, external_terms=ext), kind="dyn")
        add("ShiftCurrentFormula", f"ShiftCurrentFormula(sc_eta=1/8,external_terms={ext})", "DY", lambda c, d, ext=ext: c(d, sc_eta=0.125, external_terms=ext), kind="dyn")

        def inj_tr(obj):
            c = DY.InjectionCurrent(Efermi=np.array([0.0]), omega=np.array([1.0]))
            return c.transformTR, c.transformInv
        add("InjectionCurrent", f"InjectionCurrent/InjectionCurrentFormula(external_terms={ext})", "DY", lambda c, d, ext=ext: c(d, external_terms=ext), kind="dyn",
            transforms=inj_tr, clsname="InjectionCurrentFormula")
        for cn in ("Formula_SDCT_sea_I", "Formula_SDCT_sea_II", "Formula_SDCT_surf_I", "Formula_SDCT_surf_II"):
            for sym in (True, False):
                add(cn, f"{cn}(sym={sym},external_terms={ext})", "SD", lambda c, d, sym=sym, ext=ext: c(d, sym=sym, external_terms=ext), kind="dyn")
    for sym in (True, False):
        add("Formula_SDCT_sea_I", f"Formula_SDCT_sea_I(sym={sym},S_terms=True,external_terms=True)", "SD",
            lambda c, d, sym=sym: c(d, sym=sym, S_terms=True, external_terms=True), kind="dyn", spin=True)
        add("Formula_SDCT_surf_II", f"Formula_SDCT_surf_II(sym={sym},S_terms=True,external_terms=True)", "SD",
            lambda c, d, sym=sym: c(d, sym=sym, S_terms=True, external_terms=True), kind="dyn", spin=True)
    # nested compositions: products whose factors are themselves products / sums / delta products (spec: ParityAlg.Nested)
    F = mods["F"]
    try:
        from wannierberri.formula.formula import FormulaProduct, FormulaSum, DeltaProduct
    except ImportError as ex:
        skipped["nested_products"] = f"{ex}"
        return reg

    def nested(name, build):
        reg.append(dict(name=name, label=name, cls=None, make=(lambda d, build=build: build(d)), kind="ln", spin=False, transforms=None, nonadditive=False, nested=True))
    nested("N_MassVel_Vel", lambda d: FormulaProduct([F.MassVel(d), F.Velocity(d)]))
    nested("N_VelVelVel_Vel", lambda d: FormulaProduct([F.VelVelVel(d), F.Velocity(d)]))
    nested("N_MassVel_Omega", lambda d: FormulaProduct([F.MassVel(d), F.Omega(d)]))
    nested("N_VelVel_Vel", lambda d: FormulaProduct([F.VelVel(d), F.Velocity(d)]))
    nested("N_VelVel_MassVel", lambda d: FormulaProduct([F.VelVel(d), F.MassVel(d)]))
    nested("N_Sum_Vel", lambda d: FormulaProduct([FormulaSum([F.MassVel(d), F.MassVel(d)], [1, 1], ["abc", "acb"]), F.Velocity(d)]))
    nested("N_Delta_Omega", lambda d: FormulaProduct([DeltaProduct(np.eye(3), F.MassVel(d), "ae,MNebc->MNabc"), F.Omega(d)]))
    nested("N_MassVelVel_Vel", lambda d: FormulaProduct([FormulaProduct([F.MassVel(d), F.Velocity(d)]), F.Velocity(d)]))
    return reg


def unlisted_formulas(reg):
    """formula classes of the package that are not in the registry and can be built from a Data_K alone (by introspection)
    -> list of registry-like entries (name = class name, label)"""
    from wannierberri.formula import Formula
    known = {e["cls"] for e in reg}
    out = []
    for mod in _modules().values():
        for n, c in sorted(vars(mod).items()):
            if not (inspect.isclass(c) and issubclass(c, Formula) and c.__module__ == mod.__name__) or c in known or n.startswith("_") or inspect.isabstract(c):
                continue
            out.append(dict(name=n, label=n, cls=c, kind=None, spin=False, transforms=None, nonadditive=False, unlisted=True,
                            make=(lambda d, c=c: build_any(c, d))))
    return out


def build_any(c, d):
    """try the constructor signatures that formula classes have"""
    last = None
    for kw in ({}, dict(external_terms=True), dict(sym=True), dict(sym=True, external_terms=True)):
        try:
            with quiet():
                return c(d, **kw)
        except TypeError as ex:
            last = ex
    raise last


def variant_tag(e):
    """the options that select a different code path of the class (sym / spin-current type), without internal/external switches"""
    opts = e["label"][len(e["name"]):].strip("()").split(",")
    keep = [o for o in opts if o and not o.startswith(("external_terms", "S_terms", "sc_eta", "CCab_antisym", "FF_rotAA", "/"))]
    return (":" + ",".join(keep)) if keep else ""


# ------------------------------------------------------------------------------------------------ transforms by effect
def apply_T(t, arr):
    """Transform.__call__ on a copy (works for an in-place implementation and for one returning a new array)"""
    a = np.array(arr, copy=True)
    out = t(a)
    return a if out is None else np.asarray(out)


def canon_axes(perm):
    perm = list(perm)
    while perm and perm[0] == 0:
        perm = [a - 1 for a in perm[1:]]
    return "".join(str(a) for a in perm)


def effect_desc(t, nd, cplx):
    """(factor, conj, axes) of a Transform BY ITS EFFECT on a generic probe tensor of rank nd with one leading axis;
    axes = the permutation as transpose_axes with leading fixed axes stripped ("10" = last two axes exchanged).
    factor 0 = None (no declaration), factor 2 = cannot be applied / is not a signed (conjugating) permutation."""
    if t is None:
        return dict(factor=0, conj=False, axes="")
    shape = (2,) + (3,) * nd
    N = int(np.prod(shape))
    X = np.arange(1, N + 1, dtype=float).reshape(shape)
    if cplx:
        X = X + 1j * (1000 + np.arange(1, N + 1, dtype=float).reshape(shape))
    try:
        Y = apply_T(t, X)
    except Exception:  # noqa
        return dict(factor=2, conj=False, axes="err")
    for perm in itertools.permutations(range(nd)):
        Z0 = X.transpose((0,) + tuple(1 + p for p in perm))
        for cj in ((False, True) if cplx else (False,)):
            Z1 = Z0.conj() if cj else Z0
            for f in (1, -1):
                if Y.shape == Z1.shape and np.array_equal(Y, f * Z1):
                    return dict(factor=f, conj=cj, axes=canon_axes(perm))
    return dict(factor=2, conj=False, axes="err")


def table_desc(t, cplx):
    """the specification's transform [factor, conj, axes] -> the same canonical form"""
    return dict(factor=t["factor"], conj=bool(t["conj"]) and cplx, axes=canon_axes(t["axes"]))


def tdesc_state(t):
    return dict(factor=t["factor"], conj=t["conj"], axes="".join(str(a) for a in t["axes"]))


def get_transforms(entry, obj):
    if entry["transforms"] is not None:
        return entry["transforms"](obj)
    return obj.transformTR, obj.transformInv


def datak(system, k):
    import wannierberri as wb
    from wannierberri.data_K import get_data_k_class_from_system
    with quiet():
        grid = wb.Grid(system=system, NK=1, NKFFT=1)
        return get_data_k_class_from_system(system)(system, grid=grid, dK=np.array(k, dtype=float))


def groups_for(nb, degenerate):
    """band groups on which values are compared: (label, inn)"""
    gs = []
    if degenerate:
        for g in range(nb // 2):
            gs.append(("pair", np.arange(2 * g, 2 * g + 2)))
        gs.append(("sea", np.arange(0, 2)) if nb > 2 else ("all", np.arange(nb)))
        if nb >= 4:
            gs.append(("sea", np.arange(0, 4)))
    else:
        for n in range(nb):
            gs.append(("band", np.array([n])))
        for n in range(nb - 1):
            gs.append(("block", np.array([n, n + 1])))
        for n in range(1, nb):
            gs.append(("sea", np.arange(0, n)))
    return gs


def kind_of(obj):
    return "ln" if hasattr(obj, "trace") and hasattr(obj, "nn") else "dyn"


def values(entry, obj, nb, degenerate):
    """-> list of (label, array with a leading axis of length 1)"""
    out = []
    allb = np.arange(nb)
    gs = groups_for(nb, degenerate)
    kind = entry["kind"] or kind_of(obj)
    if kind == "ln":
        for lab, inn in gs:
            v = obj.trace(0, inn, np.setdiff1d(allb, inn))
            out.append((f"{lab}{inn.tolist()}", np.array(v, dtype=float).reshape((1,) + np.shape(v))))
    else:
        base = [g for g in gs if g[0] in ("band", "pair")]
        for l1, i1 in base:
            for l2, i2 in base:
                v = obj.trace_ln(0, i1, i2)
                out.append((f"{l1}{i1.tolist()}x{i2.tolist()}", np.array(v).reshape((1,) + np.shape(v))))
        # occupied block x empty block (what a dynamic calculator sums at T = 0) and the reverse
        for lab, sea in gs:
            if lab != "sea" or len(sea) == nb:
                continue
            rest = np.setdiff1d(allb, sea)
            for a, b, nm in ((sea, rest, "sea_x_rest"), (rest, sea, "rest_x_sea")):
                v = obj.trace_ln(0, a, b)
                out.append((f"{nm}{a.tolist()}x{b.tolist()}", np.array(v).reshape((1,) + np.shape(v))))
    return out


def classify(t, v1, v2, relative=False):
    """sign s with v2 = s * P(v1), P = conj/transposition part of t (found by effect: P = factor x t);
    returns (+1 | -1 | 0 = too small | None = neither, deviation, scale, declared factor by effect)"""
    v1, v2 = np.asarray(v1), np.asarray(v2)
    d = effect_desc(t, v1.ndim - 1, np.iscomplexobj(v1))
    if d["factor"] not in (1, -1):
        return None, float("inf"), 1.0, d["factor"]
    e = d["factor"] * apply_T(t, v1)
    big0 = max(float(np.abs(v1).max()), float(np.abs(v2).max()))
    scale = big0 if relative else max(1.0, big0)
    dp = float(np.abs(v2 - e).max())
    dm = float(np.abs(v2 + e).max())
    big = big0 > (1e-200 if relative else 1e-4 * scale)
    if not big:
        return ((0, min(dp, dm), scale, d["factor"]) if min(dp, dm) <= TOL * max(scale, 1e-300) else (None, min(dp, dm), scale, d["factor"]))
    if dp <= TOL * scale:
        return 1, dp, scale, d["factor"]
    if dm <= TOL * scale:
        return -1, dm, scale, d["factor"]
    return None, min(dp, dm), scale, d["factor"]


# ------------------------------------------------------------------------------------------------ dynamic calculators
FORMULA_NAME = {"InjectionCurrentFormula": "InjectionCurrent"}


def dynamic_calculators(skipped):
    """every concrete DynamicCalculator subclass of calculators/dynamic.py and calculators/sdct.py -> (name, class)"""
    out = []
    try:
        from wannierberri.calculators import dynamic as DY
        mods = [DY]
        try:
            from wannierberri.calculators import sdct as SC
            mods.append(SC)
        except ImportError:
            pass
        for mod in mods:
            for n, c in sorted(vars(mod).items()):
                if inspect.isclass(c) and issubclass(c, DY.DynamicCalculator) and c.__module__ == mod.__name__ and not inspect.isabstract(c) and not n.startswith("_"):
                    out.append((n, c))
    except Exception as ex:  # noqa
        skipped["dynamic_calculators"] = f"{type(ex).__name__}: {ex}"[:200]
    return out


def make_calculator(c, Ef, om):
    """instantiate with the documented arguments; a few classes need one more"""
    kw = dict(Efermi=Ef, omega=om, kBT=0.1, smr_fixed_width=0.3)
    last = None
    for extra in ({}, dict(sc_eta=0.125)):
        try:
            return c(**kw, **extra)
        except TypeError as ex:
            last = ex
    raise last


def calculator_variant(calc):
    kf = dict(getattr(calc, "kwargs_formula", {}) or {})
    keep = []
    if "sym" in kf:
        keep.append(f"sym={kf['sym']}")
    if "SHC_type" in kf:
        keep.append(str(kf["SHC_type"]))
    return (":" + ",".join(keep)) if keep else ""


# ------------------------------------------------------------------------------------------------ check
def check(pid, tier):
    rep = Report(pid, tier, "exploration")
    try:
        rc = _check(rep, tier)
    except Exception:
        if rep.violations:          # never lose what was already found
            rep.finish()
        raise
    if rc == 0:
        cleanup()
    return rc


def cleanup():
    """remove this process's TLC / record scratch directories (kept when something was reported, for inspection)"""
    import glob
    import shutil
    from ..common import WORK
    for d in glob.glob(os.path.join(WORK, "tlc", f"*{TAG}*")) + glob.glob(os.path.join(WORK, "records", f"*{TAG}*")):
        shutil.rmtree(d, ignore_errors=True)


def _check(rep, tier):
    thorough = tier == "thorough"
    rng = random.Random(seed() * 7907 + 8)
    import warnings
    warnings.filterwarnings("ignore")
    from . import kmodels as km
    rep.rule("one TLC state per catalogued formula (56) and per nested product (8); a case = one real formula object (class x variant of its options) or dynamic calculator whose declared "
             "transformation (by its effect on a probe tensor) is compared exactly with the state, or one (formula variant / calculator / unlisted formula class, symmetric random model, "
             "k-point, band group) where value(-k) is compared with the declared transformation of value(k); distinct by (label, model seed, k, group)")
    rep.assume(f"numeric part: k-points with a gap between different multiplets below {MINGAP} are excluded (NonDegenerateK); data are dyadic rationals")
    skipped = {}

    # ------------------------------------------------------------ spec
    st = ftable.enumerate_states("MC_ParityAlg.tla", cfg(), "c08_parity" + TAG, workers=4)
    ftable.spec_violation(rep, st, "c08_parity")
    rep.add_tlc("c08_parity", st)
    mism = tlc.printed(st["output"], "TABLE_MISMATCH")
    rep.part("c08_parity", get_transform_table_entries_not_matching_physical_parity=mism,
             note="observation only: these names are never consumed through covariant() by a calculator's final formula")
    for mu in (("DerOmega", "VelSpin", "Formula_OptCond", "emcha_surf", "@literal_only") if thorough else ("VelSpin", "@literal_only")):
        sv = tlc.run_tlc("MC_ParityAlg.tla", cfg(mu), f"c08_mut_{mu.strip('@')}{TAG}", workers=2, timeout=900)
        if not sv.get("violation"):
            raise MachineryError(f"sensitivity self-test failed: flipped declaration of {mu} accepted ({sv.get('error')})")
        rep.part(f"c08_sensitivity_{mu.strip('@')}", violated=sv["violation"][1])
    table = {s["f"]: s for s in ftable.dump_states(st)}
    if len(table) != st["distinct"] or len(table) < 50:
        raise MachineryError(f"dump has {len(table)} states, TLC reported {st['distinct']}")

    # ------------------------------------------------------------ spec -> code (exact): declarations of the real objects
    reg = registry(skipped)
    missing = set(table) - {e["name"] for e in reg}
    if missing:
        skipped["catalogue_entries_without_a_class"] = sorted(missing)
        if len(missing) > 5:
            raise MachineryError(f"too many catalogue entries without a real constructor: {sorted(missing)}")
    unknown = {e["name"] for e in reg} - set(table)
    if unknown:
        raise MachineryError(f"registry entries missing in the catalogue: {sorted(unknown)}")
    extra = unlisted_formulas(reg)
    mdecl = km.build(4242, nw=2, keys=ALLKEYS, spinful=True)
    dk0 = datak(mdecl.system(), [0.171875, 0.296875, 0])
    recs = []
    usable = []
    for e in reg:
        try:
            with quiet():
                obj = e["make"](dk0)
            tTR, tInv = get_transforms(e, obj)
        except Exception as ex:  # noqa
            site = lib_raised(ex)
            if site is None:          # the harness's way of calling the constructor does not exist any more
                skipped[e["label"]] = f"{type(ex).__name__}: {ex}"[:200]
            else:
                rep.violation(f"raises:{e['name']}:{type(ex).__name__}", dict(formula=e["label"], raised_in=site, error=f"{type(ex).__name__}: {ex}"[:300]))
            continue
        usable.append(e)
        s = table[e["name"]]
        cplx = e["kind"] == "dyn"
        nd = int(getattr(obj, "ndim", max(len(s["dTR"]["axes"]), len(s["dInv"]["axes"]))))
        got = dict(tr=effect_desc(tTR, nd, cplx), inv=effect_desc(tInv, nd, cplx))
        exp = dict(tr=table_desc(s["dTR"], cplx), inv=table_desc(s["dInv"], cplx))
        rep.case(("decl", e["label"]))
        if s["kind"] != e["kind"]:
            raise MachineryError(f"kind mismatch for {e['name']}")
        if got != exp:
            rep.violation(f"declared_transform:{e['name']}", dict(formula=e["label"], probe_rank=nd, expected_effect=exp, got_effect=got))
        # what TLC sees: the table's own notation when the effect is the same, the observed effect otherwise
        recs.append(dict(kind="decl", name=e["name"], label=e["label"],
                         tr=tdesc_state(s["dTR"]) if got["tr"] == exp["tr"] else got["tr"], inv=tdesc_state(s["dInv"]) if got["inv"] == exp["inv"] else got["inv"]))
    reg = usable
    if len(reg) < 80:
        raise MachineryError(f"only {len(reg)} formula variants could be built")
    rep.sample(recs[0])
    # data_K.covariant declarations: the names catalogued formulas consume are validated, the others are observed
    obs = {}
    for name in COV_CONSUMED + COV_OBSERVED:
        for cd, gd in ((0, 0), (1, 0), (2, 0), (3, 0), (0, 1)):
            if name != "Ham" and cd == 3:
                continue
            try:
                c = dk0.covariant(name, commader=cd, gender=gd, save=False)
                d = dict(tr=effect_desc(getattr(c, "transformTR", None), 1 + cd + gd, False), inv=effect_desc(getattr(c, "transformInv", None), 1 + cd + gd, False))
            except Exception as ex:  # noqa   private interface of Data_K
                if name in COV_CONSUMED:
                    skipped[f"covariant({name},{cd},{gd})"] = f"{type(ex).__name__}: {ex}"[:200]
                else:
                    obs[f"{name},{cd},{gd}"] = f"{type(ex).__name__}"
                continue
            if name in COV_CONSUMED:
                recs.append(dict(kind="cov", name=name, commader=cd, gender=gd, **d))
                rep.case(("cov", name, cd, gd))
            else:
                obs[f"{name},{cd},{gd}"] = [d["tr"]["factor"], d["inv"]["factor"]]
    rep.part("covariant_table_observation", note="[TR factor, inversion factor] (0 = none) of data_K.covariant(name, commader, gender) for names no catalogued formula consumes; not compared",
             **{k.replace(",", "_"): v for k, v in obs.items()})

    # ------------------------------------------------------------ TransformProduct of objects equal to, but not identical with, the module constants
    try:
        from wannierberri.symmetry import point_symmetry as ps
        mk = dict(ident=lambda: ps.transform_ident, odd=lambda: ps.transform_odd, odd_conj=lambda: ps.transform_odd_conj,
                  odd_copy=lambda: ps.Transform(factor=-1), ident_copy=lambda: ps.Transform(), odd_conj_copy=lambda: ps.Transform(factor=-1, conj=True),
                  inner_product=lambda: ps.TransformProduct([ps.transform_odd, ps.transform_ident]))
        for names in (("odd_copy", "ident"), ("odd_copy", "odd"), ("odd_copy", "odd_copy"), ("ident_copy", "odd_copy", "odd"), ("odd_conj_copy", "odd_conj"),
                      ("inner_product", "ident"), ("inner_product", "odd"), ("inner_product", "inner_product", "odd_copy")):
            objs = [mk[n]() for n in names]
            tsd = [effect_desc(o, 2, True) for o in objs]
            rep.case(("tprod", names))
            try:
                out = effect_desc(ps.TransformProduct(objs), 2, True)
            except Exception as ex:  # noqa
                rep.violation(f"raises:TransformProduct:{type(ex).__name__}", dict(factors=list(names), error=f"{type(ex).__name__}: {ex}"[:300]))
                continue
            want = 1
            for d_ in tsd:
                want *= d_["factor"]
            if out["factor"] != want or out["conj"] != tsd[0]["conj"] or out["axes"] != "":
                rep.violation("TransformProduct:factors_given_by_value", dict(factors=list(names), effects_of_the_factors=tsd, expected_factor=want, got_effect=out,
                                                                            note="some factors are Transform objects equal in value to, but not identical with, transform_odd / transform_ident"))
            recs.append(dict(kind="tprod", name="TransformProduct", ts=tsd, out=out))
    except (ImportError, AttributeError) as ex:
        skipped["TransformProduct_by_value"] = f"{type(ex).__name__}: {ex}"[:200]

    # ------------------------------------------------------------ calculator-level declarations
    calcs = dynamic_calculators(skipped)
    calc_objs = []
    for cn, cc in calcs:
        try:
            calc = make_calculator(cc, np.array([0.0]), np.array([1.0]))
            fname = FORMULA_NAME.get(calc.Formula.__name__, calc.Formula.__name__)
        except Exception as ex:  # noqa
            site = lib_raised(ex)
            if site is None:
                skipped["calculator:" + cn] = f"{type(ex).__name__}: {ex}"[:200]
            else:
                rep.violation(f"raises:calculator:{cn}:{type(ex).__name__}", dict(calculator=cn, raised_in=site, error=f"{type(ex).__name__}: {ex}"[:300]))
            continue
        if fname not in table:
            skipped["calculator:" + cn] = f"its formula {fname} is not catalogued"
            continue
        calc_objs.append((cn, cc, fname))
    if calcs and len(calc_objs) < 5:
        raise MachineryError(f"only {len(calc_objs)} dynamic calculators usable: {skipped}")

    # ------------------------------------------------------------ numeric: value(-k) vs declared transform of value(k)
    nseeds = 4 if thorough else 1
    nk = 3 if thorough else 1
    # (symmetry, spinful, doubled, dimension of the model / of k)
    modes = [("TR", False, False, 3), ("TR", True, False, 2), ("Inv", False, False, 2), ("Inv", True, False, 3 if thorough else 2),
             ("TR", False, True, 2), ("Inv", False, True, 2)]
    signs = {}
    usigns = {}
    failed = set()
    nclass = dict(plus=0, minus=0, small=0)
    worst = 0.0
    interm = {}
    calc_decl_done = set()
    ncalc = nstat = 0
    for sym, spinful, doubled, dim in modes:
        for isd in range(nseeds):
            sd = rng.randrange(1 << 30)
            keys = ALLKEYS if spinful else NOSPIN_KEYS
            m = km.build(sd, nw=2 if spinful else 3, dim=dim, keys=keys, spinful=spinful, tr=(sym == "TR"), inv=(sym == "Inv"))
            system = m.system()
            if doubled:
                system.double_spin()
            nb = system.num_wann
            r = np.random.RandomState(rng.randrange(1 << 30))
            done = 0
            modelname = f"{sym}{'_spinful' if spinful else ''}{'_doubled' if doubled else ''}_{dim}d"
            for _ in range(40):
                if done >= nk:
                    break
                k = km.generic_k(r, dim=dim)
                if km.min_gap(m, k) < MINGAP:   # NonDegenerateK (of the undoubled model)
                    continue
                done += 1
                d1, d2 = datak(system, k), datak(system, -k)
                if np.abs(d1.E_K - d2.E_K).max() > 1e-9:
                    raise MachineryError(f"model is not {sym}-symmetric: E(k) != E(-k)")
                for e in reg + extra:
                    unl = bool(e.get("unlisted"))
                    if e["spin"] and not spinful:
                        continue
                    try:
                        with quiet():
                            o1 = e["make"](d1)
                    except Exception as ex:  # noqa
                        if unl:
                            interm.setdefault(e["label"], "cannot be built from a Data_K alone")
                            continue
                        site = lib_raised(ex)
                        if site is None:
                            raise MachineryError(f"cannot build {e['label']}: {ex}")
                        rep.violation(f"raises:{e['name']}:{type(ex).__name__}", dict(formula=e["label"], model=m.dump(), k=k.tolist(), raised_in=site, error=str(ex)[:300]))
                        continue
                    if unl and (getattr(o1, "transformTR", None) is None or getattr(o1, "transformInv", None) is None):
                        interm.setdefault(e["label"], "no declaration")
                        continue
                    try:
                        with quiet():
                            o2 = e["make"](d2)
                            vals1, vals2 = values(e, o1, nb, doubled), values(e, o2, nb, doubled)
                    except Exception as ex:  # noqa
                        if unl:
                            interm.setdefault(e["label"], f"values cannot be taken: {type(ex).__name__}")
                            continue
                        site = lib_raised(ex)
                        if site is None:
                            raise
                        rep.violation(f"raises:{e['name']}:{type(ex).__name__}", dict(formula=e["label"], model=m.dump(), k=k.tolist(), raised_in=site, error=str(ex)[:300]))
                        continue
                    t = get_transforms(e, o1)[0 if sym == "TR" else 1]
                    for (lab, v1), (_, v2) in zip(vals1, vals2):
                        s, dev, scale, fdecl = classify(t, v1, v2)
                        rep.case(("num", e["label"], modelname, sd, tuple(k), lab), nontrivial=bool(s))
                        bad = s is None or (s != 0 and s != fdecl)
                        if unl and e["name"] in INTERMEDIATE:
                            c = interm.setdefault(e["label"], dict(agree=0, disagree=0))
                            if isinstance(c, dict):
                                c["disagree" if bad else "agree"] += 1
                            continue
                        if bad:
                            variant = variant_tag(e)
                            failed.add((e["label"], sym))
                            rep.violation(f"parity_numeric:{sym}:{e['name']}{variant}",
                                          dict(formula=e["label"], symmetry=sym, model=m.dump(), doubled=doubled, k=k.tolist(), group=lab,
                                               declared_effect=effect_desc(t, np.asarray(v1).ndim - 1, np.iscomplexobj(v1)),
                                               value_at_k=np.array(v1)[0].tolist() if np.isrealobj(v1) else str(np.array(v1)[0].tolist()),
                                               value_at_minus_k=np.array(v2)[0].tolist() if np.isrealobj(v2) else str(np.array(v2)[0].tolist()),
                                               measured_sign=s, deviation=dev, tolerance=TOL * scale, unlisted_class=unl))
                        if s == 0:
                            nclass["small"] += 1
                        elif s is not None:
                            nclass["plus" if s > 0 else "minus"] += 1
                            worst = max(worst, dev / scale)
                            if not bad:
                                (usigns if unl else signs).setdefault((e["name"], e["label"], sym), set()).add((s, fdecl))
                # nested products handed to a StaticCalculator(Formula=...): the result carries the product's declaration
                if not doubled:
                    Es = np.sort(d1.E_K[0])
                    Efs = np.array([0.5 * (Es[0] + Es[1]), 0.5 * (Es[-2] + Es[-1])])
                    for e in [x for x in reg if x.get("nested")]:
                        try:
                            from wannierberri.calculators.static import StaticCalculator
                            sc = StaticCalculator(Efermi=Efs, Formula=(lambda data_K, e=e, **kw: e["make"](data_K)), fder=0)
                            with quiet():
                                r1, r2 = sc(d1), sc(d2)
                            t = r1.transformTR if sym == "TR" else r1.transformInv
                            a, b, rank = np.asarray(r1.data), np.asarray(r2.data), int(r1.rank)
                        except Exception as ex:  # noqa
                            site = lib_raised(ex)
                            if site is None:
                                skipped["static_calculator:" + e["name"]] = f"{type(ex).__name__}: {ex}"[:200]
                            else:
                                rep.violation(f"raises:static_calculator:{e['name']}:{type(ex).__name__}", dict(formula=e["label"], model=m.dump(), k=k.tolist(), raised_in=site, error=str(ex)[:300]))
                            continue
                        a2, b2 = a.reshape((-1,) + (3,) * rank), b.reshape((-1,) + (3,) * rank)
                        s, dev, scale, fdecl = classify(t, a2, b2, relative=True)
                        nstat += 1
                        rep.case(("static_calc", e["name"], modelname, sd, tuple(k)), nontrivial=bool(s))
                        if s is None or (s != 0 and s != fdecl):
                            failed.add(("static_calculator:" + e["name"], sym))
                            rep.violation(f"parity_numeric:{sym}:{e['name']}",
                                          dict(static_calculator="StaticCalculator(Formula=<nested product>, fder=0)", formula=e["label"], symmetry=sym, model=m.dump(), k=k.tolist(),
                                               Efermi=Efs.tolist(), declared_effect=effect_desc(t, rank, False), measured_sign=s, deviation=dev, tolerance=TOL * scale,
                                               note="Fermi-sea result of the calculator at -k versus the declared transformation of its result at k"))
                        elif s:
                            worst = max(worst, dev / scale)
                            signs.setdefault((e["name"], "static_calculator:" + e["name"], sym), set()).add((s, fdecl))
                # the result of every dynamic calculator (complex, with its frequency factors) at -k and at k
                if not doubled:
                    E = np.sort(d1.E_K[0])
                    # Fermi levels near (not at: strict comparisons of the calculators) band energies, so that Fermi-surface terms are sizeable
                    Ef = np.array([E[0] + 0.0131, 0.5 * (E[0] + E[1]), E[-1] - 0.0173])
                    om = np.array([0.7, 1.9])
                    for cn, cc, fname in calc_objs:
                        if "SHC" in cn and not spinful:
                            continue
                        try:
                            calc = make_calculator(cc, Ef, om)
                            with quiet():
                                r1, r2 = calc(d1), calc(d2)
                            t = r1.transformTR if sym == "TR" else r1.transformInv
                            a, b, rank = np.asarray(r1.data), np.asarray(r2.data), int(r1.rank)
                        except Exception as ex:  # noqa
                            site = lib_raised(ex)
                            if site is None:
                                skipped["calculator_call:" + cn] = f"{type(ex).__name__}: {ex}"[:200]
                            else:
                                rep.violation(f"raises:calculator:{cn}:{type(ex).__name__}", dict(calculator=cn, model=m.dump(), k=k.tolist(), raised_in=site, error=str(ex)[:300]))
                            continue
                        variant = calculator_variant(calc)
                        if (cn, sym) not in calc_decl_done:
                            calc_decl_done.add((cn, sym))
                            s_ = table[fname]
                            want = table_desc(s_["dTR" if sym == "TR" else "dInv"], True)
                            have = effect_desc(t, rank, True)
                            rep.case(("calc_decl", cn, sym))
                            if have != want:
                                rep.violation(f"declared_transform:{fname}", dict(calculator=cn, symmetry=sym, note="transformation attached to the calculator's result",
                                                                                 expected_effect=want, got_effect=have))
                            recs.append(dict(kind="decl1", name=fname, label="calculator:" + cn, sym=sym, t=tdesc_state(s_["dTR" if sym == "TR" else "dInv"]) if have == want else have))
                        # data axes: (Efermi, omega, tensor...): fold the two energy axes into one leading axis
                        a2, b2 = a.reshape((-1,) + (3,) * rank), b.reshape((-1,) + (3,) * rank)
                        s, dev, scale, fdecl = classify(t, a2, b2, relative=True)
                        ncalc += 1
                        rep.case(("calc", cn, modelname, sd, tuple(k)), nontrivial=bool(s))
                        if s is None or (s != 0 and s != fdecl):
                            failed.add(("calculator:" + cn, sym))
                            rep.violation(f"parity_numeric:{sym}:{fname}{variant}",
                                          dict(calculator=cn, symmetry=sym, model=m.dump(), k=k.tolist(), Efermi=Ef.tolist(), omega=om.tolist(), kBT=0.1, smr_fixed_width=0.3,
                                               declared_effect=effect_desc(t, rank, True), measured_sign=s, deviation=dev, tolerance=TOL * scale,
                                               note="result of the calculator at -k versus the declared transformation of its result at k"))
                        elif s:
                            worst = max(worst, dev / scale)
                            signs.setdefault((fname, "calculator:" + cn, sym), set()).add((s, fdecl))
                if done == 1 and isd == 0:
                    rep.sample(dict(fn="value(-k) vs T(value(k))", symmetry=sym, spinful=spinful, doubled=doubled, dim=dim, model_seed=sd, k=k.tolist()))
            if done < nk:
                raise MachineryError("no non-degenerate k-point found")
    rep.part("numeric_only", classified=nclass, max_relative_deviation=worst, tolerance=TOL, calculator_results_compared=ncalc, static_calculator_results_of_nested_products=nstat,
             unlisted_formula_classes_measured=sorted({k[0] for k in usigns}))
    rep.part("intermediate_formulas", note="formula classes outside the catalogue that are mixed-parity intermediates or cannot be measured: information only",
             **{k: v for k, v in interm.items()})
    # every formula variant must have been measured with a definite sign under both symmetries
    unmeasured = [(e["label"], sym) for e in reg for sym in ("TR", "Inv") if (e["name"], e["label"], sym) not in signs and e["name"] not in ("Identity", "Formula_dyn_ident")]
    unmeasured = [u for u in unmeasured if u not in failed]
    if unmeasured:
        raise MachineryError(f"vacuous: no significant value measured for {unmeasured[:6]}")
    if calc_objs and ncalc == 0:
        raise MachineryError("vacuous: no calculator result compared")
    for (name, label, sym), ss in sorted(signs.items()):
        for s, f in sorted(ss):
            recs.append(dict(kind="sign", name=name, label=label, sym=sym, sign=int(s)))
    for (name, label, sym), ss in sorted(usigns.items()):
        for s, f in sorted(ss):
            recs.append(dict(kind="usign", name=name, label=label, sym=sym, sign=int(s), declared=int(f)))

    # ------------------------------------------------------------ code -> spec  (the corrupted records of the self-test ride along)
    def pick(pred, what):
        for x in recs:
            if pred(x):
                return copy.deepcopy(x)
        raise MachineryError(f"self-test record missing: {what}")
    corrupt = []

    def corrupted(pred, what, change):
        """a corrupted copy of one record for the binding self-test; a missing record is a machinery error only while nothing
        has been reported (a regression may remove the very record: the findings must not be lost)"""
        try:
            x = pick(pred, what)
        except MachineryError:
            if rep.violations:
                return
            raise
        change(x)
        corrupt.append(x)
    corrupted(lambda x: x["kind"] == "decl" and x["name"] == "DerOmega", "decl DerOmega", lambda x: x["inv"].update(factor=1))
    corrupted(lambda x: x["kind"] == "sign" and x["name"] == "Omega" and x["sym"] == "TR", "sign Omega TR", lambda x: x.update(sign=1))
    corrupted(lambda x: x["kind"] == "cov" and x["name"] == "SS" and x["commader"] == 1, "cov SS", lambda x: x["tr"].update(factor=-1))
    corrupted(lambda x: x["kind"] == "decl1", "calculator declaration", lambda x: x["t"].update(factor=-x["t"]["factor"]))
    # what "only literal constants count" would declare for a nested product / a product of factors given by value
    corrupted(lambda x: x["kind"] == "decl" and x["name"] == "N_MassVel_Vel", "nested declaration", lambda x: x["tr"].update(factor=-x["tr"]["factor"]))
    corrupted(lambda x: x["kind"] == "tprod" and x["out"]["factor"] == -1, "tprod", lambda x: x["out"].update(factor=1))
    stv, bad = ftable.validate_records("ParityAlgRec.tla", ftable.REC_CFG, recs + corrupt, "c08" + TAG)
    rep.add_tlc("c08_records", stv)
    rep.add_traces(len(recs))
    for i, clauses in sorted(bad.items()):
        if i < len(recs):
            r = recs[i]
            rep.violation(f"recorded_{r['kind']}:{r['name']}:{clauses[0]}", dict(record=r, failing_clauses=clauses))
    if not all(len(recs) + n in bad for n in range(len(corrupt))) and not rep.violations:       # (with findings the corrupted copy of a wrong record may be right)
        raise MachineryError(f"binding self-test failed: corrupted records accepted ({ {k: v for k, v in bad.items() if k >= len(recs)} })")
    rep.part("binding_selftest", corrupted_records_rejected={str(k - len(recs)): v for k, v in bad.items() if k >= len(recs)})
    if skipped:
        rep.part("skipped_private", **{str(k).replace(" ", "_"): v for k, v in skipped.items()})
    return rep.finish()
