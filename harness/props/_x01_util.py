"""X01 (c): binding of UtilTables.tla to the small pure functions of wannierberri.utility"""
import zlib
import itertools
import numpy as np


def stable(obj, m):
    return zlib.crc32(repr(obj).encode()) % m


def U():
    import wannierberri.utility as u
    return u


def L(x):
    if isinstance(x, (tuple, list)):
        return [L(y) for y in x]
    return x


# --------------------------------------------------------------------------- arguments
def render_word(tok):
    w = tok["base"]
    w = w.upper() if tok["cs"] == "upper" else (w.title() if tok["cs"] == "title" else w)
    pad = {"": "", " ": " ", "tab": "\t", "nl": "\n"}
    return pad[tok["pl"]] + w + pad[tok["pr"]]


def o23_arg(x, h):
    t = x["t"]
    if t == "none":
        return None
    if t == "int":
        return int(x["i"]) if h % 2 else np.int64(x["i"])
    if t == "float":
        return float(x["i"])
    q = list(x["q"])
    if t == "seqf":
        q = [float(v) if j == len(q) // 2 else v for j, v in enumerate(q)]
        return q if h % 2 else tuple(q)
    return [q, tuple(q), np.array(q, dtype=int)][h % 3]


def box(size, pm, start):
    rng = []
    for d, n in enumerate(size):
        lo = -n if pm else (0 if not start else start[d])
        hi = n if pm else lo + n - 1
        rng.append(range(lo, hi + 1))
    return rng


def tuples_of(arr, ndim):
    """what iterate_nd returned -> list of tuples of ints; an empty result comes back with shape (0,)"""
    a = np.asarray(arr)
    if a.size == 0:
        return []
    if a.ndim != 2 or a.shape[1] != ndim or not np.issubdtype(a.dtype, np.integer):
        raise ValueError(f"shape {a.shape} dtype {a.dtype}")
    return [tuple(int(x) for x in row) for row in a]


def parse_table(text, kind):
    """the text made by arr_to_string -> table of numbers in units of 1/8 (complex: [re, im])"""
    out = []
    for line in text.split("\n") if text != "" else []:
        row = []
        for tok in line.split():
            if kind == "complex":
                z = complex(tok)
                row.append([z.real * 8, z.imag * 8])
            else:
                row.append(float(tok) * 8)
        out.append(row)

    def ints(x):
        if isinstance(x, list):
            return [ints(y) for y in x]
        r = round(x)
        if abs(x - r) > 1e-6:
            raise ValueError(f"{x / 8} is not the number that was formatted")
        return int(r)
    return ints(out)


# --------------------------------------------------------------------------- one call of the real function
def call(fn, inp):
    """-> dict(err=exception class or "", val=..., extra)   (the value in the representation of the specification)"""
    u = U()
    h = stable((fn, repr(inp)), 6)
    extra = {}
    try:
        if fn == "str2bool":
            val = u.str2bool(render_word(inp))
            if not isinstance(val, (bool, np.bool_)):
                raise TypeError(f"str2bool returned {val!r}")
            val = bool(val)
        elif fn == "cross":
            a, b = np.asarray(u.alpha_A), np.asarray(u.beta_A)
            uu, vv = np.array(inp["u"]), np.array(inp["v"])
            val = [int(x) for x in uu[a] * vv[b] - uu[b] * vv[a]]
            extra["numpy_cross"] = [int(x) for x in np.cross(uu, vv)]
        elif fn == "axial":
            a, b = np.asarray(u.alpha_A), np.asarray(u.beta_A)
            F = np.array(inp["F"])
            val = [int(x) for x in F[a, b] - F[b, a]]
        elif fn == "iterate_nd":
            size, st = tuple(inp["size"]), (tuple(inp["start"]) if len(inp["start"]) else None)
            if h % 2:
                size = list(size)
            r = u.iterate_nd(size, pm=bool(inp["pm"]), start=st) if (st is not None or h % 3) else (u.iterate_nd(size, bool(inp["pm"])))
            val = [list(t) for t in tuples_of(r, len(size))]
            extra["shape"] = list(np.asarray(r).shape)
        elif fn == "iterate3dpm":
            r = u.iterate3dpm(tuple(inp["size"]))
            val = [list(t) for t in tuples_of(r, len(inp["size"]))]
        elif fn == "one2three":
            r = u.one2three(o23_arg(inp, h))
            if r is None:
                val, extra["is_none"] = [], True
            else:
                a = np.asarray(r)
                if a.shape != (3,) or not np.issubdtype(a.dtype, np.integer):
                    raise TypeError(f"one2three returned {r!r}")
                val, extra["is_none"] = [int(x) for x in a], False
        elif fn == "get_head":
            r = list(u.get_head(int(inp["n"])))
            val = [list(s.rstrip(" ")) for s in r]
            extra["two_blanks"] = all(isinstance(s, str) and s.endswith("  ") and len(s) == len(s.rstrip(" ")) + 2 for s in r)
        elif fn == "find_degen":
            arr = np.array(inp["arr"], dtype=float if h % 2 else int)
            r = u.find_degen(arr, float(inp["thr"]) if h % 2 else int(inp["thr"]))
            val = [[int(a), int(b)] for a, b in r]
        elif fn == "arr_to_string":
            kind = inp["kind"]
            if kind == "complex":
                arr = np.array([[complex(c[0], c[1]) / 8 for c in row] for row in inp["arr"]])
            else:
                arr = np.array(inp["arr"], dtype=float) / 8
            fmts = [None, "{:+9.6f}", "12.5e", "{:8.3f}"]
            f = fmts[h % 4] if kind != "complex" else fmts[h % 2]
            extra["fmt"] = f
            txt = u.arr_to_string(arr) if f is None else u.arr_to_string(arr, fmt=f)
            if not isinstance(txt, str):
                raise TypeError(f"arr_to_string returned {type(txt).__name__}")
            val = parse_table(txt, kind)
            extra["text"] = txt[:120]
        else:
            raise KeyError(fn)
    except Exception as ex:
        from ..main import raised_by_code_under_test
        if fn in ("cross", "axial") or isinstance(ex, (OSError, ImportError, KeyError)) and raised_by_code_under_test(ex) is None:
            raise
        return dict(err=type(ex).__name__, val=False if fn == "str2bool" else [], message=str(ex)[:120], library=raised_by_code_under_test(ex) is not None, **extra)
    return dict(err="", val=val, **extra)


def expected(fn, out):
    """the `out` of a TLC state -> (err, val) in the same representation as call()"""
    if fn in ("str2bool", "iterate3dpm", "one2three"):
        return out["err"], (bool(out["val"]) if fn == "str2bool" and out["err"] == "" else (False if fn == "str2bool" else L(out["val"])))
    return "", L(out)


def klass(fn, inp):
    """input class for non-vacuity counting and violation keys"""
    if fn == "str2bool":
        b = inp["base"]
        return "true_word" if b in ("t", "true", ".true.") else "false_word" if b in ("f", "false", ".false.") else "other_word"
    if fn == "iterate_nd":
        return ("pm" if inp["pm"] else "start" if len(inp["start"]) else "plain") + (":empty" if (not inp["pm"] and 0 in inp["size"]) else "")
    if fn == "iterate3dpm":
        return "three" if len(inp["size"]) == 3 else "not_three"
    if fn == "one2three":
        return inp["t"]
    if fn == "get_head":
        return "rank_le_0" if inp["n"] <= 0 else "rank_pos"
    if fn == "find_degen":
        return "empty" if len(inp["arr"]) == 0 else "values"
    if fn == "arr_to_string":
        return inp["kind"]
    return "all"


def compare(fn, inp, exp, got):
    """-> (verdict problems [(key suffix, text)], information notes [str])"""
    bad, info = [], []
    eerr, eval_ = exp
    if fn in ("cross", "axial"):
        if got["val"] != eval_:
            bad.append(("levi_civita", "the index tables do not give the Levi-Civita contraction"))
        if fn == "cross" and got.get("numpy_cross") != eval_:
            bad.append(("numpy_cross", "the specification's cross product differs from numpy.cross"))
        return bad, info
    if (eerr == "") != (got["err"] == ""):
        bad.append(("refused_valid_input" if eerr == "" else "accepted_invalid_input", f"expected {'a value' if eerr == '' else 'a refusal'}, got {got['err'] or 'a value'}"))
        return bad, info
    if eerr != "":
        if got["err"] != eerr:
            info.append(f"{fn}:exception_class:{got['err']}")
        return bad, info
    if fn in ("iterate_nd", "iterate3dpm"):
        pm = True if fn == "iterate3dpm" else bool(inp["pm"])
        want = set(itertools.product(*box(inp["size"], pm, inp.get("start", ()))))
        g = [tuple(t) for t in got["val"]]
        if len(set(g)) != len(g) or set(g) != want:
            bad.append(("every_point_once", f"{len(g)} tuples, {len(set(g))} distinct, box has {len(want)}"))
        elif got["val"] != eval_:
            info.append(f"{fn}:order_differs_from_first_index_outermost")
        if not g and got.get("shape") not in (None, [0, len(inp["size"])]):
            info.append(f"{fn}:empty_result_has_shape_{got.get('shape')}")
        return bad, info
    if fn == "get_head":
        if got["val"] != eval_:
            bad.append(("flatten_order", "the labels are not the base-3 digits of their position"))
        if not got.get("two_blanks"):
            info.append("get_head:labels_not_followed_by_two_blanks")
        return bad, info
    if fn == "one2three" and inp["t"] == "none":
        if not got.get("is_none"):
            bad.append(("none", "None did not stay None"))
        return bad, info
    if got["val"] != eval_:
        bad.append(("value", f"expected {eval_!r:.120}, got {got['val']!r:.120}"))
    return bad, info


# --------------------------------------------------------------------------- random recorded calls
def random_call(rng):
    fn = rng.choice(["str2bool", "cross", "axial", "iterate_nd", "iterate_nd", "iterate3dpm", "one2three", "get_head", "find_degen", "find_degen", "arr_to_string"])
    if fn == "str2bool":
        inp = dict(base=rng.choice(["f", "false", ".false.", "t", "true", ".true.", "ff", "tru", "on", "off", ".true", "2", "t f"]),
                   cs=rng.choice(["lower", "upper", "title"]), pl=rng.choice(["", " ", "tab", "nl"]), pr=rng.choice(["", " ", "tab", "nl"]))
    elif fn == "cross":
        inp = dict(u=[rng.randint(-9, 9) for _ in range(3)], v=[rng.randint(-9, 9) for _ in range(3)])
    elif fn == "axial":
        inp = dict(F=[[rng.randint(-9, 9) for _ in range(3)] for _ in range(3)])
    elif fn == "iterate_nd":
        n = rng.randint(1, 4)
        size = [rng.randint(0, 4) for _ in range(n)]
        while int(np.prod([2 * s + 1 for s in size])) > 1500:
            size[rng.randrange(n)] = 1
        pm = rng.random() < 0.4
        inp = dict(size=size, pm=pm, start=[] if pm or rng.random() < 0.4 else [rng.randint(-5, 5) for _ in range(n)])
    elif fn == "iterate3dpm":
        inp = dict(size=[rng.randint(0, 3) for _ in range(rng.choice([3, 3, 3, 2, 4]))])
    elif fn == "one2three":
        t = rng.choice(["none", "int", "int", "float", "seq", "seq", "seq", "seqf"])
        inp = dict(t=t, i=rng.randint(-2, 12) if t in ("int", "float") else 0,
                   q=[rng.randint(-1, 9) if rng.random() < 0.15 else rng.randint(1, 9) for _ in range(rng.choice([3, 3, 3, 2, 4]))] if t in ("seq", "seqf") else [])
    elif fn == "get_head":
        inp = dict(n=rng.randint(-2, 4))
    elif fn == "find_degen":
        n = rng.randint(0, 12)
        arr, x = [], rng.randint(-5, 5)
        for _ in range(n):
            arr.append(x)
            x += rng.choice([0, 0, 1, 1, 2, 3, 7])
        inp = dict(arr=arr, thr=rng.randint(0, 3))
    else:
        kind = rng.choice(["real", "real", "complex"])
        r, c = rng.randint(1, 4), rng.randint(1, 4)
        if kind == "real":
            arr = [[rng.randint(-400, 400) for _ in range(c)] for _ in range(r)]
        else:
            arr = [[[rng.randint(-400, 400), rng.randint(-400, 400)] for _ in range(c)] for _ in range(r)]
        inp = dict(arr=arr, kind=kind)
    return fn, inp
