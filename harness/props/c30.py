"""C30: grid tabulation covers every grid point with its own values.

spec  : ToGrid.tla (TABresult.to_grid / find_grid / K__Result.to_grid / get_component as operators shaped like the code +
        the loop-free statement of the property), MC_ToGrid (loop of to_grid over the k-points; sensitivity switch
        SlotFormula), MC_Component (every small tensor x every component specification)
bind  : every finished TLC state is replayed on real TABresult / KBandResult objects with integer data (to_grid, get_data,
        find_grid, self_to_grid, get_component) and compared exactly; seeded random calls are recorded and validated by
        TLC against ToGridRec.tla
end-to-end (numeric): run() with TabulatorAll(mode="grid") for the factorisations (NKdiv, NKFFT) TLC lists for a grid, with
        and without symmetry reduction, against evaluate_k at every grid point (tolerance 1e-8).
"""
import copy
import math
import os
import random
import shutil
import re
import warnings

import numpy as np

from .. import tlc, ftable, tlaparse
from ..common import Report, MachineryError, seed, quiet, workdir
from . import _c2930_util as U

PROPS = {
    "C30": dict(level="model_checking",
                technique="TLC exhaustive on ToGrid.tla (loop-level transcription of TABresult.to_grid + K__Result.to_grid vs the loop-free statement: slot bijection onto C order, own values, averaging of images, missing point = error, find_grid; get_component as algebra on integer tensors) + replay of every finished TLC state on real TABresult/KBandResult objects + TLC validation of recorded calls; numeric comparison of run(TabulatorAll, grid) with evaluate_k point by point",
                text="TLC enumerates grids (n_i <= 3, anisotropic), arrival orders (all permutations for tiny grids, C/F/reversed/rotated and "
                     "every (NKdiv, NKFFT) factorisation order otherwise), duplicated, missing, shifted and off-grid points, and tensors of rank "
                     "0..2 with every component specification; each state is executed on real TABresult/KBandResult objects built from integer "
                     "data and compared exactly (to_grid, get_data in C order, find_grid, self_to_grid, get_component); random larger cases are "
                     "recorded from the real code and validated by TLC. End to end, run() with TabulatorAll(mode='grid') is compared with "
                     "evaluate_k at every grid point for every factorisation TLC lists, with and without symmetry reduction.",
                note="find_grid inputs whose 1/dk is exactly half-way between two integers are excluded by the named predicate FindGridTie; "
                     "component specifications that do not name a component of the tensor (None/unknown name on rank >= 2, too few or too many "
                     "indices on rank >= 2), for which the code fails with TypeError/KeyError or returns a slice, are outside CompOK",
                ref="DESIGN.md 3.2, 3.6"),
}

W = int(os.environ.get("VERIF_TLC_WORKERS", "16"))
GAP_MIN = 0.05                   # smallest band gap admitted in the numeric comparisons (named exclusion)
XYZ = {"x": 0, "y": 1, "z": 2}
BW = (1, -2)                     # integer weight of band b
SC = ((1, -2), (3, 2))           # integer scale of (k-point, band) in the component tests


# ---------------------------------------------------------------- real objects with integer data
def tensor_w(rank):
    """distinct integer weights of the tensor components"""
    if rank == 0:
        return np.array(1.0)
    if rank == 1:
        return np.array([2.0, 3.0, 5.0])
    return np.array([[1.0, 2.0, 3.0], [4.0, 5.0, 6.0], [7.0, 8.0, 9.0]])


def make_tab(pts, M, vals, mode="grid"):
    from wannierberri.result import KBandResult, TABresult
    k = np.array(pts, dtype=float) / np.array(M, dtype=float)[None, :]
    v = np.array(vals, dtype=float)
    res = {}
    for name, rank in (("Energy", 0), ("vec", 1), ("ten", 2)):
        d = v.reshape((-1, 1) + (1,) * rank) * np.array(BW, dtype=float).reshape((1, 2) + (1,) * rank) * tensor_w(rank)[None, None]
        res[name] = KBandResult(d, rank=rank)
    return TABresult(kpoints=k, recip_lattice=np.eye(3), results=res, mode=mode)


def call_to_grid(tab, g, self_mode=False):
    """returns (error name or '', result TABresult)"""
    with quiet(), warnings.catch_warnings():
        warnings.simplefilter("ignore")
        try:
            if self_mode:
                tab.self_to_grid()
                return "", tab
            return "", tab.to_grid(np.array(g, dtype=int), order="C")
        except ZeroDivisionError:
            return "ZeroDivisionError", None


def cmp_grid_result(res, g, exp, tol=1e-9):
    """res: real TABresult on the grid; exp: per slot (sum, count). None if every get_data entry is the expected average"""
    g = tuple(int(x) for x in g)
    if res.grid is None or tuple(int(x) for x in res.grid) != g or res.gridorder != "C":
        return f"grid attribute {res.grid} order {res.gridorder}"
    kn = np.asarray(res.kpoints) * np.array(g)[None, :]
    if kn.shape != (len(exp), 3) or np.abs(kn - np.rint(kn)).max() > tol:
        return "k-points of the grid result are not grid points"
    for s in range(len(exp)):
        i0, i1, i2 = s // (g[1] * g[2]), (s // g[2]) % g[1], s % g[2]
        if [int(x) for x in np.rint(kn[s])] != [i0, i1, i2]:
            return f"k-point of slot {s} is {res.kpoints[s].tolist()}, not {(i0, i1, i2)}/{g}"
    with quiet():
        E = res.get_data("Energy")
        E1 = res.get_data("Energy", iband=1)
        V = res.get_data("vec")
        Vy = res.get_data("vec", component="y")
        Tt = res.get_data("ten", component="trace")
        Tzx = res.get_data("ten", component=(2, 0), iband=[1])
    shapes = dict(E=(E.shape, g + (2,)), E1=(E1.shape, g), V=(V.shape, g + (2, 3)), Vy=(Vy.shape, g + (2,)), Tt=(Tt.shape, g + (2,)), Tzx=(Tzx.shape, g + (1,)))
    for k, (a, b) in shapes.items():
        if tuple(a) != tuple(b):
            return f"get_data shape {k}: {a} instead of {b}"
    for s, (sm, cnt) in enumerate(exp):
        i0, i1, i2 = s // (g[1] * g[2]), (s // g[2]) % g[1], s % g[2]
        avg = sm / cnt
        scale = max(1.0, abs(avg)) * 20
        for b in range(2):
            pairs = [(E[i0, i1, i2, b], avg * BW[b]), (Vy[i0, i1, i2, b], avg * BW[b] * 3), (Tt[i0, i1, i2, b], avg * BW[b] * 15)]
            pairs += [(V[i0, i1, i2, b, c], avg * BW[b] * tensor_w(1)[c]) for c in range(3)]
            for got, e in pairs:
                if abs(got - e) > tol * scale:
                    return f"slot {s} = grid point {(i0, i1, i2)} band {b}: {got} instead of {e}"
        if abs(E1[i0, i1, i2] - avg * BW[1]) > tol * scale or abs(Tzx[i0, i1, i2, 0] - avg * BW[1] * 7) > tol * scale:
            return f"slot {s} = grid point {(i0, i1, i2)}: iband selection returns another value"
    return None


def py_component(comp, rng=None):
    kind, c = comp["kind"], list(comp["c"])
    if kind == "none":
        return None
    if kind == "tuple":
        return tuple(XYZ[x] for x in c)
    s = "".join(c)
    if rng is not None and rng.random() < 0.3:
        s = s.upper() if rng.random() < 0.5 else s.capitalize()
    return s


def call_component(ndim, T, comp, how):
    """the real get_component on data[ik, ib] = T * SC[ik][ib]; returns ('err', None) or ('ok', array (2, 2))"""
    from wannierberri.result import kbandresult as KB
    from wannierberri.result import KBandResult, TABresult
    data = np.array(SC, dtype=float).reshape((2, 2) + (1,) * ndim) * np.array(T, dtype=float)[None, None]
    try:
        with quiet():
            if how == "function":
                out = KB.get_component(data, ndim, comp)
            elif how == "method":
                out = KBandResult(data, rank=ndim).get_component(comp)
            else:
                tab = TABresult(kpoints=[[0, 0, 0], [0, 0, 0.5]], recip_lattice=np.eye(3), mode="grid",
                                results={"Energy": KBandResult(np.zeros((2, 2)), rank=0), "Q": KBandResult(data, rank=ndim)})
                tab.grid = np.array([1, 1, 2])
                tab.gridorder = "C"
                out = tab.get_data("Q", component=comp)
                if out.shape[:3] != (1, 1, 2):
                    return "shape", out.shape
                out = out.reshape((2,) + out.shape[3:])
    except KB.NoComponentError:
        return "err", None
    return "ok", np.asarray(out)


def cmp_component(got, exp, tol=1e-9):
    """exp: dict(tag, v) of the specification"""
    kind, arr = got
    if exp["tag"] == "err":
        return None if kind == "err" else f"expected NoComponentError, got {kind} {arr}"
    if kind != "ok":
        return f"unexpected {kind} {arr}"
    if arr.shape != (2, 2):
        return f"shape {arr.shape} instead of (2, 2)"
    S = np.array(SC, dtype=float)
    v = exp["v"]
    if exp["tag"] == "val":
        e = v * S
        e2 = v * S * S          # 'sq' is quadratic in the data; decided by the caller through exp['quad']
        e = e2 if exp.get("quad") else e
    else:
        e = math.sqrt(v) * np.abs(S)
    if np.abs(arr - e).max() > tol * max(1.0, np.abs(e).max()):
        return f"{arr.tolist()} instead of {e.tolist()}"
    return None


# ---------------------------------------------------------------- configurations
def cfg_togrid(grids, maxperm, mults, formula="code"):
    inv = ["InvBijection", "InvOwnValues", "InvMissing", "InvFindGrid", "InvSelfToGrid"] + (["LoopIsOperator"] if formula == "code" else [])
    return ("SPECIFICATION Spec\nCONSTANTS\n"
            f"  Grids <- {grids}\n  MaxAllPerm = {maxperm}\n  Mults <- {mults}\n  SlotFormula = \"{formula}\"\n"
            + "".join(f"INVARIANT {i}\n" for i in inv) + "CHECK_DEADLOCK FALSE\n")


def cfg_component(e0, e1, e2):
    inv = ["InvSelect", "InvStringIsTuple", "InvTrace", "InvTraceOfStrings", "InvNorm", "InvSq", "InvScalar", "InvErrors", "InvList"]
    return (f"SPECIFICATION Spec\nCONSTANTS\n  Entries0 <- {e0}\n  Entries1 <- {e1}\n  Entries2 <- {e2}\n"
            + "".join(f"INVARIANT {i}\n" for i in inv) + "CHECK_DEADLOCK FALSE\n")


def replay_togrid(rep, st, rng, counts):
    n = 0
    for s in U.states_where(st):
        n += 1
        g, m, pts, vals, out, fg = s["g"], s["m"], s["pts"], s["vals"], s["out"], s["fg"]
        M = [a * b for a, b in zip(g, m)]
        ngrid = g[0] * g[1] * g[2]
        on = [all(p[c] % m[c] == 0 for c in range(3)) for p in pts]
        cls = "error" if out["err"] else ("duplicate" if sum(on) > ngrid else "complete")
        if not all(on):
            cls += ":offgrid"
        if any(not (0 <= p[c] < M[c]) for p in pts for c in range(3)):
            cls += ":shifted"
        counts[cls] = counts.get(cls, 0) + 1
        rep.case(("to_grid", g, m, pts), nontrivial=ngrid > 1)
        detail = dict(grid=list(g), mesh=M, kpoints_int=[list(p) for p in pts], values=list(vals), band_weights=list(BW))
        tab = make_tab(pts, M, vals)
        # find_grid
        with quiet():
            got_fg = [int(x) for x in tab.find_grid]
        if got_fg != list(fg):
            rep.violation("find_grid", dict(detail, expected=list(fg), got=got_fg))
        err, res = call_to_grid(tab, g)
        if err != out["err"]:
            rep.violation("to_grid:missing_point" if out["err"] else "to_grid:unexpected_error", dict(detail, expected_error=out["err"], got_error=err))
            continue
        if not err:
            bad = cmp_grid_result(res, g, out["data"])
            if bad:
                rep.violation("to_grid:values", dict(detail, what=bad, expected_sum_count=[list(x) for x in out["data"]]))
        # self_to_grid = to_grid(find_grid)
        if list(fg) == list(g) and all(on):
            tab2 = make_tab(pts, M, vals)
            err2, res2 = call_to_grid(tab2, g, self_mode=True)
            if err2 != out["err"]:
                rep.violation("self_to_grid:error", dict(detail, expected_error=out["err"], got_error=err2))
            elif not err2:
                bad = cmp_grid_result(res2, g, out["data"])
                if bad:
                    rep.violation("self_to_grid:values", dict(detail, what=bad))
        if n <= 2:
            rep.sample(dict(fn="TABresult.to_grid", **detail, expected=dict(err=out["err"], sum_count=[list(x) for x in out["data"]])))
    return n


def replay_component(rep, st, rng, counts, prob=1.0):
    n = 0
    for s in U.states_where(st, marker="ndim", prob=prob, rng=rng, always=("ndim = 0", "ndim = 1", '"name"')):
        n += 1
        ndim, T, comp, out = s["ndim"], s["T"], s["comp"], dict(s["out"])
        if comp["kind"] == "name" and tuple(comp["c"]) == ("sq",) and out["tag"] == "val":
            out["quad"] = True
        cls = f"rank{ndim}:{comp['kind']}:{out['tag']}"
        counts[cls] = counts.get(cls, 0) + 1
        rep.case(("component", ndim, T, comp["kind"], comp["c"]), nontrivial=True)
        pc = py_component(comp, rng)
        hows = ["function", "method"] + (["get_data"] if pc is not None else [])
        for how in hows:
            bad = cmp_component(call_component(ndim, T, pc, how), out)
            if bad:
                rep.violation(f"get_component:{how}:{comp['kind']}" + (":" + "".join(comp["c"]) if comp["kind"] == "name" else ""),
                              dict(rank=ndim, tensor=T, component=pc, scale=SC, expected=out, what=bad))
        if n <= 2 or (ndim == 2 and counts[cls] == 1 and comp["kind"] == "name"):
            rep.sample(dict(fn="get_component", rank=ndim, tensor=T, component=pc, expected=out))
    return n


# ---------------------------------------------------------------- records
def rand_tensor(rng, rank):
    if rank == 0:
        return rng.randint(-9, 9)
    return [rand_tensor(rng, rank - 1) for _ in range(3)]


def random_records(rep, rng, nrec):
    recs = []
    while len(recs) < nrec:
        r = rng.random()
        if r < 0.5:
            g = [rng.randint(1, 4), rng.randint(1, 3), rng.randint(1, 5)]
            m = rng.choice([[1, 1, 1], [1, 1, 1], [2, 1, 1], [1, 3, 2]])
            M = [a * b for a, b in zip(g, m)]
            full = [[a * m[0], b * m[1], c * m[2]] for a in range(g[0]) for b in range(g[1]) for c in range(g[2])]
            rng.shuffle(full)
            pts = list(full)
            what = rng.random()
            if what < 0.25 and len(pts) > 1:
                for _ in range(rng.randint(1, 2)):
                    if len(pts) > 1:
                        pts.pop(rng.randrange(len(pts)))
            elif what < 0.6:
                for _ in range(rng.randint(1, 4)):
                    pts.insert(rng.randrange(len(pts) + 1), list(rng.choice(full)))
            if m != [1, 1, 1] and rng.random() < 0.5:
                pts.insert(rng.randrange(len(pts) + 1), [rng.choice(full)[0] + 1, 0, 1])
            pts = [[p[c] + M[c] * rng.choice([0, 0, 0, 1, -1, 2]) for c in range(3)] for p in pts]
            vals = [rng.randint(-20, 20) for _ in pts]
            tab = make_tab(pts, M, vals)
            err, res = call_to_grid(tab, g)
            rec = dict(fn="to_grid", g=g, m=m, pts=pts, vals=vals, err=err, out=[], knew=[], shape=[])
            if not err:
                with quiet():
                    E = res.get_data("Energy", iband=0)
                flat = E.reshape(-1)            # C order
                fr = [U.rat(x, maxden=64) for x in flat]
                kn = np.asarray(res.kpoints) * np.array(g)[None, :]
                if any(f is None for f in fr) or np.abs(kn - np.rint(kn)).max() > 1e-9:
                    rep.violation("to_grid:nonrational", dict(g=g, pts=pts, vals=vals, got=flat.tolist()))
                    continue
                rec.update(out=[[f.numerator, f.denominator] for f in fr], knew=[[int(x) for x in np.rint(k)] for k in kn], shape=list(E.shape))
            recs.append(rec)
            rep.case(("rec_to_grid", tuple(g), tuple(m), repr(pts)))
            # find_grid of the same point set (when inside its domain)
            if not find_grid_tie(pts, M):
                with quiet():
                    fgr = [int(x) for x in make_tab(pts, M, vals).find_grid]
                recs.append(dict(fn="find_grid", g=g, m=m, pts=pts, out=fgr))
                rep.case(("rec_find_grid", tuple(g), tuple(m), repr(pts)))
        else:
            ndim = rng.choice([0, 1, 1, 2, 2, 2, 3])
            T = rand_tensor(rng, ndim)
            kinds = []
            if ndim <= 1:
                kinds.append(dict(kind="none", c=[]))
            kinds += [dict(kind="name", c=["trace"])]
            if ndim <= 1:
                kinds += [dict(kind="name", c=[x]) for x in ("norm", "sq", "abc")]
            kinds += [dict(kind="tuple", c=[rng.choice("xyz") for _ in range(ndim)]) for _ in range(2)]
            kinds += [dict(kind="xyz", c=[rng.choice("xyz") for _ in range(ndim)]) for _ in range(3)] if ndim else []
            if ndim <= 1:
                kinds += [dict(kind="xyz", c=[rng.choice("xyz") for _ in range(ndim + 1)])]
                kinds += [dict(kind="xyz", c=[rng.choice("xyz") for _ in range(rng.randint(1, 3))])]
            comp = rng.choice(kinds)
            pc = py_component(comp, rng)
            kind, arr = call_component(ndim, T, pc, rng.choice(["function", "method"]))
            S = np.array(SC, dtype=float)
            if kind == "err":
                tag, v = "err", 0
            elif kind != "ok" or arr.shape != (2, 2):
                rep.violation("get_component:shape", dict(rank=ndim, tensor=T, component=pc, got=str(arr)))
                continue
            else:
                if comp["kind"] == "name" and comp["c"] == ["norm"]:
                    q, tag = (arr / np.abs(S)) ** 2, "sqrt"
                elif comp["kind"] == "name" and comp["c"] == ["sq"]:
                    q, tag = arr / (S * S), "val"
                else:
                    q, tag = arr / S, "val"
                v = int(round(q[0, 0]))
                if np.abs(q - v).max() > 1e-9 * max(1, abs(v)):
                    rep.violation("get_component:not_linear_in_data", dict(rank=ndim, tensor=T, component=pc, got=arr.tolist(), scale=SC))
                    continue
            recs.append(dict(fn="component", ndim=ndim, T=T, kind=comp["kind"], c=comp["c"], tag=tag, v=v))
            rep.case(("rec_component", ndim, repr(T), comp["kind"], tuple(comp["c"])))
    return recs


def find_grid_tie(pts, M):
    for c in range(3):
        S = sorted(set(p[c] % M[c] for p in pts) | {M[c]})
        d = max(b - a for a, b in zip(S, S[1:]))
        if (2 * M[c]) % (2 * d) == d:
            return True
    return False


# ---------------------------------------------------------------- the check
def check(pid, tier):
    rep = Report(pid, tier, "model_checking")
    thorough = tier == "thorough"
    rng = random.Random(seed() * 7919 + 30)
    rep.rule("TLC enumerates (a) grids x arrival orders x {complete, shifted, missing, duplicated, off-grid} point lists, (b) tensors of rank "
             "0..2 x component specifications; a case = one finished TLC state replayed on real TABresult/KBandResult objects with integer data "
             "(exact comparison) or one seeded random recorded call validated by TLC; distinct by input tuple")
    rep.assume("data are small integers times integer band/component weights, k-points are i/N: the float results are exact to 1e-13 "
               "(tolerance 1e-9)")
    rep.assume("find_grid inputs whose 1/dk is exactly half-way between integers (FindGridTie) are excluded: the code rounds a float there")

    # ---------------- spec: to_grid
    counts = {}
    name = "c30_togrid"
    cfg = cfg_togrid("GridsMid", 4, "MultsTwo") if thorough else cfg_togrid("GridsQuick", 3, "MultsTwo")
    st = ftable.enumerate_states("MC_ToGrid.tla", cfg, name, workers=W, timeout=3000)
    facts = None
    if not ftable.spec_violation(rep, st, name):
        tlc.check_not_vacuous(st, ["OnGridPoint", "OffGridPoint", "CollectAll"], name)
        rep.add_tlc(name, st)
        n = replay_togrid(rep, st, rng, counts)
        rep.part(name, replayed=n, **counts)
        for cls in ("complete", "duplicate", "error", "complete:shifted"):
            if counts.get(cls, 0) == 0:
                raise MachineryError(f"to_grid: no replayed case of class {cls}")
        if not any("offgrid" in k for k in counts):
            raise MachineryError("to_grid: no replayed case with an off-grid point")
        pr = re.search(r'<<\s*"FACT",\s*("(?:[^"\\]|\\.)*")\s*>>', st["output"])
        if not pr:
            raise MachineryError("MC_ToGrid did not print the factorisations")
        facts = tlaparse.parse_value(tlaparse.parse_value(pr.group(1)))
    # sensitivity: the Fortran-order slot formula must be rejected
    st0 = tlc.run_tlc("MC_ToGrid.tla", cfg_togrid("GridsQuick", 3, "MultsOne", formula="fortran"), "c30_togrid_v0", workers=W, timeout=900)
    if not st0.get("violation"):
        raise MachineryError("sensitivity self-test failed: MC_ToGrid with SlotFormula=fortran should violate an invariant")
    rep.part("c30_togrid_v0", sensitivity_violation=st0["violation"][1])

    # ---------------- spec: components
    counts = {}
    name = "c30_component"
    cfg = cfg_component("EntriesWide", "EntriesWide", "EntriesSigned") if thorough else cfg_component("EntriesWide", "EntriesSigned", "EntriesSmall")
    st = ftable.enumerate_states("MC_Component.tla", cfg, name, workers=W, timeout=3000)
    if not ftable.spec_violation(rep, st, name):
        rep.add_tlc(name, st)
        prob = 0.03 if thorough else 1.0
        n = replay_component(rep, st, rng, counts, prob=prob)
        rep.part(name, replayed=n, replay_probability=prob, **counts)
        need = ["rank0:none:val", "rank0:xyz:err", "rank1:xyz:val", "rank1:name:sqrt", "rank1:name:val", "rank1:name:err", "rank1:none:err",
                "rank1:xyz:err", "rank1:tuple:val", "rank2:xyz:val", "rank2:name:val", "rank2:tuple:val"]
        for cls in need:
            if counts.get(cls, 0) == 0:
                raise MachineryError(f"get_component: no replayed case of class {cls}")

    # ---------------- code -> spec : recorded calls validated by TLC
    recs = random_records(rep, rng, 3000 if thorough else 400)
    kinds = {}
    for r in recs:
        kinds[r["fn"]] = kinds.get(r["fn"], 0) + 1
    stv, bad = ftable.validate_records("ToGridRec.tla", ftable.REC_CFG, recs, "c30")
    rep.add_tlc("c30_records", stv)
    rep.add_traces(len(recs))
    rep.part("c30_records", **kinds, to_grid_errors=sum(1 for r in recs if r["fn"] == "to_grid" and r["err"]))
    site = {"to_grid": "to_grid", "find_grid": "find_grid", "component": "get_component"}
    for i, clauses in bad.items():
        if "in_domain" in clauses:
            raise MachineryError(f"harness generated a record outside the specification's domain: {recs[i]}")
        rep.violation(f"{site[recs[i]['fn']]}:recorded", dict(record=recs[i], failing_clauses=clauses))
    rep.sample(recs[0])
    # binding self-test
    cor = []
    r0 = copy.deepcopy(next(r for r in recs if r["fn"] == "to_grid" and not r["err"] and len(r["out"]) > 2 and r["out"][0] != r["out"][1]))
    r0["out"][0], r0["out"][1] = r0["out"][1], r0["out"][0]
    cor.append(r0)
    r1 = copy.deepcopy(next(r for r in recs if r["fn"] == "component" and r["tag"] == "val" and r["ndim"] == 2 and r["kind"] == "xyz"))
    r1["v"] += 1
    cor.append(r1)
    r2 = copy.deepcopy(next(r for r in recs if r["fn"] == "to_grid" and r["err"]))
    r2["err"] = ""
    r2["out"] = [[1, 1]] * (r2["g"][0] * r2["g"][1] * r2["g"][2])
    r2["knew"] = [[s // (r2["g"][1] * r2["g"][2]), (s // r2["g"][2]) % r2["g"][1], s % r2["g"][2]] for s in range(len(r2["out"]))]
    r2["shape"] = r2["g"]
    cor.append(r2)
    _, b2 = ftable.validate_records("ToGridRec.tla", ftable.REC_CFG, cor, "c30_selftest")
    if sorted(b2) != [0, 1, 2]:
        raise MachineryError(f"binding self-test failed: corrupted records accepted ({sorted(b2)})")
    rep.part("binding_selftest", corrupted_records_rejected={str(k): v for k, v in b2.items()})

    # ---------------- end to end (numeric): run() + TabulatorAll(mode='grid') vs evaluate_k at every grid point
    if facts is not None:
        numeric_grid(rep, rng, facts, thorough)
    return rep.finish()


C4Z = [[0, -1, 0], [1, 0, 0], [0, 0, 1]]
C2Z = [[-1, 0, 0], [0, -1, 0], [0, 0, 1]]
INV = [[-1, 0, 0], [0, -1, 0], [0, 0, -1]]


def numeric_grid(rep, rng, facts, thorough):
    import wannierberri as wb
    from wannierberri import calculators as calc
    which = ("Energy", "berry", "vel")
    tol = 1e-8
    wd = workdir("c30_run")
    maxdev = 0.0
    nruns = 0
    # (grid, generators in reduced coordinates, names for set_pointgroup, lattice)
    setups = [((2, 2, 3), None, None), ((2, 2, 3), [C4Z, INV], ["C4z", "Inversion"])]
    if thorough:
        setups += [((1, 2, 3), None, None), ((3, 2, 1), [C2Z, INV], ["C2z", "Inversion"]), ((2, 3, 2), [C2Z], ["C2z"]), ((3, 3, 1), [C4Z, INV], ["C4z", "Inversion"])]
    for g, gens, names in setups:
        if tuple(g) not in facts:
            raise MachineryError(f"grid {g} is not among the grids of MC_ToGrid")
        fl = sorted((tuple(d), tuple(f)) for d, f in facts[tuple(g)])
        for _try in range(60):
            system = U.random_system(rng, nw=3, generators=gens, lattice=np.diag([1.0, 1.0, 1.3]) if gens else None)
            if names:
                with quiet():
                    system.set_pointgroup(names)
            kpts = [(i0, i1, i2) for i0 in range(g[0]) for i1 in range(g[1]) for i2 in range(g[2])]
            single = {k: U.eval_point(system, np.array(k) / np.array(g), which) for k in kpts}
            gap = min(float(np.min(np.diff(s["Energy"]))) for s in single.values())
            if gap >= GAP_MIN:  # per-band quantities are ill-conditioned near degeneracies (error ~ eps/gap^3): take another model
                break
        else:
            raise MachineryError("no random model without near-degenerate bands on the grid")
        if names and (C4Z in gens):
            fl = [(d, f) for d, f in fl if d[0] == d[1]]       # Grid() demands symmetric NKdiv / NKFFT
        if not thorough:
            fl = [fl[0], fl[-1]] + rng.sample(fl[1:-1], min(2, len(fl) - 2))
        for div, fft in fl:
            for sym in ([False, True] if names else [False]):
                ib = rng.choice([None, [0, 2]])
                with quiet(), warnings.catch_warnings():
                    warnings.simplefilter("ignore")
                    grid = wb.Grid(system, NKdiv=list(div), NKFFT=list(fft))
                    tall = calc.TabulatorAll(U.tab_calculators(which), ibands=ib, mode="grid")
                    res = wb.run(system, grid=grid, calculators={"tab": tall}, parallel=False, use_irred_kpt=sym, symmetrize=sym,
                                 fout_name=wd + "/r").results["tab"]
                nruns += 1
                bands = [0, 1, 2] if ib is None else ib
                detail = dict(grid=list(g), NKdiv=list(div), NKFFT=list(fft), symmetry=names if sym else None, ibands=ib)
                rep.case(("tab_grid", g, div, fft, sym, repr(ib), repr(names)))
                if res.grid is None or tuple(int(x) for x in res.grid) != tuple(g):
                    rep.violation("tabulate_grid:grid", dict(detail, got=None if res.grid is None else [int(x) for x in res.grid]))
                    continue
                kn = np.asarray(res.kpoints) * np.array(g)[None, :]
                if kn.shape != (len(kpts), 3) or np.abs(kn - np.array(kpts)).max() > 1e-9:
                    rep.violation("tabulate_grid:kpoints_not_C_order", dict(detail, got=np.asarray(res.kpoints).tolist()))
                    continue
                for q in which:
                    got = res.get_data(quantity=q)
                    exp = np.array([single[k][q][bands] for k in kpts]).reshape(tuple(g) + got.shape[3:])
                    if got.shape != exp.shape:
                        rep.violation(f"tabulate_grid:{q}:shape", dict(detail, got=got.shape, expected=exp.shape))
                        continue
                    dev = float(np.max(np.abs(got - exp)))
                    maxdev = max(maxdev, dev)
                    if dev > tol:
                        j = np.unravel_index(int(np.argmax(np.max(np.abs(got - exp).reshape(tuple(g) + (-1,)), axis=-1))), tuple(g))
                        rep.violation(f"tabulate_grid:{q}" + (":symmetry" if sym else ""),
                                      dict(detail, grid_point=[int(x) for x in j], maxdiff=dev, tolerance=tol))
    shutil.rmtree(wd, ignore_errors=True)
    rep.assume(f"numeric part: models whose bands come closer than {GAP_MIN} eV on the grid are replaced (per-band quantities are ill-conditioned there)")
    rep.part("numeric_only", what="run(TabulatorAll(mode='grid')) vs evaluate_k at every grid point (C order): Energy, Berry curvature (internal terms), "
                                  "velocity; factorisations from TLC; with and without use_irred_kpt/symmetrize",
             runs=nruns, max_deviation=maxdev, tolerance=tol)
    if maxdev * 1e4 > tol:
        rep.part("numeric_only", warning="observed deviation is less than 10^4 below the tolerance")
