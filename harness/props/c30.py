"""C30: grid tabulation covers every grid point with its own values.

spec  : ToGrid.tla (TABresult.to_grid / find_grid / K__Result.to_grid / get_component as operators shaped like the code +
        the loop-free statement of the property), MC_ToGrid (loop of to_grid over the k-points; sensitivity switch
        SlotFormula), MC_Component (every small tensor x every component specification)
bind  : finished TLC states are replayed on real TABresult / KBandResult objects with integer data (to_grid, get_data,
        find_grid, self_to_grid, get_component, get_component_list) and compared exactly; seeded random calls are recorded
        and validated by TLC against ToGridRec.tla.  Only what the statement of C30 names decides: every grid point once, in
        C order, with its own values; components = algebra on the tensor.  Internal details (value of find_grid on
        incomplete point sets, how a missing grid point is signalled, which of several equal images is taken, the
        exception class for a component that does not exist) are information.
end-to-end (numeric): run() with TabulatorAll(mode="grid") for factorisations (NKdiv, NKFFT) TLC lists for a grid, with
        and without symmetry reduction (tetragonal, hexagonal, time reversal), against evaluate_k at every grid point
        (tolerance 1e-8).
"""
import copy
import math
import os
import random
import re
import warnings

import numpy as np

from .. import tlc, ftable, tlaparse
from ..common import Report, MachineryError, seed, quiet
from . import _c2930_util as U

PROPS = {
    "C30": dict(level="model_checking",
                technique="TLC exhaustive on ToGrid.tla (loop-level transcription of TABresult.to_grid + K__Result.to_grid vs the loop-free statement: slot bijection onto C order, own values, a grid point without image has no value, find_grid recovers a complete grid; get_component as algebra on integer tensors) + replay of finished TLC states on real TABresult/KBandResult objects + TLC validation of recorded calls; numeric comparison of run(TabulatorAll, grid) with evaluate_k point by point",
                text="TLC enumerates grids (n_i <= 3, anisotropic), arrival orders (all permutations for tiny grids, C/F/reversed/rotated and "
                     "every (NKdiv, NKFFT) factorisation order otherwise), duplicated (equal-valued images), missing, shifted and off-grid points, "
                     "and tensors of rank 0..2 with every component specification of the domain CompOK. quick: every finished state is executed "
                     "on real TABresult/KBandResult objects built from integer data (a third of the to_grid calls with 1e-12 noise on the "
                     "k-points); thorough: every to_grid state and a seeded 3 % sample of the component states (all rank 0/1 and named ones). "
                     "Compared: get_data in C order with own values and k-points (to_grid, self_to_grid), find_grid where the point set has "
                     "every plane of the grid and no off-grid point, get_component for existing components, get_component_list of the real "
                     "class. Random larger cases are recorded from the real code and validated by TLC. End to end, run() with "
                     "TabulatorAll(mode='grid') (Energy, Berry curvature, velocity, inverse mass = rank 2) is compared with evaluate_k at "
                     "every grid point: quick: 4 of the factorisations TLC lists for (2,2,3) / (3,3,1) per set-up (first, last, 2 seeded); "
                     "thorough: all of them (axis-mixing rotations: those with NKdiv[0] = NKdiv[1]), grids up to (4,4,2); set-ups: no "
                     "symmetry with random Wannier centres, AA and external terms; C4z+inversion; time reversal; hexagonal C6z; each "
                     "symmetric one with and without use_irred_kpt/symmetrize.",
                note="find_grid inputs whose 1/dk is exactly half-way between two integers are excluded by the named predicate FindGridTie; "
                     "component specifications that do not name a component of the tensor on rank >= 2 are outside CompOK. Information only "
                     "(never a VIOLATION, the statement does not name them): value of find_grid on incomplete / off-grid point sets; a missing "
                     "grid point may raise any exception or leave NaN in exactly the empty slots; images of one grid point carry equal values "
                     "in all deciding cases (one case with different values is reported in info_duplicates); a component that does not exist "
                     "may raise any exception (a returned value is counted as information); grid / gridorder attributes. Tabulation with "
                     "adaptive refinement (adpt_num_iter > 0) is not part of the deciding cases.",
                ref="DESIGN.md 3.2, 3.6"),
}

W = int(os.environ.get("VERIF_TLC_WORKERS", "16"))
GAP_MIN = 0.05                   # smallest band gap admitted in the numeric comparisons (named exclusion)
XYZ = {"x": 0, "y": 1, "z": 2}
BW = (1, -2)                     # integer weight of band b
SC = ((1, -2), (3, 2))           # integer scale of (k-point, band) in the component tests
NOISE = 1e-12                    # float noise put on near-grid k-points (symmetry transforms produce such k-points)


# ---------------------------------------------------------------- real objects with integer data
def tensor_w(rank):
    """distinct integer weights of the tensor components"""
    if rank == 0:
        return np.array(1.0)
    if rank == 1:
        return np.array([2.0, 3.0, 5.0])
    return np.array([[1.0, 2.0, 3.0], [4.0, 5.0, 6.0], [7.0, 8.0, 9.0]])


def make_tab(pts, M, vals, mode="grid", noise=None):
    """noise: numpy RandomState -> every coordinate is moved by at most NOISE"""
    from wannierberri.result import KBandResult, TABresult
    k = np.array(pts, dtype=float) / np.array(M, dtype=float)[None, :]
    if noise is not None:
        k = k + NOISE * (2 * noise.rand(*k.shape) - 1)
    v = np.array(vals, dtype=float)
    res = {}
    for name, rank in (("Energy", 0), ("vec", 1), ("ten", 2)):
        d = v.reshape((-1, 1) + (1,) * rank) * np.array(BW, dtype=float).reshape((1, 2) + (1,) * rank) * tensor_w(rank)[None, None]
        res[name] = KBandResult(d, rank=rank)
    return TABresult(kpoints=k, recip_lattice=np.eye(3), results=res, mode=mode)


def build_tab(rep, *a, **kw):
    """the harness's own construction of a TABresult: a failure is never a VIOLATION"""
    try:
        with quiet():
            return make_tab(*a, **kw)
    except Exception as ex:
        U.library_site(ex)
        U.skipped(rep, "TABresult", ex)
        return None


def real_find_grid(tab):
    fg = tab.find_grid
    if callable(fg):
        fg = fg()
    return [int(x) for x in fg]


def call_to_grid(rep, tab, g, self_mode=False):
    """-> ("ok", TABresult on the grid) | ("raised", exception raised inside the package) | ("skipped", None)"""
    try:
        with quiet(), warnings.catch_warnings():
            warnings.simplefilter("ignore")
            if self_mode:
                tab.self_to_grid()
                return "ok", tab
            return "ok", tab.to_grid(np.array(g, dtype=int), order="C")
    except Exception as ex:
        if U.library_site(ex) is None:
            U.skipped(rep, "self_to_grid" if self_mode else "to_grid", ex)
            return "skipped", None
        return "raised", ex


def cmp_grid_result(res, g, exp, tol=1e-9):
    """res: real TABresult on the grid; exp: per slot (sum, count), count 0 = a grid point without image (must be NaN).
    None if the k-points are the grid points in C order and every get_data entry is the expected value"""
    g = tuple(int(x) for x in g)
    kn = np.asarray(res.kpoints, dtype=float) * np.array(g)[None, :]
    if kn.shape != (len(exp), 3) or not np.all(np.isfinite(kn)) or np.abs(kn - np.rint(kn)).max() > tol:
        return "k-points of the grid result are not the grid points"
    for s in range(len(exp)):
        i0, i1, i2 = s // (g[1] * g[2]), (s // g[2]) % g[1], s % g[2]
        if [int(x) % g[c] for c, x in enumerate(np.rint(kn[s]))] != [i0, i1, i2]:
            return f"k-point of slot {s} is {np.asarray(res.kpoints)[s].tolist()}, not {(i0, i1, i2)}/{g}"
    with quiet():
        E = np.asarray(res.get_data("Energy"), dtype=float)
        E1 = np.asarray(res.get_data("Energy", iband=1), dtype=float)
        V = np.asarray(res.get_data("vec"), dtype=float)
        Vy = np.asarray(res.get_data("vec", component="y"), dtype=float)
        Tt = np.asarray(res.get_data("ten", component="trace"), dtype=float)
        Tzx = np.asarray(res.get_data("ten", component=(2, 0), iband=[1]), dtype=float)
    shapes = dict(E=(E.shape, g + (2,)), E1=(E1.shape, g), V=(V.shape, g + (2, 3)), Vy=(Vy.shape, g + (2,)), Tt=(Tt.shape, g + (2,)), Tzx=(Tzx.shape, g + (1,)))
    for k, (a, b) in shapes.items():
        if tuple(a) != tuple(b):
            return f"get_data shape {k}: {a} instead of {b}"
    for s, (sm, cnt) in enumerate(exp):
        i0, i1, i2 = s // (g[1] * g[2]), (s // g[2]) % g[1], s % g[2]
        allv = [E[i0, i1, i2, b] for b in range(2)] + [Vy[i0, i1, i2, b] for b in range(2)] + [Tt[i0, i1, i2, b] for b in range(2)] \
            + [V[i0, i1, i2, b, c] for b in range(2) for c in range(3)] + [E1[i0, i1, i2], Tzx[i0, i1, i2, 0]]
        if cnt == 0:
            if not all(np.isnan(x) for x in allv):
                return f"slot {s} = grid point {(i0, i1, i2)} has no image but carries values {[float(x) for x in allv[:2]]}"
            continue
        avg = sm / cnt
        scale = max(1.0, abs(avg)) * 20
        for b in range(2):
            pairs = [(E[i0, i1, i2, b], avg * BW[b]), (Vy[i0, i1, i2, b], avg * BW[b] * 3), (Tt[i0, i1, i2, b], avg * BW[b] * 15)]
            pairs += [(V[i0, i1, i2, b, c], avg * BW[b] * tensor_w(1)[c]) for c in range(3)]
            for got, e in pairs:
                if not abs(got - e) <= tol * scale:
                    return f"slot {s} = grid point {(i0, i1, i2)} band {b}: {got} instead of {e}"
        if not abs(E1[i0, i1, i2] - avg * BW[1]) <= tol * scale or not abs(Tzx[i0, i1, i2, 0] - avg * BW[1] * 7) <= tol * scale:
            return f"slot {s} = grid point {(i0, i1, i2)}: iband selection returns another value"
    return None


def grid_attr_info(rep, res, g):
    """information: the attributes grid / gridorder of the result"""
    try:
        ok = tuple(int(x) for x in res.grid) == tuple(g) and res.gridorder == "C"
    except Exception:
        ok = False
    U.info(rep, "info_grid_attributes", "grid_and_gridorder_as_specified" if ok else "other")


def judge_grid(rep, site, status, res, g, out, detail):
    """outcome of a to_grid / self_to_grid call against the specification's result `out` (err, data)"""
    if status == "skipped":
        return
    if status == "raised":
        if out["err"]:
            U.info(rep, "info_missing_point", f"raises_{type(res).__name__}")
        else:
            rep.violation(f"raises:{site}:{type(res).__name__}", dict(detail, exception=repr(res)[:300], note="every grid point has an image"))
        return
    if out["err"]:
        U.info(rep, "info_missing_point", "returns_a_result")
    try:
        bad = cmp_grid_result(res, g, out["data"])
    except Exception as ex:
        if U.library_site(ex) is None:
            U.skipped(rep, "get_data", ex)
            return
        rep.violation(f"raises:get_data:{type(ex).__name__}", dict(detail, exception=repr(ex)[:300]))
        return
    if bad:
        rep.violation(f"{site}:values" if not out["err"] else f"{site}:missing_point_has_value",
                      dict(detail, what=bad, expected_sum_count=[list(x) for x in out["data"]]))
    else:
        grid_attr_info(rep, res, g)


def py_component(comp, rng=None):
    kind, c = comp["kind"], list(comp["c"])
    if kind == "none":
        return None
    if kind == "tuple":
        return tuple(XYZ[x] for x in c)
    s = "".join(c)
    if rng is not None and rng.random() < 0.3:
        s = s.upper() if rng.random() < 0.5 else s.capitalize()
    return s


def call_component(rep, ndim, T, comp, how):
    """the real get_component on data[ik, ib] = T * SC[ik][ib]; -> ("ok", array (2, 2)) | ("shape", shape) |
    ("raised", exception raised inside the package) | ("skipped", None)"""
    data = np.array(SC, dtype=float).reshape((2, 2) + (1,) * ndim) * np.array(T, dtype=float)[None, None]
    try:
        from wannierberri.result import kbandresult as KB
        from wannierberri.result import KBandResult, TABresult
        with quiet(), warnings.catch_warnings():
            warnings.simplefilter("ignore")
            if how == "function":
                out = KB.get_component(data, ndim, comp)
            elif how == "method":
                out = KBandResult(data, rank=ndim).get_component(comp)
            else:
                tab = TABresult(kpoints=[[0, 0, 0], [0, 0, 0.5]], recip_lattice=np.eye(3), mode="grid",
                                results={"Energy": KBandResult(np.zeros((2, 2)), rank=0), "Q": KBandResult(data, rank=ndim)})
                tab = tab.to_grid(np.array([1, 1, 2]), order="C")
                out = np.asarray(tab.get_data("Q", component=comp))
                if out.shape[:3] != (1, 1, 2):
                    return "shape", out.shape
                out = out.reshape((2,) + out.shape[3:])
    except Exception as ex:
        if U.library_site(ex) is None:
            U.skipped(rep, f"get_component:{how}", ex)
            return "skipped", None
        return "raised", ex
    return "ok", np.asarray(out)


def cmp_component(got, exp, tol=1e-9):
    """exp: dict(tag, v) of the specification with tag val / sqrt.  None or a description"""
    kind, arr = got
    if kind != "ok":
        return f"unexpected {kind} {arr}"
    if arr.shape != (2, 2):
        return f"shape {arr.shape} instead of (2, 2)"
    S = np.array(SC, dtype=float)
    v = exp["v"]
    if exp["tag"] == "val":
        e = v * S * S if exp.get("quad") else v * S          # 'sq' is quadratic in the data
    else:
        e = math.sqrt(v) * np.abs(S)
    if not np.abs(arr - e).max() <= tol * max(1.0, np.abs(e).max()):
        return f"{arr.tolist()} instead of {e.tolist()}"
    return None


def comp_of_list_entry(x):
    """an entry of get_component_list -> the specification's component record"""
    if x is None:
        return dict(kind="none", c=[])
    s = str(x)
    if s and all(ch in "xyz" for ch in s):
        return dict(kind="xyz", c=list(s))
    return dict(kind="name", c=[s])


# ---------------------------------------------------------------- configurations
def cfg_togrid(grids, maxperm, mults, formula="code"):
    inv = ["InvBijection", "InvOwnValues", "InvMissing", "InvFindGrid", "InvSelfToGrid"] + (["LoopIsOperator"] if formula == "code" else [])
    return ("SPECIFICATION Spec\nCONSTANTS\n"
            f"  Grids <- {grids}\n  MaxAllPerm = {maxperm}\n  Mults <- {mults}\n  SlotFormula = \"{formula}\"\n"
            + "".join(f"INVARIANT {i}\n" for i in inv) + "CHECK_DEADLOCK FALSE\n")


def cfg_component(e0, e1, e2):
    inv = ["InvSelect", "InvStringIsTuple", "InvTrace", "InvTraceOfStrings", "InvNorm", "InvSq", "InvScalar", "InvErrors", "InvList"]
    return (f"SPECIFICATION Spec\nCONSTANTS\n  Entries0 <- {e0}\n  Entries1 <- {e1}\n  Entries2 <- {e2}\n"
            + "".join(f"INVARIANT {i}\n" for i in inv) + "CHECK_DEADLOCK FALSE\n")


def all_planes(pts, g, m):
    return all(any((p[c] - v * m[c]) % (g[c] * m[c]) == 0 for p in pts) for c in range(3) for v in range(g[c]))


def replay_togrid(rep, st, rng, counts):
    n = 0
    nrs = np.random.RandomState(rng.randrange(1 << 30))
    for s in U.states_where(st):
        n += 1
        g, m, pts, vals, out, fg = s["g"], s["m"], s["pts"], s["vals"], s["out"], s["fg"]
        M = [a * b for a, b in zip(g, m)]
        ngrid = g[0] * g[1] * g[2]
        on = [all(p[c] % m[c] == 0 for c in range(3)) for p in pts]
        cls = "missing" if out["err"] else ("duplicate" if sum(on) > ngrid else "complete")
        if not all(on):
            cls += ":offgrid"
        if any(not (0 <= p[c] < M[c]) for p in pts for c in range(3)):
            cls += ":shifted"
        noisy = rng.random() < 0.33
        counts[cls] = counts.get(cls, 0) + 1
        if noisy:
            counts["with_noise"] = counts.get("with_noise", 0) + 1
        rep.case(("to_grid", g, m, pts, noisy), nontrivial=ngrid > 1)
        detail = dict(grid=list(g), mesh=M, kpoints_int=[list(p) for p in pts], values=list(vals), band_weights=list(BW), kpoint_noise=NOISE if noisy else 0)
        tab0 = build_tab(rep, pts, M, vals)
        tab = build_tab(rep, pts, M, vals, noise=nrs) if noisy else tab0
        if tab0 is None or tab is None:
            continue
        # find_grid: decides only where the point set has every plane of the grid and no off-grid point
        recover = all(on) and all_planes(pts, g, m)
        try:
            with quiet():
                got_fg = real_find_grid(tab0)
        except Exception as ex:
            if U.library_site(ex) is None:
                U.skipped(rep, "find_grid", ex)
            elif recover:
                rep.violation(f"raises:find_grid:{type(ex).__name__}", dict(detail, exception=repr(ex)[:300]))
            else:
                U.info(rep, "info_find_grid", f"incomplete_set_raises_{type(ex).__name__}")
            got_fg = None
        if got_fg is not None:
            if recover:
                counts["find_grid_recovers"] = counts.get("find_grid_recovers", 0) + 1
                if got_fg != list(g):
                    rep.violation("find_grid:does_not_recover_grid", dict(detail, expected=list(g), got=got_fg))
            else:
                U.info(rep, "info_find_grid", "incomplete_set_as_specified" if got_fg == list(fg) else "incomplete_set_other_value")
        status, res = call_to_grid(rep, tab, g)
        if status != "skipped":
            counts["to_grid"] = counts.get("to_grid", 0) + 1
        judge_grid(rep, "to_grid", status, res, g, out, detail)
        # self_to_grid = to_grid(find_grid) where find_grid recovers the grid
        if recover:
            tab2 = build_tab(rep, pts, M, vals)
            if tab2 is not None:
                status, res = call_to_grid(rep, tab2, g, self_mode=True)
                judge_grid(rep, "self_to_grid", status, res, g, out, detail)
        if n <= 2:
            rep.sample(dict(fn="TABresult.to_grid", **detail, expected=dict(err=out["err"], sum_count=[list(x) for x in out["data"]])))
    return n


def replay_component(rep, st, rng, counts, prob=1.0):
    n = 0
    for s in U.states_where(st, marker="ndim", prob=prob, rng=rng, always=("ndim = 0", "ndim = 1", '"name"')):
        n += 1
        ndim, T, comp, out = s["ndim"], s["T"], s["comp"], dict(s["out"])
        if comp["kind"] == "name" and tuple(comp["c"]) == ("sq",) and out["tag"] == "val":
            out["quad"] = True
        cls = f"rank{ndim}:{comp['kind']}:{out['tag']}"
        counts[cls] = counts.get(cls, 0) + 1
        rep.case(("component", ndim, T, comp["kind"], comp["c"]), nontrivial=out["tag"] != "err")
        pc = py_component(comp, rng)
        hows = ["function", "method"] + (["get_data"] if pc is not None else [])
        for how in hows:
            got = call_component(rep, ndim, T, pc, how)
            if got[0] == "skipped":
                continue
            counts["calls"] = counts.get("calls", 0) + 1
            key = f"get_component:{how}:{comp['kind']}" + (":" + "".join(comp["c"]) if comp["kind"] == "name" else "")
            detail = dict(rank=ndim, tensor=T, component=pc, scale=SC, expected=out)
            if out["tag"] == "err":
                # the component does not exist: any exception will do; a returned value is information
                U.info(rep, "info_no_such_component", f"raises_{type(got[1]).__name__}" if got[0] == "raised" else "returns_a_value")
                continue
            if got[0] == "raised":
                rep.violation(f"raises:get_component:{type(got[1]).__name__}", dict(detail, how=how, exception=repr(got[1])[:300]))
                continue
            bad = cmp_component(got, out)
            if bad:
                rep.violation(key, dict(detail, what=bad))
        if n <= 2 or (ndim == 2 and counts[cls] == 1 and comp["kind"] == "name"):
            rep.sample(dict(fn="get_component", rank=ndim, tensor=T, component=pc, expected=out))
    return n


# ---------------------------------------------------------------- records
def rand_tensor(rng, rank):
    if rank == 0:
        return rng.randint(-9, 9)
    return [rand_tensor(rng, rank - 1) for _ in range(3)]


def component_record(rep, rng, ndim, T, comp, how):
    """one recorded get_component call (None: nothing to record)"""
    pc = py_component(comp, rng)
    kind, arr = call_component(rep, ndim, T, pc, how)
    S = np.array(SC, dtype=float)
    if kind == "skipped":
        return None
    if kind == "raised":
        return dict(fn="component", ndim=ndim, T=T, kind=comp["kind"], c=comp["c"], tag="err", v=0, exception=type(arr).__name__)
    if kind != "ok" or arr.shape != (2, 2) or not np.all(np.isfinite(arr)):
        return dict(fn="component", ndim=ndim, T=T, kind=comp["kind"], c=comp["c"], tag="shape", v=0, got=str(arr))
    if comp["kind"] == "name" and comp["c"] == ["norm"]:
        q, tag = (arr / np.abs(S)) ** 2, "sqrt"
    elif comp["kind"] == "name" and comp["c"] == ["sq"]:
        q, tag = arr / (S * S), "val"
    else:
        q, tag = arr / S, "val"
    v = int(round(q[0, 0]))
    if np.abs(q - v).max() > 1e-9 * max(1, abs(v)):
        return dict(fn="component", ndim=ndim, T=T, kind=comp["kind"], c=comp["c"], tag="nonlinear", v=0, got=arr.tolist())
    return dict(fn="component", ndim=ndim, T=T, kind=comp["kind"], c=comp["c"], tag=tag, v=v)


def comp_ok(ndim, comp):
    """CompOK of the specification"""
    k, c = comp["kind"], comp["c"]
    if k == "tuple":
        return len(c) == ndim
    if k == "none":
        return ndim <= 1
    if k == "xyz":
        return ndim <= 1 or len(c) == ndim
    return ndim <= 1 or c == ["trace"]


def spec_says_error(ndim, comp):
    """GetComponent of the specification = NoComponent (inside CompOK)"""
    k, c = comp["kind"], comp["c"]
    if k == "tuple":
        return False
    if ndim == 0:
        return k != "none"
    if ndim == 1:
        return not ((k == "xyz" and len(c) == 1) or (k == "name" and c in (["norm"], ["sq"])))
    return False


def complist_records(rep, rng, recs):
    """K__Result.get_component_list of the real class for ranks 0..3 + the extraction of every entry"""
    from wannierberri.result import KBandResult
    n = 0
    for ndim in (0, 1, 2, 3):
        T = rand_tensor(rng, ndim)
        data = np.array(SC, dtype=float).reshape((2, 2) + (1,) * ndim) * np.array(T, dtype=float)[None, None]
        try:
            with quiet():
                lst = list(KBandResult(data, rank=ndim).get_component_list())
        except Exception as ex:
            if U.library_site(ex) is None:
                U.skipped(rep, "get_component_list", ex)
                return n
            rep.violation(f"raises:get_component_list:{type(ex).__name__}", dict(rank=ndim, exception=repr(ex)[:300]))
            continue
        rep.case(("complist", ndim))
        entries = [comp_of_list_entry(x) for x in lst]
        recs.append(dict(fn="complist", ndim=ndim, out=entries, raw=[str(x) for x in lst]))
        n += 1
        for x, comp in zip(lst, entries):
            if not comp_ok(ndim, comp):
                continue            # reported by the complist record (not in ComponentList)
            kind, arr = call_component(rep, ndim, T, x, "method")
            if kind == "raised":
                rep.violation("get_component_list:entry_cannot_be_extracted", dict(rank=ndim, tensor=T, component=x, exception=repr(arr)[:300]))
                continue
            r = component_record(rep, None, ndim, T, comp, "method")
            if r is not None:
                recs.append(r)
    return n


def slot_vals(rng, g):
    return [rng.randint(-20, 20) for _ in range(g[0] * g[1] * g[2])]


def random_records(rep, rng, nrec):
    recs = []
    nrs = np.random.RandomState(rng.randrange(1 << 30))
    complist_records(rep, rng, recs)
    tries = 0
    while len(recs) < nrec:
        tries += 1
        if tries > 40 * nrec + 1000:
            raise MachineryError(f"random_records: only {len(recs)} of {nrec} records after {tries} attempts")
        r = rng.random()
        if r < 0.5:
            g = [rng.randint(1, 4), rng.randint(1, 3), rng.randint(1, 5)]
            m = rng.choice([[1, 1, 1], [1, 1, 1], [2, 1, 1], [1, 3, 2]])
            M = [a * b for a, b in zip(g, m)]
            full = [[a * m[0], b * m[1], c * m[2]] for a in range(g[0]) for b in range(g[1]) for c in range(g[2])]
            sv = slot_vals(rng, g)          # all images of one grid point carry the same value
            val_of = {tuple(p): sv[s] for s, p in enumerate(full)}
            rng.shuffle(full)
            pts = list(full)
            what = rng.random()
            if what < 0.25 and len(pts) > 1:
                for _ in range(rng.randint(1, 2)):
                    if len(pts) > 1:
                        pts.pop(rng.randrange(len(pts)))
            elif what < 0.6:
                for _ in range(rng.randint(1, 4)):
                    pts.insert(rng.randrange(len(pts) + 1), list(rng.choice(full)))
            vals = [val_of[tuple(p)] for p in pts]
            if m != [1, 1, 1] and rng.random() < 0.5:
                j = rng.randrange(len(pts) + 1)
                pts.insert(j, [rng.choice(full)[0] + 1, 0, 1])
                vals.insert(j, rng.randint(30, 50))
            pts = [[p[c] + M[c] * rng.choice([0, 0, 0, 1, -1, 2]) for c in range(3)] for p in pts]
            noisy = rng.random() < 0.3
            tab = build_tab(rep, pts, M, vals, noise=nrs if noisy else None)
            if tab is None:
                raise MachineryError("TABresult cannot be built the way the harness builds it (see skipped_private)")
            status, res = call_to_grid(rep, tab, g)
            if status == "skipped":
                raise MachineryError("TABresult.to_grid cannot be called the way the harness calls it (see skipped_private)")
            rec = dict(fn="to_grid", g=g, m=m, pts=pts, vals=vals, err="", raised=status == "raised", out=[], knew=[], shape=[], noisy=noisy)
            if status == "raised":
                rec.update(err="missing", exception=type(res).__name__)
            else:
                try:
                    with quiet():
                        E = np.asarray(res.get_data("Energy", iband=0), dtype=float)
                    kn = np.asarray(res.kpoints, dtype=float) * np.array(g)[None, :]
                except Exception as ex:
                    if U.library_site(ex) is None:
                        U.skipped(rep, "get_data", ex)
                        raise MachineryError("TABresult.get_data cannot be called the way the harness calls it (see skipped_private)")
                    rep.violation(f"raises:get_data:{type(ex).__name__}", dict(g=g, pts=pts, exception=repr(ex)[:300]))
                    continue
                flat = E.reshape(-1)            # C order
                fr = [None if np.isnan(x) else U.rat(x, maxden=64) for x in flat]
                if any(f is None and not np.isnan(x) for f, x in zip(fr, flat)) or kn.ndim != 2 or not np.all(np.isfinite(kn)) or np.abs(kn - np.rint(kn)).max() > 1e-9:
                    rep.violation("to_grid:values", dict(g=g, pts=pts, vals=vals, got=flat.tolist(), what="not averages of the integer data / k-points not grid points"))
                    continue
                rec.update(out=[[0, 0] if f is None else [f.numerator, f.denominator] for f in fr],
                           knew=[[int(x) % g[c] for c, x in enumerate(np.rint(k))] for k in kn], shape=list(E.shape),
                           err="missing" if any(f is None for f in fr) else "")
            recs.append(rec)
            rep.case(("rec_to_grid", tuple(g), tuple(m), repr(pts), noisy))
            # find_grid of the same point set (when inside its domain)
            if not find_grid_tie(pts, M):
                tab1 = build_tab(rep, pts, M, vals)
                try:
                    with quiet():
                        fgr = real_find_grid(tab1)
                except Exception as ex:
                    if U.library_site(ex) is None:
                        U.skipped(rep, "find_grid", ex)
                    elif all_planes(pts, g, m) and all(all(p[c] % m[c] == 0 for c in range(3)) for p in pts):
                        rep.violation(f"raises:find_grid:{type(ex).__name__}", dict(g=g, pts=pts, exception=repr(ex)[:300]))
                    continue
                recs.append(dict(fn="find_grid", g=g, m=m, pts=pts, out=fgr))
                rep.case(("rec_find_grid", tuple(g), tuple(m), repr(pts)))
        else:
            ndim = rng.choice([0, 1, 1, 2, 2, 2, 3])
            T = rand_tensor(rng, ndim)
            kinds = []
            if ndim <= 1:
                kinds.append(dict(kind="none", c=[]))
            kinds += [dict(kind="name", c=["trace"])]
            if ndim <= 1:
                kinds += [dict(kind="name", c=[x]) for x in ("norm", "sq", "abc")]
            kinds += [dict(kind="tuple", c=[rng.choice("xyz") for _ in range(ndim)]) for _ in range(2)]
            kinds += [dict(kind="xyz", c=[rng.choice("xyz") for _ in range(ndim)]) for _ in range(3)] if ndim else []
            if ndim <= 1:
                kinds += [dict(kind="xyz", c=[rng.choice("xyz") for _ in range(ndim + 1)])]
                kinds += [dict(kind="xyz", c=[rng.choice("xyz") for _ in range(rng.randint(1, 3))])]
            comp = rng.choice(kinds)
            rec = component_record(rep, rng, ndim, T, comp, rng.choice(["function", "method"]))
            if rec is None:
                raise MachineryError("get_component cannot be called the way the harness calls it (see skipped_private)")
            if spec_says_error(ndim, comp):
                # a component that does not exist: any exception will do; a value is information, nothing is recorded
                U.info(rep, "info_no_such_component", f"raises_{rec['exception']}" if rec["tag"] == "err" else "returns_a_value")
                if rec["tag"] != "err":
                    continue
            elif rec["tag"] == "err":
                rep.violation(f"raises:get_component:{rec['exception']}", dict(rank=ndim, tensor=T, component=comp))
                continue
            elif rec["tag"] in ("shape", "nonlinear"):
                rep.violation("get_component:" + ("shape" if rec["tag"] == "shape" else "not_linear_in_data"), dict(rank=ndim, tensor=T, component=comp, got=rec.get("got"), scale=SC))
                continue
            recs.append(rec)
            rep.case(("rec_component", ndim, repr(T), comp["kind"], tuple(comp["c"])))
    return recs


def find_grid_tie(pts, M):
    for c in range(3):
        S = sorted(set(p[c] % M[c] for p in pts) | {M[c]})
        d = max(b - a for a, b in zip(S, S[1:]))
        if (2 * M[c]) % (2 * d) == d:
            return True
    return False


def duplicates_info(rep):
    """information: what to_grid does with two images of one grid point that carry DIFFERENT values (in the deciding
    cases all images agree, as symmetry images do)"""
    tab = build_tab(rep, [[0, 0, 0], [0, 0, 1], [0, 0, 0]], [1, 1, 2], [3, 10, 7])
    if tab is None:
        return
    status, res = call_to_grid(rep, tab, [1, 1, 2])
    rule = status
    if status == "ok":
        try:
            with quiet():
                v = float(np.asarray(res.get_data("Energy", iband=0)).reshape(-1)[0])
            rule = {5.0: "mean of the images (3, 7) -> 5", 3.0: "first image", 7.0: "last image"}.get(v, f"value {v}")
        except Exception as ex:
            rule = f"get_data raises {type(ex).__name__}"
    rep.part("info_duplicates", images_with_different_values=rule)


# ---------------------------------------------------------------- the check
def check(pid, tier):
    rep = Report(pid, tier, "model_checking")
    scr = U.Scratch(pid)
    try:
        return _check(rep, scr, tier)
    except Exception:
        if rep.violations:          # never lose what was already found
            rep.finish()
        raise
    finally:
        scr.cleanup()


def _check(rep, scr, tier):
    thorough = tier == "thorough"
    rng = random.Random(seed() * 7919 + 30)
    rep.rule("TLC enumerates (a) grids x arrival orders x {complete, shifted, missing, duplicated, off-grid} point lists, (b) tensors of rank "
             "0..2 x component specifications; a case = one finished TLC state replayed on real TABresult/KBandResult objects with integer data "
             "(exact comparison; states sorted, so the cases depend on VERIF_SEED only) or one seeded random recorded call validated by TLC; "
             "distinct by input tuple")
    rep.assume("data are small integers times integer band/component weights, k-points are i/N (a third of them moved by <= 1e-12): the float "
               "results are exact to 1e-13 (tolerance 1e-9)")
    rep.assume("find_grid inputs whose 1/dk is exactly half-way between integers (FindGridTie) are excluded: the code rounds a float there")
    rep.assume("all images of one grid point carry the same value in the deciding cases (symmetry / periodic images)")

    # ---------------- spec: to_grid
    counts = {}
    name = "c30_togrid"
    cfg = cfg_togrid("GridsMid", 4, "MultsTwo") if thorough else cfg_togrid("GridsQuick", 3, "MultsTwo")
    st = ftable.enumerate_states("MC_ToGrid.tla", cfg, scr.tlc("togrid"), workers=W, timeout=3000)
    facts = None
    if not ftable.spec_violation(rep, st, name):
        tlc.check_not_vacuous(st, ["OnGridPoint", "OffGridPoint", "CollectAll"], name)
        rep.add_tlc(name, st)
        n = replay_togrid(rep, st, rng, counts)
        rep.part(name, replayed=n, **counts)
        if not U.was_skipped(rep, "TABresult", "to_grid"):
            for cls in ("complete", "duplicate", "missing", "complete:shifted", "with_noise", "to_grid"):
                if counts.get(cls, 0) == 0:
                    raise MachineryError(f"to_grid: no replayed case of class {cls}")
            if not any("offgrid" in k for k in counts):
                raise MachineryError("to_grid: no replayed case with an off-grid point")
            if counts.get("find_grid_recovers", 0) == 0 and not U.was_skipped(rep, "find_grid"):
                raise MachineryError("find_grid: no replayed case with a complete point set")
        pr = re.search(r'<<\s*"FACT",\s*("(?:[^"\\]|\\.)*")\s*>>', st["output"])
        if not pr:
            raise MachineryError("MC_ToGrid did not print the factorisations")
        facts = tlaparse.parse_value(tlaparse.parse_value(pr.group(1)))
    duplicates_info(rep)
    # sensitivity: the Fortran-order slot formula must be rejected
    st0 = tlc.run_tlc("MC_ToGrid.tla", cfg_togrid("GridsQuick", 3, "MultsOne", formula="fortran"), scr.tlc("togrid_v0"), workers=W, timeout=900)
    if not st0.get("violation"):
        raise MachineryError("sensitivity self-test failed: MC_ToGrid with SlotFormula=fortran should violate an invariant")
    rep.part("c30_togrid_v0", sensitivity_violation=st0["violation"][1])

    # ---------------- spec: components
    counts = {}
    name = "c30_component"
    cfg = cfg_component("EntriesWide", "EntriesWide", "EntriesSigned") if thorough else cfg_component("EntriesWide", "EntriesSigned", "EntriesSmall")
    st = ftable.enumerate_states("MC_Component.tla", cfg, scr.tlc("component"), workers=W, timeout=3000)
    if not ftable.spec_violation(rep, st, name):
        rep.add_tlc(name, st)
        prob = 0.03 if thorough else 1.0
        n = replay_component(rep, st, rng, counts, prob=prob)
        rep.part(name, replayed=n, replay_probability=prob, **counts)
        need = ["rank0:none:val", "rank0:xyz:err", "rank1:xyz:val", "rank1:name:sqrt", "rank1:name:val", "rank1:name:err", "rank1:none:err",
                "rank1:xyz:err", "rank1:tuple:val", "rank2:xyz:val", "rank2:name:val", "rank2:tuple:val"]
        for cls in need:
            if counts.get(cls, 0) == 0:
                raise MachineryError(f"get_component: no replayed case of class {cls}")
        if counts.get("calls", 0) == 0 and not U.was_skipped(rep, "get_component:function", "get_component:method", "get_component:get_data"):
            raise MachineryError("get_component: no call on the real code")

    # ---------------- code -> spec : recorded calls validated by TLC
    recs = random_records(rep, rng, 3000 if thorough else 400)
    kinds = {}
    for r in recs:
        kinds[r["fn"]] = kinds.get(r["fn"], 0) + 1
    stv, bad = ftable.validate_records("ToGridRec.tla", ftable.REC_CFG, recs, scr.rec("records"))
    rep.add_tlc("c30_records", stv)
    rep.add_traces(len(recs))
    rep.part("c30_records", **kinds, to_grid_missing=sum(1 for r in recs if r["fn"] == "to_grid" and r["err"]),
             to_grid_with_noise=sum(1 for r in recs if r["fn"] == "to_grid" and r.get("noisy")))
    site = {"to_grid": "to_grid", "find_grid": "find_grid", "component": "get_component", "complist": "get_component_list"}
    for i, clauses in sorted(bad.items()):
        if "in_domain" in clauses:
            raise MachineryError(f"harness generated a record outside the specification's domain: {recs[i]}")
        for c in clauses:
            if c.startswith("info_"):
                U.info(rep, "info_record_clauses", f"{recs[i]['fn']}:{c[5:]}:differs")
        deciding = [c for c in clauses if not c.startswith("info_")]
        if deciding:
            rep.violation(f"{site[recs[i]['fn']]}:recorded", dict(record=recs[i], failing_clauses=deciding))
    rep.sample(recs[0])
    # binding self-test

    def pick(cond, what):
        for r in recs:
            if cond(r):
                return copy.deepcopy(r)
        raise MachineryError(f"binding self-test: no record with {what} among {len(recs)} records (seed {seed()})")
    cor = []
    r0 = pick(lambda r: r["fn"] == "to_grid" and not r["err"] and len(r["out"]) > 2 and r["out"][0] != r["out"][1], "a complete to_grid result with two different values")
    r0["out"][0], r0["out"][1] = r0["out"][1], r0["out"][0]
    cor.append(r0)
    r1 = pick(lambda r: r["fn"] == "component" and r["tag"] == "val" and r["ndim"] == 2 and r["kind"] == "xyz", "a rank-2 xyz component")
    r1["v"] += 1
    cor.append(r1)
    r2 = pick(lambda r: r["fn"] == "to_grid" and r["err"], "a to_grid call with a missing point")
    ng = r2["g"][0] * r2["g"][1] * r2["g"][2]
    r2.update(err="", raised=False, out=[[1, 1]] * ng, shape=r2["g"],
              knew=[[s // (r2["g"][1] * r2["g"][2]), (s // r2["g"][2]) % r2["g"][1], s % r2["g"][2]] for s in range(ng)])
    cor.append(r2)
    r3 = pick(lambda r: r["fn"] == "complist" and r["ndim"] == 2, "the component list of rank 2")
    r3["out"] = r3["out"][1:]
    cor.append(r3)
    r4 = pick(lambda r: r["fn"] == "find_grid" and r["m"] == [1, 1, 1] and all_planes(r["pts"], r["g"], r["m"]) and max(r["g"]) > 1, "a find_grid call on a complete set")
    r4["out"] = [x + 1 for x in r4["out"]]
    cor.append(r4)
    _, b2 = ftable.validate_records("ToGridRec.tla", ftable.REC_CFG, cor, scr.rec("selftest"))
    rejected = sorted(i for i, cl in b2.items() if any(not c.startswith("info_") for c in cl))
    if rejected != list(range(len(cor))):
        raise MachineryError(f"binding self-test failed: corrupted records accepted (rejected: {rejected} of {len(cor)})")
    rep.part("binding_selftest", corrupted_records_rejected={str(k): [c for c in v if not c.startswith("info_")] for k, v in b2.items()})

    # ---------------- end to end (numeric): run() + TabulatorAll(mode='grid') vs evaluate_k at every grid point
    if facts is not None:
        numeric_grid(rep, scr, rng, facts, thorough)
    return rep.finish()


C4Z = [[0, -1, 0], [1, 0, 0], [0, 0, 1]]
C2Z = [[-1, 0, 0], [0, -1, 0], [0, 0, 1]]
INV = [[-1, 0, 0], [0, -1, 0], [0, 0, -1]]
C6Z_HEX = [[1, -1, 0], [1, 0, 0], [0, 0, 1]]        # 60 degrees about z on a1 = (1,0,0), a2 = (-1/2, sqrt(3)/2, 0): a1 -> a1+a2, a2 -> -a1
TETRA = [[1.0, 0, 0], [0, 1.0, 0], [0, 0, 1.3]]
HEX = [[1.0, 0, 0], [-0.5, math.sqrt(3) / 2, 0], [0, 0, 1.2]]


def numeric_grid(rep, scr, rng, facts, thorough):
    import wannierberri as wb
    from wannierberri import calculators as calc
    which = U.WHICH
    tol = 1e-8
    wd = scr.workdir("run")
    maxdev = 0.0
    nruns = 0
    kinds = {}
    # (name, grid, generators in reduced coordinates (hoppings invariant), names for set_pointgroup, lattice, real hoppings, NKdiv[0] = NKdiv[1] demanded)
    setups = [("nosym", (2, 2, 3), None, None, None, False, False),
              ("C4z+Inversion", (2, 2, 3), [C4Z, INV], ["C4z", "Inversion"], TETRA, False, True),
              ("TimeReversal", (2, 2, 3), None, ["TimeReversal"], None, True, False),
              ("hex:C6z", (3, 3, 1), [C6Z_HEX], ["C6z"], HEX, False, True)]
    if thorough:
        setups += [("nosym", (1, 2, 3), None, None, None, False, False),
                   ("C2z+Inversion", (3, 2, 1), [C2Z, INV], ["C2z", "Inversion"], TETRA, False, False),
                   ("C2z", (2, 3, 2), [C2Z], ["C2z"], TETRA, False, False),
                   ("C4z+Inversion", (3, 3, 1), [C4Z, INV], ["C4z", "Inversion"], TETRA, False, True),
                   ("C4z+TimeReversal", (4, 4, 2), [C4Z], ["C4z", "TimeReversal"], TETRA, True, True),
                   ("hex:C6z", (2, 2, 3), [C6Z_HEX], ["C6z"], HEX, False, True)]
    for sname, g, gens, names, lat, real, symdiv in setups:
        if tuple(g) not in facts:
            raise MachineryError(f"grid {g} is not among the grids of MC_ToGrid")
        fl = sorted((tuple(d), tuple(f)) for d, f in facts[tuple(g)])
        full = gens is None and not real            # random Wannier centres, AA matrix and external terms
        kpts = [(i0, i1, i2) for i0 in range(g[0]) for i1 in range(g[1]) for i2 in range(g[2])]
        for _try in range(60):
            system = U.random_system(rng, nw=3, generators=gens, lattice=lat, real=real, centres=full, aa=full)
            if names:
                with quiet():
                    system.set_pointgroup(names)
            single = {k: U.eval_point(system, np.array(k) / np.array(g), which, external=full) for k in kpts}
            gap = min(float(np.min(np.diff(s["Energy"]))) for s in single.values())
            if gap >= GAP_MIN:  # per-band quantities are ill-conditioned near degeneracies (error ~ eps/gap^3): take another model
                break
        else:
            raise MachineryError("no random model without near-degenerate bands on the grid")
        if symdiv:
            fl = [(d, f) for d, f in fl if d[0] == d[1]]       # Grid() demands NKdiv / NKFFT compatible with a rotation that mixes the axes
        if not thorough and len(fl) > 4:
            fl = [fl[0], fl[-1]] + rng.sample(fl[1:-1], 2)
        for div, fft in fl:
            for sym in ([False, True] if names else [False]):
                ib = rng.choice([None, [0, 2]])
                bands = [0, 1, 2] if ib is None else ib
                detail = dict(setup=sname, grid=list(g), NKdiv=list(div), NKFFT=list(fft), symmetry=names if sym else None, ibands=ib)

                def run_it():
                    with quiet(), warnings.catch_warnings():
                        warnings.simplefilter("ignore")
                        grid = wb.Grid(system, NKdiv=list(div), NKFFT=list(fft))
                        tall = calc.TabulatorAll(U.tab_calculators(which, external=full), ibands=ib, mode="grid")
                        return wb.run(system, grid=grid, calculators={"tab": tall}, parallel=False, use_irred_kpt=sym, symmetrize=sym,
                                      fout_name=wd + "/r").results["tab"]
                rep.case(("tab_grid", sname, g, div, fft, sym, repr(ib)))
                ok, res = U.guarded(rep, "run_grid", detail, run_it)
                if not ok:
                    continue
                nruns += 1
                kinds[sname + (":irred" if sym else "")] = kinds.get(sname + (":irred" if sym else ""), 0) + 1
                kn = np.asarray(res.kpoints, dtype=float) * np.array(g)[None, :]
                if kn.shape != (len(kpts), 3) or not np.all(np.isfinite(kn)) or np.abs((kn - np.array(kpts) + np.array(g) / 2) % np.array(g) - np.array(g) / 2).max() > 1e-9:
                    rep.violation("tabulate_grid:kpoints_not_C_order", dict(detail, got=np.asarray(res.kpoints).tolist()))
                    continue
                for q in which:
                    got = np.asarray(res.get_data(quantity=q))
                    exp = np.array([single[k][q][bands] for k in kpts])
                    exp = exp.reshape(tuple(g) + exp.shape[1:])
                    if got.shape != exp.shape:
                        rep.violation(f"tabulate_grid:{q}:shape", dict(detail, got=got.shape, expected=exp.shape))
                        continue
                    dev = float(np.max(np.abs(got - exp))) if np.all(np.isfinite(got)) else float("inf")
                    maxdev = max(maxdev, dev if np.isfinite(dev) else 0.0)
                    if dev > tol:
                        j = np.unravel_index(int(np.argmax(np.max(np.abs(np.nan_to_num(got - exp, nan=np.inf)).reshape(tuple(g) + (-1,)), axis=-1))), tuple(g))
                        rep.violation(f"tabulate_grid:{q}" + (":symmetry" if sym else ""),
                                      dict(detail, grid_point=[int(x) for x in j], maxdiff=dev, tolerance=tol))
    if nruns == 0 and not U.was_skipped(rep, "run_grid"):
        raise MachineryError("numeric part: no run")
    rep.assume(f"numeric part: models whose bands come closer than {GAP_MIN} eV on the grid are replaced (per-band quantities are ill-conditioned there)")
    rep.part("numeric_only", what="run(TabulatorAll(mode='grid')) vs evaluate_k at every grid point (C order): Energy, Berry curvature, velocity, inverse "
                                  "mass (rank 2); factorisations from TLC; with and without use_irred_kpt/symmetrize; set-up without symmetry: random "
                                  "Wannier centres, AA matrix, external terms",
             runs=nruns, max_deviation=maxdev, tolerance=tol, **kinds)
    if maxdev * 1e4 > tol:
        rep.part("numeric_only", warning="observed deviation is less than 10^4 below the tolerance")
