"""C20 finding (key System_R.symmetrize:mixed_centres), minimal reproduction; run: /venv/bin/python -m harness.props._c20_repro

(1) d shell on a polar trigonal (C3v) site, axes along the cubic directions
(2) p shell on a polar site of a hexagonal cell whose site group contains a mirror oblique to the Cartesian x, y axes
    (A at (1/2, 0, 1/4), B at (1/2, 1/2, 1/2)): px and py are mixed, s and pz are fine"""
import io
import contextlib
import warnings
import numpy as np


def main():
    warnings.simplefilter("ignore")
    import wannierberri as wb
    from wannierberri.system.system_R import System_R
    from wannierberri.fourier.rvectors import Rvectors
    rs = np.random.RandomState(0)
    lat = 4.0 * np.eye(3)
    positions = np.array([[0, 0, 0], [0.25, 0.25, 0.25]]); names = ["A", "B"]   # simple cubic cell, two species: point group C3v (+TR)
    def build(orb, nw):
        s = System_R(name="repro", silent=True)
        s.set_real_lattice(lat); s.num_wann = nw
        s.wannier_centers_cart = (positions[0] + 0.05 * (rs.rand(nw, 3) - 0.5)) @ lat       # centres near atom A
        iRvec = [(0, 0, 0), (1, 0, 0), (-1, 0, 0)]
        s.rvec = Rvectors(lattice=lat, iRvec=iRvec, shifts_left_red=s.wannier_centers_red)
        for key, cart in (("Ham", ()), ("AA", (3,))):
            X = rs.rand(3, nw, nw, *cart) - 0.5 + 1j * (rs.rand(3, nw, nw, *cart) - 0.5)
            X = 0.5 * (X + s.rvec.conj_XX_R(X))                                             # Hermitian: X(-R) = X(R)^+
            if key == "AA":
                X[s.rvec.iR0, np.arange(nw), np.arange(nw)] = 0
            s.set_R_mat(key, X)
        s.do_at_end_of_init()
        return s
    cases = [("cubic C3v", lat, positions, orb, nw) for orb, nw in (("t2g", 3), ("p", 3), ("eg", 2), ("d", 5))]
    hexlat = np.array([[4.0, 0, 0], [-2.0, 2.0 * np.sqrt(3), 0], [0, 0, 6.0]])
    hexpos = np.array([[0.5, 0, 0.25], [0.5, 0.5, 0.5]])
    cases += [("hexagonal  ", hexlat, hexpos, orb, nw) for orb, nw in (("s", 1), ("pz", 1), ("p", 3))]
    for label, lat, positions, orb, nw in cases:
        s = build(orb, nw)
        with contextlib.redirect_stdout(io.StringIO()):
            symm = s.symmetrize(proj=[f"A:{orb}"], positions=positions, atom_name=names, soc=False, magmom=None, silent=True)
            err, _ = s.check_symmetry(kpoint=np.array([0.123, 0.456, 0.789]))
            w1 = s.wannier_centers_cart.copy(); H1 = {tuple(R): s.get_R_mat("AA")[i].copy() for i, R in enumerate(s.rvec.iRvec)}
            s.symmetrize2(symm, silent=True)
        w2 = s.wannier_centers_cart
        print(f"{label} A:{orb:4s} point-group ops {len(s.pointgroup.symmetries):2d}  check_symmetry: " +
              ", ".join(f"{q}={max(v for (qq, _), v in err.items() if qq == q):.1e}" for q in sorted({k[0] for k in err})) +
              f"   second symmetrisation moves centres by {np.abs(w2 - w1).max():.1e}")


if __name__ == "__main__":
    main()
