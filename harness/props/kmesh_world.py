"""Real-code side of spec/KMesh.tla (C06): lattices, the catalogue of (magnetic) point groups by generator names, a stub
system for Grid / GridTetra, and the projections of K-points to the integers of the specification.

All projections round and VERIFY integrality (NonIntegral is raised otherwise; the caller turns it into a violation of
the exact comparison, never silently rounds)."""
import io
import contextlib
import warnings
import numpy as np

SQ3 = np.sqrt(3.0)
LATTICES = {
    "cub": np.eye(3),
    "tet": np.diag([1.0, 1.0, 1.5]),
    "ort": np.diag([1.0, 1.25, 1.5]),
    "hex": np.array([[1.0, 0, 0], [-0.5, SQ3 / 2, 0], [0, 0, 1.3]]),
}
# generator names as wannierberri understands them ("C3d" = Rotation(3, [1,1,1]))
GENS = {
    "ort_C1": [], "ort_Ci": ["Inversion"], "ort_TR": ["TimeReversal"], "ort_PT": ["TimeReversal*Inversion"],
    "ort_C2": ["C2z"], "ort_Cs": ["Mz"], "ort_C2h": ["C2z", "Inversion"], "ort_D2": ["C2z", "C2x"],
    "ort_C2v": ["C2z", "Mx"], "ort_D2h": ["C2z", "C2x", "Inversion"], "ort_mM2": ["Mx", "TimeReversal*C2z"],
    "ort_2pmp": ["TimeReversal*C2z", "TimeReversal*Mz"],
    "tet_C4": ["C4z"], "tet_S4": ["Inversion*C4z"], "tet_C4h": ["C4z", "Inversion"], "tet_D4": ["C4z", "C2x"],
    "tet_C4v": ["C4z", "Mx"], "tet_D2d": ["Inversion*C4z", "C2x"], "tet_D4h": ["C4z", "C2x", "Inversion"],
    "tet_4p": ["TimeReversal*C4z"], "tet_4p22p": ["TimeReversal*C4z", "C2x"], "tet_4mmPT": ["C4z", "Mx", "TimeReversal*Inversion"],
    "cub_T": ["C2z", "C3d"], "cub_Th": ["C2z", "C3d", "Inversion"], "cub_O": ["C4z", "C4x"], "cub_Td": ["Inversion*C4z", "C3d"],
    "cub_Oh": ["C4z", "C4x", "Inversion"], "cub_OhTR": ["C4z", "C4x", "Inversion", "TimeReversal"],
    "cub_OPT": ["C4z", "C4x", "TimeReversal*Inversion"], "cub_4p32p": ["TimeReversal*C4z", "C3d"],
    "hex_C3": ["C3z"], "hex_C6": ["C6z"], "hex_S6": ["C3z", "Inversion"], "hex_C3h": ["C3z", "Mz"], "hex_C6h": ["C6z", "Inversion"],
    "hex_D3x": ["C3z", "C2x"], "hex_D3y": ["C3z", "C2y"], "hex_C3vx": ["C3z", "Mx"], "hex_C3vy": ["C3z", "My"],
    "hex_D3d": ["C3z", "C2x", "Inversion"], "hex_D3h": ["C3z", "Mz", "Mx"], "hex_D6": ["C6z", "C2x"], "hex_C6v": ["C6z", "Mx"],
    "hex_D6h": ["C6z", "C2x", "Inversion"], "hex_6p": ["TimeReversal*C6z"], "hex_6mpmp": ["C6z", "Mx", "TimeReversal*C2x"],
    "hex_C3TR": ["C3z", "TimeReversal"],
}


class NonIntegral(Exception):
    pass


@contextlib.contextmanager
def silent():
    with contextlib.redirect_stdout(io.StringIO()), warnings.catch_warnings():
        warnings.simplefilter("ignore")
        yield


def lat_of(grp):
    return grp.split("_")[0]


_PG = {}


def pointgroup(grp):
    """the real PointGroup of a catalogue entry (cached)"""
    if grp not in _PG:
        from wannierberri.symmetry.point_symmetry import PointGroup, Rotation
        gens = [Rotation(3, [1, 1, 1]) if g == "C3d" else g for g in GENS[grp]]
        _PG[grp] = PointGroup(gens, real_lattice=LATTICES[lat_of(grp)])
    return _PG[grp]


def kmatrices(pg):
    """the set of integer k-matrices M (k' = k M) of PointGroup.symmetries, exactly as transform_reduced_vector"""
    B = pg.recip_lattice
    Bi = np.linalg.inv(B)
    out = set()
    for S in pg.symmetries:
        M = (B @ S.R.T @ Bi) * (S.iTR * S.iInv)
        Mi = np.round(M)
        if np.abs(M - Mi).max() > 1e-9:
            raise NonIntegral(f"k-matrix not integral: {M}")
        out.add(tuple(tuple(int(x) for x in r) for r in Mi))
    return out


class StubSystem:
    """what Grid / GridTetra read from a system"""

    def __init__(self, grp, periodic=(True, True, True), real_lattice=None, nkfft_rec=(1, 1, 1)):
        if real_lattice is None:
            self.pointgroup = pointgroup(grp)
            self.real_lattice = np.array(LATTICES[lat_of(grp)], dtype=float)
        else:
            from wannierberri.symmetry.point_symmetry import PointGroup
            self.real_lattice = np.array(real_lattice, dtype=float)
            self.pointgroup = PointGroup([], real_lattice=self.real_lattice)
        self.recip_lattice = self.pointgroup.recip_lattice
        self.periodic = np.array(periodic, dtype=bool)
        self.NKFFT_recommended = np.array(nkfft_rec)


def to_int(x, what, tol=1e-7):
    xi = int(round(float(x)))
    if abs(float(x) - xi) > tol:
        raise NonIntegral(f"{what}: {x!r} is not integral")
    return xi


def make_grid(grp, n, nkfft=1, periodic=(True, True, True)):
    """returns the real Grid or the exception class name"""
    from wannierberri.grid import Grid
    syst = StubSystem(grp, periodic)
    with silent():
        try:
            return Grid(system=syst, NKdiv=[int(x) for x in n], NKFFT=nkfft), syst
        except AssertionError:
            return "AssertionError", syst


def klist_grid(grid, sym):
    """Grid.get_K_list projected: [(k1,k2,k3), weight in units 1/Ntot]"""
    with silent():
        kl = grid.get_K_list(use_symmetry=sym)
    div = [int(x) for x in grid.div]
    ntot = div[0] * div[1] * div[2]
    out = []
    for K in kl:
        k = tuple(to_int(K.K[i] * div[i], "K*div") for i in range(3))
        out.append((k, to_int(K.factor * ntot, "factor*Ntot")))
    return kl, out


class FineGeo:
    """geometry of spec part B: n grid, nd effective adpt mesh, L levels; U = 2 n nd^L"""

    def __init__(self, n, nd, L=1):
        self.n, self.nd, self.L = tuple(n), tuple(nd), L
        self.U = tuple(2 * n[i] * nd[i] ** L for i in range(3))
        self.W0 = (nd[0] * nd[1] * nd[2]) ** L
        self.WOne = n[0] * n[1] * n[2] * self.W0

    def proj(self, K):
        c = tuple(to_int(K.K[i] * self.U[i], "K*U") % self.U[i] for i in range(3))
        return (c, int(K.refinement_level), to_int(K.factor * self.WOne, "factor*WOne"))

    def proj_list(self, kl):
        return [self.proj(K) for K in kl]

    def make_point(self, c, lev, fac, pg, nkfft=(1, 1, 1)):
        """a real KpointBZparallel for the spec K-point (c, lev, fac)"""
        from wannierberri.grid.Kpoint import KpointBZparallel
        K = np.array([c[i] / self.U[i] for i in range(3)])
        dK = np.array([1.0 / (self.n[i] * self.nd[i] ** lev) for i in range(3)])
        return KpointBZparallel(K=K, dK=dK, NKFFT=np.array(nkfft), factor=fac / self.WOne, pointgroup=pg, refinement_level=lev)


def spec_kl(seq):
    """TLA sequence of [c, lev, fac] records -> [(c, lev, fac)]"""
    return [(tuple(r["c"]), r["lev"], r["fac"]) for r in seq]


# ---------------------------------------------------------------------------------------------------------------
# tetrahedra
METRICS = {
    # real lattices whose reciprocal basis has the integer Gram matrices of MC_KMeshTetra.Gram (up to a common factor)
    "cub": 2 * np.pi * np.diag([1.0, 1.0, 1.0]),
    "tet": 2 * np.pi * np.diag([1.0, 1.0, 0.5]),
    "ort": 2 * np.pi * np.diag([1.0, 0.5, 1.0 / 3.0]),
    "hex": np.array([[1.0, 0, 0], [-0.5, SQ3 / 2, 0], [0, 0, SQ3 / 2]]),
}
GRAMS = {"cub": ((1, 0, 0), (0, 1, 0), (0, 0, 1)), "tet": ((1, 0, 0), (0, 1, 0), (0, 0, 4)), "ort": ((1, 0, 0), (0, 4, 0), (0, 0, 9)),
         "hex": ((2, 1, 0), (1, 2, 0), (0, 0, 2))}


def tetra_system(metric):
    return StubSystem(None, real_lattice=METRICS[metric])


def gram_scale(metric, recip):
    """factor f with recip . recip^T = f * GRAMS[metric]; verified to 1e-12 relative"""
    g = recip @ recip.T
    G = np.array(GRAMS[metric], dtype=float)
    f = g[0, 0] / G[0, 0]
    if np.abs(g - f * G).max() > 1e-9 * abs(f):
        raise NonIntegral(f"reciprocal metric of {metric} is not proportional to the integer Gram matrix: {g / f}")
    return f


def tet_proj(K, S, WT):
    """KpointBZtetra -> (vertices as integer triples in units 1/S (absolute), weight in units 1/WT, level, split level)"""
    v = K.vertices + K.K[None, :]
    vi = tuple(tuple(to_int(v[a, i] * S, "vertex*S", 1e-6) for i in range(3)) for a in range(4))
    return (vi, to_int(K.factor * WT, "factor*WT", 1e-6), int(K.refinement_level), int(K.split_level))


def tet_make(v, fac, lev, spl, S, WT, basis, nkfft=(1, 1, 1)):
    from wannierberri.grid.Kpoint_tetra import KpointBZtetra
    return KpointBZtetra(vertices=np.array(v, dtype=float) / S, K=0, NKFFT=np.array(nkfft), factor=fac / WT, basis=basis,
                         refinement_level=lev, split_level=spl)


def spec_tets(seq):
    return [(tuple(tuple(p) for p in t["v"]), t["fac"], t["lev"], t["spl"]) for t in seq]
