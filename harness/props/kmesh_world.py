"""Real-code side of spec/KMesh.tla (C06): lattices, the catalogue of (magnetic) point groups by generator names, the
system handed to Grid / GridTetra (a real minimal System_R; a duck-typed stub only as a fallback), the projections of
K-points to the integers of the specification, and the comparisons UP TO THE SYMMETRY THE PROPERTY ALLOWS (orbit / class
weights, image tiling, canonical tetrahedra).

All projections round and VERIFY integrality (NonIntegral is raised otherwise; the caller decides what that means, it
never silently rounds).  Names of the package that a refactoring could rename are used through guarded adapters; when
one is gone the sub-check is skipped and the fact is recorded in SKIPPED (reported as rep.part("skipped_private"))."""
import io
import contextlib
import warnings
import numpy as np

SQ3 = np.sqrt(3.0)
LATTICES = {
    "cub": np.eye(3),
    "tet": np.diag([1.0, 1.0, 1.5]),
    "ort": np.diag([1.0, 1.25, 1.5]),
    "hex": np.array([[1.0, 0, 0], [-0.5, SQ3 / 2, 0], [0, 0, 1.3]]),
    "bcc": 0.5 * np.array([[-1.0, 1, 1], [1, -1, 1], [1, 1, -1]]),
    "fcc": 0.5 * np.array([[0.0, 1, 1], [1, 0, 1], [1, 1, 0]]),
    "rho": np.array([[1.0, 0.25, 0.25], [0.25, 1.0, 0.25], [0.25, 0.25, 1.0]]),
}
# generator names as wannierberri understands them ("C3d" = Rotation(3, [1,1,1]), "C2xmy" = Rotation(2, [1,-1,0]))
GENS = {
    "ort_C1": [], "ort_Ci": ["Inversion"], "ort_TR": ["TimeReversal"], "ort_PT": ["TimeReversal*Inversion"],
    "ort_C2": ["C2z"], "ort_Cs": ["Mz"], "ort_C2h": ["C2z", "Inversion"], "ort_D2": ["C2z", "C2x"],
    "ort_C2v": ["C2z", "Mx"], "ort_D2h": ["C2z", "C2x", "Inversion"], "ort_mM2": ["Mx", "TimeReversal*C2z"],
    "ort_2pmp": ["TimeReversal*C2z", "TimeReversal*Mz"],
    "tet_C4": ["C4z"], "tet_S4": ["Inversion*C4z"], "tet_C4h": ["C4z", "Inversion"], "tet_D4": ["C4z", "C2x"],
    "tet_C4v": ["C4z", "Mx"], "tet_D2d": ["Inversion*C4z", "C2x"], "tet_D4h": ["C4z", "C2x", "Inversion"],
    "tet_4p": ["TimeReversal*C4z"], "tet_4p22p": ["TimeReversal*C4z", "C2x"], "tet_4mmPT": ["C4z", "Mx", "TimeReversal*Inversion"],
    "cub_T": ["C2z", "C3d"], "cub_Th": ["C2z", "C3d", "Inversion"], "cub_O": ["C4z", "C4x"], "cub_Td": ["Inversion*C4z", "C3d"],
    "cub_Oh": ["C4z", "C4x", "Inversion"], "cub_OhTR": ["C4z", "C4x", "Inversion", "TimeReversal"],
    "cub_OPT": ["C4z", "C4x", "TimeReversal*Inversion"], "cub_4p32p": ["TimeReversal*C4z", "C3d"],
    "hex_C3": ["C3z"], "hex_C6": ["C6z"], "hex_S6": ["C3z", "Inversion"], "hex_C3h": ["C3z", "Mz"], "hex_C6h": ["C6z", "Inversion"],
    "hex_D3x": ["C3z", "C2x"], "hex_D3y": ["C3z", "C2y"], "hex_C3vx": ["C3z", "Mx"], "hex_C3vy": ["C3z", "My"],
    "hex_D3d": ["C3z", "C2x", "Inversion"], "hex_D3h": ["C3z", "Mz", "Mx"], "hex_D6": ["C6z", "C2x"], "hex_C6v": ["C6z", "Mx"],
    "hex_D6h": ["C6z", "C2x", "Inversion"], "hex_6p": ["TimeReversal*C6z"], "hex_6mpmp": ["C6z", "Mx", "TimeReversal*C2x"],
    "hex_C3TR": ["C3z", "TimeReversal"],
    # primitive cells of centred lattices: the k-matrices of the cubic operations are not signed permutations
    "bcc_Oh": ["C4z", "C4x", "Inversion"], "fcc_Oh": ["C4z", "C4x", "Inversion"], "rho_D3d": ["C3d", "C2xmy", "Inversion"],
}
SKIPPED = {}        # private / internal names that are gone: sub-check -> reason


class NonIntegral(Exception):
    pass


class PrivateGone(Exception):
    """an internal name of the package that the harness needs is gone (renamed by a refactoring)"""


@contextlib.contextmanager
def silent():
    with contextlib.redirect_stdout(io.StringIO()), warnings.catch_warnings():
        warnings.simplefilter("ignore")
        yield


def lat_of(grp):
    return grp.split("_")[0]


def gen_objects(grp):
    from wannierberri.symmetry.point_symmetry import Rotation
    special = {"C3d": lambda: Rotation(3, [1, 1, 1]), "C2xmy": lambda: Rotation(2, [1, -1, 0])}
    return [special[g]() if g in special else g for g in GENS[grp]]


_PG = {}


def pointgroup(grp):
    """the real PointGroup of a catalogue entry (cached)"""
    if grp not in _PG:
        from wannierberri.symmetry.point_symmetry import PointGroup
        _PG[grp] = PointGroup(gen_objects(grp), real_lattice=LATTICES[lat_of(grp)])
    return _PG[grp]


_KM = {}


def kmatrices(pg):
    """the set of integer k-matrices M (k' = k M) of the operations of a PointGroup.  Adapter: the list of operations
    (`symmetries`) and their action on reduced vectors (`transform_reduced_vector`, else R / iTR / iInv)."""
    if id(pg) in _KM:
        return _KM[id(pg)]
    try:
        syms = list(pg.symmetries)
        B = pg.recip_lattice
    except AttributeError as ex:
        raise PrivateGone(f"PointGroup.symmetries / recip_lattice: {ex}")
    out = set()
    for S in syms:
        try:
            M = np.array(S.transform_reduced_vector(np.eye(3), B), dtype=float)
        except (AttributeError, TypeError):
            try:
                M = (B @ S.R.T @ np.linalg.inv(B)) * (S.iTR * S.iInv)
            except AttributeError as ex:
                raise PrivateGone(f"PointSymmetry.transform_reduced_vector / R, iTR, iInv: {ex}")
        Mi = np.round(M)
        if np.abs(M - Mi).max() > 1e-9:
            raise NonIntegral(f"k-matrix not integral: {M}")
        out.add(tuple(tuple(int(x) for x in r) for r in Mi))
    _KM[id(pg)] = out
    return out


def mats_of(grp):
    return sorted(kmatrices(pointgroup(grp)))


def box_preserving(mats):
    return all(sum(1 for x in row if x != 0) == 1 for g in mats for row in g)


class StubSystem:
    """fallback only: what Grid / GridTetra read from a system"""

    def __init__(self, pg, periodic=(True, True, True), nkfft_rec=(1, 1, 1)):
        self.pointgroup = pg
        self.real_lattice = np.array(pg.real_lattice, dtype=float)
        self.recip_lattice = pg.recip_lattice
        self.periodic = np.array(periodic, dtype=bool)
        self.NKFFT_recommended = np.array(nkfft_rec)


_SYS = {}


def real_system(key, real_lattice, gens, periodic=(True, True, True)):
    """a real minimal System_R (one orbital, nearest-neighbour hopping) with the given lattice and point group; falls
    back to the stub when the constructor's interface is not the one known to the harness"""
    k = (key, tuple(bool(p) for p in periodic))
    if k in _SYS:
        return _SYS[k]
    syst = None
    try:
        import wannierberri as wb
        with silent():
            syst = wb.system.System_R.from_sparse(real_lattice=np.array(real_lattice, dtype=float), wannier_centers_red=np.zeros((1, 3)),
                                                  matrices={'Ham': {(0, 0, 0): {(0, 0): 1.0}, (1, 0, 0): {(0, 0): 0.5}, (-1, 0, 0): {(0, 0): 0.5}}})
            syst.periodic = np.array(periodic, dtype=bool)
            syst.set_pointgroup(gens)
        _ = syst.pointgroup, syst.recip_lattice, syst.NKFFT_recommended
    except (TypeError, AttributeError, ImportError, KeyError) as ex:
        SKIPPED["real System_R (stub system used instead)"] = f"{type(ex).__name__}: {ex}"[:300]
        from wannierberri.symmetry.point_symmetry import PointGroup
        syst = StubSystem(PointGroup(gens, real_lattice=np.array(real_lattice, dtype=float)), periodic)
    _SYS[k] = syst
    return syst


def group_system(grp, periodic=(True, True, True)):
    return real_system(grp, LATTICES[lat_of(grp)], gen_objects(grp), periodic)


def to_int(x, what, tol=1e-7):
    xi = int(round(float(x)))
    if abs(float(x) - xi) > tol:
        raise NonIntegral(f"{what}: {x!r} is not integral")
    return xi


def make_grid(grp, n, nkfft=1, periodic=(True, True, True)):
    """-> (the real Grid or None, system, name of the exception class that rejected the grid or '')"""
    from wannierberri.grid import Grid
    syst = group_system(grp, periodic)
    with silent():
        try:
            return Grid(system=syst, NKdiv=[int(x) for x in n], NKFFT=nkfft), syst, ""
        except Exception as ex:      # any exception class is a rejection
            return None, syst, type(ex).__name__


def klist_grid(grid, sym):
    """Grid.get_K_list projected: [(k1,k2,k3) reduced modulo the grid, weight in units 1/Ntot]"""
    with silent():
        kl = grid.get_K_list(use_symmetry=sym)
    try:
        div = [int(x) for x in grid.div]
    except AttributeError as ex:
        raise PrivateGone(f"Grid.div: {ex}")
    ntot = div[0] * div[1] * div[2]
    out = []
    for K in kl:
        k = tuple(to_int(K.K[i] * div[i], "K*div") % div[i] for i in range(3))
        out.append((k, to_int(K.factor * ntot, "factor*Ntot")))
    return kl, out


# ---------------------------------------------------------------------------------------------------------------
# comparisons up to symmetry (the Python twins of KMesh.SameOrbitWeights / SameClassWeights / ImagesTile)
def apply_mod(g, c, U):
    return tuple(sum(c[i] * ((g[i][j] * U[j]) // U[i]) for i in range(3)) % U[j] for j in range(3))


def compatible(n, mats):
    return all((g[i][j] * n[j]) % n[i] == 0 for g in mats for i in range(3) for j in range(3))


def orbit_rep(c, U, mats):
    return min(apply_mod(g, c, U) for g in mats)


def grid_orbit_weights(kl, n, mats):
    """[(k, w)] -> ({orbit representative: total weight}, number of orbits retained more than once)"""
    w = {}
    cnt = {}
    for k, x in kl:
        r = orbit_rep(tuple(ki % ni for ki, ni in zip(k, n)), n, mats)
        w[r] = w.get(r, 0) + x
        cnt[r] = cnt.get(r, 0) + 1
    return w, sum(1 for v in cnt.values() if v > 1)


def class_weights(kl, U, mats):
    """[(c, lev, fac)] -> ({(lev, orbit representative): total weight} over fac != 0, number of classes with two live points)"""
    w = {}
    cnt = {}
    for c, lev, fac in kl:
        if fac == 0:
            continue
        key = (lev, orbit_rep(c, U, mats))
        w[key] = w.get(key, 0) + fac
        cnt[key] = cnt.get(key, 0) + 1
    return w, sum(1 for v in cnt.values() if v > 1)


class FineGeo:
    """geometry of spec part B: n grid, nd effective adpt mesh, L levels; U = 2 n nd^L"""

    def __init__(self, n, nd, L=1):
        self.n, self.nd, self.L = tuple(n), tuple(nd), L
        self.U = tuple(2 * n[i] * nd[i] ** L for i in range(3))
        self.W0 = (nd[0] * nd[1] * nd[2]) ** L
        self.WOne = n[0] * n[1] * n[2] * self.W0

    def cellw(self, lev):
        return tuple(2 * self.nd[i] ** (self.L - lev) for i in range(3))

    def proj(self, K):
        c = tuple(to_int(K.K[i] * self.U[i], "K*U") % self.U[i] for i in range(3))
        lev = self.level_of(K)
        if lev > self.L:
            raise NonIntegral(f"refinement level {lev} beyond the {self.L} levels of the geometry")
        return (c, lev, to_int(K.factor * self.WOne, "factor*WOne"))

    def level_of(self, K):
        """refinement level of a K-point (adapter: the attribute refinement_level, else from the size dK of its cell)"""
        try:
            return int(K.refinement_level)
        except AttributeError:
            pass
        for i in range(3):
            if self.nd[i] > 1:
                x = np.log(1.0 / (self.n[i] * float(K.dK[i]))) / np.log(self.nd[i])
                return to_int(x, "refinement level from dK", 1e-6)
        return 0

    def proj_list(self, kl):
        return [self.proj(K) for K in kl]

    def make_point(self, c, lev, fac, pg, nkfft=(1, 1, 1)):
        """a real KpointBZparallel for the spec K-point (c, lev, fac)"""
        from wannierberri.grid.Kpoint import KpointBZparallel
        K = np.array([c[i] / self.U[i] for i in range(3)])
        dK = np.array([1.0 / (self.n[i] * self.nd[i] ** lev) for i in range(3)])
        return KpointBZparallel(K=K, dK=dK, NKFFT=np.array(nkfft), factor=fac / self.WOne, pointgroup=pg, refinement_level=lev)

    def images_tile(self, kl, mats):
        """KMesh.ImagesTile + OrbitWeights on a projected list, for groups that map cells to cells: every unit sample
        (s + 1/2) lies in exactly one image cell of exactly one live K-point, and the weight of a live point is the
        weight of its orbit.  -> None or a description of the failure"""
        U = self.U
        count = np.zeros(U, dtype=np.int32)
        nd3 = self.nd[0] * self.nd[1] * self.nd[2]
        for c, lev, fac in kl:
            if fac <= 0:
                continue
            w = self.cellw(lev)
            star = set(apply_mod(g, c, U) for g in mats)
            if fac * nd3 ** lev != len(star) * self.W0:
                return f"weight {fac} of the point {c} (level {lev}) is not the weight of its orbit of {len(star)} images"
            for ic in star:
                masks = []
                for a in range(3):
                    s = np.arange(U[a])
                    masks.append(((2 * s + 1 - 2 * ic[a] + w[a] + 4 * U[a]) % (2 * U[a])) < 2 * w[a])
                count += (masks[0][:, None, None] & masks[1][None, :, None] & masks[2][None, None, :]).astype(np.int32)
        if (count == 1).all():
            return None
        badpos = np.argwhere(count != 1)[0]
        return f"the sample {tuple(int(x) for x in badpos)} + 1/2 (units 1/{U}) lies in {int(count[tuple(badpos)])} image cells"


def spec_kl(seq):
    """TLA sequence of [c, lev, fac] records -> [(c, lev, fac)]"""
    return [(tuple(r["c"]), r["lev"], r["fac"]) for r in seq]


# ---------------------------------------------------------------------------------------------------------------
# a real 3-D run() observed through the verification hook of run_grid.py
class _DataK:
    """stands in for Data_K: only carries the K-point to the calculator"""

    def __init__(self, system, dK=None, grid=None, Kpoint=None, **kw):
        self.Kpoint = Kpoint
        self.system = system


def run_refinement(grp, n, ndiv, sym, nit, adpt_fac, salt, workdir, restarts=()):
    """wannierberri.run() on a 3-D grid with a trivial calculator whose maximum decides the refined points, observed
    through the hook events of run_grid.py.  With `restarts` (restart_iteration values, e.g. (0, -1)) the first run keeps
    the restart files and is followed, for every entry i, by run(restart=True, restart_iteration=i, adpt_num_iter=1)
    (nothing is written back to the restart files, so every restart starts from the same files).
    -> (geo, steps, states):
       steps  = [dict(hist, before=[(c,lev,fac)], ord=[1-based indices], after=[...])]  one per refinement step of run()
       states = [dict(hist, event, kl=[(c,lev,fac)])]  the K list at every StartFresh / StartRestart / UpdateIntegral /
                Refine event; hist = "fresh" | "restart:<i>"
    raises PrivateGone when the hook / the calculator interface is not the one known to the harness"""
    import os
    import zlib
    try:
        from wannierberri import run_grid as RG
        from wannierberri.grid import Grid
        from wannierberri.result import EnergyResult
        from wannierberri.symmetry.point_symmetry import transform_ident
        _ = RG._verif_emit, RG._verif_sink
    except (ImportError, AttributeError) as ex:
        raise PrivateGone(f"verification hook of run_grid / EnergyResult: {ex}")
    syst = group_system(grp)
    if isinstance(syst, StubSystem):
        raise PrivateGone("run() needs a real System")
    geo = FineGeo(n, (ndiv,) * 3, nit + (1 if restarts else 0))
    E = np.arange(2, dtype=float)

    class Calc:
        comment = "trivial calculator of the C06 check"
        allow_path = False
        allow_grid = True

        def __call__(self, data_K):
            Kp = data_K.Kpoint
            c, lev, _ = geo.proj(Kp)
            p = (1.0 + (zlib.crc32(repr((c, lev, salt)).encode()) % 89) / 100.0) * 40.0 ** lev      # refined points win
            return EnergyResult([E], np.array([p, 2 * p]), transformTR=transform_ident, transformInv=transform_ident, rank=0, save_mode="bin")

    state = dict(hist="fresh", before=None, ord=[], steps=[], states=[], events=0, problem=None)

    def sink(event, f):
        state["events"] += 1
        try:
            if event in ("StartFresh", "StartRestart", "UpdateIntegral", "Refine"):
                kl = geo.proj_list(f["K_list"])
                state["states"].append(dict(hist=state["hist"], event=event, kl=kl))
                if event == "UpdateIntegral":
                    state["before"] = kl
                    state["ord"] = []
                elif event == "Refine":
                    state["steps"].append(dict(hist=state["hist"], before=state["before"], ord=list(state["ord"]), after=kl))
            elif event == "Divide":
                state["ord"].append(int(f["iK"]) + 1)
        except (NonIntegral, KeyError) as ex:
            state["problem"] = f"{state['hist']}:{event}: {type(ex).__name__}: {ex}"
    with silent():
        grid = Grid(system=syst, NKdiv=[int(x) for x in n], NKFFT=1)
    calc = Calc()

    def one(hist, **kw):
        state["hist"] = hist
        with silent():
            RG.run(syst, grid, {"c": calc}, use_irred_kpt=sym, fout_name=os.path.join(workdir, "res"),
                   file_Klist_path=os.path.join(workdir, "klist"), dump_results=False, parallel=False,
                   adpt_mesh=ndiv, adpt_fac=adpt_fac, data_k_class=_DataK, print_progress_step_time=1e9, **kw)
    old = (RG._verif_sink, RG._VERIF_ON)
    RG._verif_sink, RG._VERIF_ON = sink, True
    try:
        one("fresh", adpt_num_iter=nit, restart=False, allow_restart=bool(restarts))
        for i in restarts:
            one(f"restart:{i}", adpt_num_iter=1, restart=True, restart_iteration=i, allow_restart=False)
    finally:
        RG._verif_sink, RG._VERIF_ON = old
    if state["events"] == 0:
        raise PrivateGone("the verification hook of run_grid emitted no event")
    if state["problem"]:
        raise NonIntegral(state["problem"])
    return geo, state["steps"], state["states"]


# ---------------------------------------------------------------------------------------------------------------
# tetrahedra
METRICS = {
    # real lattices whose reciprocal basis has the integer Gram matrices of KMesh.GramOf (up to a common factor)
    "cub": 2 * np.pi * np.diag([1.0, 1.0, 1.0]),
    "tet": 2 * np.pi * np.diag([1.0, 1.0, 0.5]),
    "ort": 2 * np.pi * np.diag([1.0, 0.5, 1.0 / 3.0]),
    "hex": np.array([[1.0, 0, 0], [-0.5, SQ3 / 2, 0], [0, 0, SQ3 / 2]]),        # reciprocal vectors b1, b2 at 60 degrees
    "hex120": np.array([[1.0, 0, 0], [0.5, SQ3 / 2, 0], [0, 0, SQ3 / 2]]),      # reciprocal vectors b1, b2 at 120 degrees
}
GRAMS = {"cub": ((1, 0, 0), (0, 1, 0), (0, 0, 1)), "tet": ((1, 0, 0), (0, 1, 0), (0, 0, 4)), "ort": ((1, 0, 0), (0, 4, 0), (0, 0, 9)),
         "hex": ((2, 1, 0), (1, 2, 0), (0, 0, 2)), "hex120": ((2, -1, 0), (-1, 2, 0), (0, 0, 2))}


def trigonal(metric):
    return metric.startswith("hex")


def tetra_system(metric):
    return real_system("metric:" + metric, METRICS[metric], [])


def gram_scale(metric, recip):
    """factor f with recip . recip^T = f * GRAMS[metric]; verified to 1e-9 relative"""
    g = recip @ recip.T
    G = np.array(GRAMS[metric], dtype=float)
    f = g[0, 0] / G[0, 0]
    if np.abs(g - f * G).max() > 1e-9 * abs(f):
        raise NonIntegral(f"reciprocal metric of {metric} is not proportional to the integer Gram matrix: {g / f}")
    return f


def tet_vertices(K):
    """absolute vertices of a KpointBZtetra in reduced coordinates (adapter: vertices are stored relative to K)"""
    try:
        return np.array(K.vertices, dtype=float) + np.array(K.K, dtype=float)[None, :]
    except AttributeError as ex:
        raise PrivateGone(f"KpointBZtetra.vertices / K: {ex}")


def tet_proj(K, S, WT):
    """KpointBZtetra -> (vertices as integer triples in units 1/S (absolute), weight in units 1/WT, level, split level)"""
    v = tet_vertices(K)
    vi = tuple(tuple(to_int(v[a, i] * S, "vertex*S", 1e-6) for i in range(3)) for a in range(4))
    return (vi, to_int(K.factor * WT, "factor*WT", 1e-6), int(getattr(K, "refinement_level", 0)), int(getattr(K, "split_level", 0)))


def tet_canon(t):
    """representation-free form of a projected tetrahedron: (sorted vertices, weight)"""
    return (tuple(sorted(t[0])), t[1])


def tets_canon(ts):
    return sorted(tet_canon(t) for t in ts)


def tets_float_check(Ks, total_volume):
    """property clauses on the floating-point objects (no integrality needed): positive volumes and weights, the volumes
    add up to `total_volume` (reduced units), the weights to one, weight proportional to volume.  -> None or text"""
    vols = []
    for K in Ks:
        v = tet_vertices(K)
        vols.append(abs(np.linalg.det(v[1:] - v[0][None, :])) / 6.0)
    vols = np.array(vols)
    facs = np.array([float(K.factor) for K in Ks])
    if len(vols) == 0:
        return "empty list of tetrahedra"
    if vols.min() <= 1e-12 or facs.min() <= 0:
        return f"non-positive volume or weight (min volume {vols.min()}, min weight {facs.min()})"
    if abs(vols.sum() - total_volume) > 1e-9 * total_volume:
        return f"the volumes add up to {vols.sum()!r}, not to {total_volume!r}"
    if abs(facs.sum() - 1.0) > 1e-9:
        return f"the weights add up to {facs.sum()!r}"
    if np.abs(facs / facs.sum() - vols / vols.sum()).max() > 1e-9:
        return "weights are not proportional to volumes"
    return None


def tet_make(v, fac, lev, spl, S, WT, basis, nkfft=(1, 1, 1)):
    from wannierberri.grid.Kpoint_tetra import KpointBZtetra
    return KpointBZtetra(vertices=np.array(v, dtype=float) / S, K=0, NKFFT=np.array(nkfft), factor=fac / WT, basis=basis,
                         refinement_level=lev, split_level=spl)


def spec_tets(seq):
    return [(tuple(tuple(p) for p in t["v"]), t["fac"], t["lev"], t["spl"]) for t in seq]
