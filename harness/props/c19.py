"""C19: Wannier90 files written by the code can be read back; file objects and the WannierData container survive npz.

spec  : W90Store.tla (file objects as [cls, attr, dic, dim], token layout of .eig/.amn/.mmn with the readers' reshapes and the
        b-vector re-ordering, SavableNPZ.as_dict/from_dict with the key-name scheme of dic_to_keydic/keydic_to_dic, the
        constructors' checks, WannierData set_file/unset_file/check_conform/to_npz/from_npz/write), MC_W90Files.tla (one state
        per file object: all NK 1..3, NB 1..3, NW 1..NB, several NNB, full and partial k-point sets, optional tags),
        MC_W90Cont.tla (container state machine, all action sequences up to the bound), W90StoreRec.tla (record validation)
bind  : every state of MC_W90Files is executed on the real classes in a scratch directory (to_w90_file -> from_w90_file on the
        real file, from_w90_file on the specification's table rendered in the Wannier90 layout, to_npz -> from_npz, the class's
        own equals()); behaviours of MC_W90Cont are executed on a real WannierData: what the statement names (a container saved
        to .npz and loaded back holds equal files; write() leaves files the matching reader turns back into the data) decides,
        the rest of the container semantics is followed as long as the real code agrees with the model and reported as
        information where it does not; seeded random objects are written/read/saved/loaded by the real code and the records
        validated by TLC; seeded random non-dyadic data are compared at the precision of the formats.
"""
import os
import copy
import random
import shutil
import numpy as np

from .. import tlc, ftable
from ..common import Report, MachineryError, seed, quiet, workdir, WORK

PROPS = {
    "C19": dict(level="model_checking",
                technique="TLC exhaustive on W90Store.tla (MC_W90Files: every small file object; MC_W90Cont: WannierData state machine over all action sequences up to the bound) + replay of every TLC file-object state and of the container behaviours (every behaviour that loads from .npz plus a seeded sample of the others, those that save or write first) on the real w90files classes and files + TLC validation of recorded real calls",
                text="TLC checks TextRoundTrip / NpzRoundTrip / NpzKeys on every file object with NK 1..3, NB 1..3, NW 1..NB, several NNB in 2..6 "
                     "(full and irreducible k-point sets, bk_reorder tables, .amn with the optional projection tags, checkpoint with "
                     "selected_bands) and ContRoundTrip / ContConsistent / ChkFollowsAmn / WriteReadable on every sequence of container "
                     "actions inside the bound (set_file, unset_file, to_npz with and without a file list, from_npz, write of one file "
                     "and of all files; pool with eig, amn, mmn, chk, uHu/uIu/sHu/sIu, spn); each file-object state is executed on the "
                     "real EIG, AMN, MMN, BKVectors, CheckPoint, SPN, UHU, UIU, SHU, SIU: the file written by the real writer is read "
                     "by the real reader, the specification's table (Wannier90 layout) is read by the real reader, the object goes through "
                     "to_npz/from_npz, and what comes back is compared exactly with what went in (and with the class's equals()); "
                     "container behaviours are executed on a real WannierData; random objects are recorded through the real "
                     "writers/readers/npz (.mmn files with the neighbours of every k-point in a permuted order) and the C19 clauses of "
                     "W90StoreRec are evaluated by TLC; non-dyadic data are compared at the precision of the formats. On the real code "
                     "the .mmn WRITER cannot be exercised (known finding MMN.to_w90_file:exception): for .mmn only the reader (rendered "
                     "tables, permuted neighbour order) and the npz path are bound to the code.",
                note="the exact part uses multiples of 1/8 (exactly printable); printed precision is decided by the numeric part "
                     "`precision` (.eig/.amn: %17.12f, absolute 1e-11 = 20 x the half-ulp of the format; npz: bit-exact); "
                     "`compares equal` = the class's equals() where it exists (W90_file subclasses with data) together with the exact "
                     "comparison of the projections (BKVectors, CheckPoint: projections only); names of the entries inside the .npz "
                     "files, tokens of the written text files, exception classes, and the container semantics beyond the save/load "
                     "round trip (what set_file/unset_file refuse, the state after a refused set_file, chk.num_wann following amn, the "
                     "irreducible flag) are information (parts `information`, `model_conformance`), not violations; UNK, SOC, WIN and "
                     "the symmetrizer are not modelled",
                ref="DESIGN.md 3.7"),
}

ASIS = dict(WriterIndexing='"tuple"', MmnWriterBkvec="FALSE", LoadtxtSqueeze="TRUE")
FIXED = dict(WriterIndexing='"nested"', MmnWriterBkvec="TRUE", LoadtxtSqueeze="FALSE")

# the tag tables of W90Store.tla (Tags, TagsOpt, DictTags, DictTagsOpt, DimsOf): the projection reads exactly these, so that a
# tag the package adds later does not change what is compared
_PLAIN = (["NK"], [], ["data"], [])
SPEC_TAGS = {
    "eig": _PLAIN, "spn": _PLAIN, "uhu": _PLAIN, "uiu": _PLAIN, "shu": _PLAIN, "siu": _PLAIN,
    "amn": (["NK"], ["positions", "orbitals", "radial_nodes_list", "basis_list", "spread_list", "spinor"], ["data"], []),
    "mmn": (["NK"], [], ["data", "bk_reorder"], []),
    "bkvec": (["bk_grid", "wk", "kpt_grid", "kptirr", "mp_grid", "recip_lattice"], [], ["neighbours", "G"], []),
    "chk": (["mp_grid", "real_lattice", "num_wann", "num_bands", "num_kpts", "kpt_red"],
            ["wannier_centers_cart", "wannier_spreads", "selected_bands"], [], ["v_matrix"]),
}
SPEC_DIMS = {"eig": ["NB"], "amn": ["NB", "NW"], "mmn": ["NNB", "NB"], "spn": ["NB"], "uhu": ["NNB", "NB"], "uiu": ["NNB", "NB"],
             "shu": ["NNB", "NB"], "siu": ["NNB", "NB"], "bkvec": ["NNB"], "chk": []}
INT_TAGS = {"NK", "num_wann", "num_bands", "num_kpts", "bk_grid", "kpt_grid", "kptirr", "mp_grid", "bk_reorder", "neighbours", "G",
            "radial_nodes_list", "selected_bands"}
F8_TAGS = {"wk", "recip_lattice", "real_lattice", "wannier_centers_cart", "wannier_spreads", "positions", "basis_list", "spread_list"}
CONT_KEYS = ["eig", "amn", "mmn", "bkvec", "chk", "spn", "uhu", "uiu", "shu", "siu"]
INFO_CLAUSES = {"layout", "reader_model", "names", "from_dict", "failure_expected"}
SKIPPED = {}


def skipped_private(what, why):
    SKIPPED[what] = str(why)[:160]


def cpu():
    t = os.times()
    return t.user + t.system + t.children_user + t.children_system


# --------------------------------------------------------------------------- conversions
def L(x):
    if isinstance(x, (tuple, list)):
        return [L(y) for y in x]
    return x


def canon(o):
    """parsed TLA+ object -> plain dict (lists, int keys)"""
    return dict(cls=o["cls"], attr={k: L(v) for k, v in dict(o["attr"]).items()},
                dic={t: {int(k): L(v) for k, v in dict(d).items()} for t, d in dict(o["dic"]).items()},
                dim={k: int(v) for k, v in dict(o["dim"]).items()})


def ints(a, what):
    a = np.asarray(a)
    r = np.rint(a.astype(float))
    if a.size and np.max(np.abs(a.astype(float) - r)) > 1e-9:
        raise ValueError(f"non-integer in {what}")
    return r.astype(int).tolist()


def f8(a, what):
    return ints(np.asarray(a, dtype=float) * 8, what)


def c8(a, what):
    a = np.asarray(a)
    return np.stack([np.array(f8(a.real, what)), np.array(f8(a.imag, what))], axis=-1).tolist()


def carr(t):
    a = np.array(t, dtype=float) / 8
    return a[..., 0] + 1j * a[..., 1]


_CLASSES = {}


def classes():
    if _CLASSES:
        return _CLASSES
    import importlib
    pkg = importlib.import_module("wannierberri.w90files")
    where = dict(eig=("EIG", "eig"), amn=("AMN", "amn"), mmn=("MMN", "mmn"), bkvec=("BKVectors", "bkvectors"), chk=("CheckPoint", "chk"),
                 spn=("SPN", "spn"), uhu=("UHU", "xxu"), uiu=("UIU", "xxu"), shu=("SHU", "xxu"), siu=("SIU", "xxu"))
    for k, (name, mod) in where.items():
        C = getattr(pkg, name, None)
        if C is None:
            try:
                C = getattr(importlib.import_module("wannierberri.w90files." + mod), name)
            except (ImportError, AttributeError):
                # last resort: the table WannierData itself uses
                C = importlib.import_module("wannierberri.w90files.wandata").FILES_CLASSES[k]
        _CLASSES[k] = C
    return _CLASSES


def ordered(d, order):
    """the per-k-point dictionary with its keys inserted in the given order: "ascending", "reversed" (irreducible points
    computed last-first) or "rotated" (points completed later).  The object is the same function k -> table."""
    ks = sorted(d)
    if order == "reversed":
        ks = ks[::-1]
    elif order == "rotated" and len(ks) > 1:
        ks = ks[len(ks) // 2:] + ks[:len(ks) // 2]
    return {k: d[k] for k in ks}


def build(o, order="ascending"):
    """canonical object -> real file object (order: insertion order of the k-points in the data dictionaries)"""
    C = classes()
    cls, a, d = o["cls"], o["attr"], o["dic"]
    d = {t: ordered(v, order) for t, v in d.items()}
    with quiet():
        if cls == "eig":
            return C[cls](data={k: np.array(v, dtype=float) / 8 for k, v in d["data"].items()}, NK=a["NK"])
        if cls == "mmn":
            return C[cls](data={k: carr(v) for k, v in d["data"].items()}, NK=a["NK"],
                          bk_reorder={k: np.array(v, dtype=int) for k, v in d["bk_reorder"].items()})
        if cls == "bkvec":
            return C[cls](recip_lattice=np.array(a["recip_lattice"], dtype=float) / 8, mp_grid=np.array(a["mp_grid"]),
                          wk=np.array(a["wk"], dtype=float) / 8, bk_grid=np.array(a["bk_grid"], dtype=int),
                          G={k: np.array(v, dtype=int) for k, v in d["G"].items()},
                          neighbours={k: np.array(v, dtype=int) for k, v in d["neighbours"].items()},
                          kpt_grid=np.array(a["kpt_grid"], dtype=int), kptirr=list(a["kptirr"]))
        if cls == "chk":
            kw = dict(real_lattice=np.array(a["real_lattice"], dtype=float) / 8, num_wann=a["num_wann"], num_bands=a["num_bands"],
                      num_kpts=a["num_kpts"], mp_grid=np.array(a["mp_grid"]),
                      kpt_red=np.array(a["kpt_red"], dtype=float) / np.array(a["mp_grid"], dtype=float)[None, :])
            if "wannier_centers_cart" in a:
                kw["wannier_centers_cart"] = np.array(a["wannier_centers_cart"], dtype=float) / 8
            if "wannier_spreads" in a:
                kw["wannier_spreads"] = np.array(a["wannier_spreads"], dtype=float) / 8
            if "selected_bands" in a:
                kw["selected_bands"] = np.array(a["selected_bands"], dtype=int)
            if "v_matrix" in d:
                kw["v_matrix"] = {k: carr(v) for k, v in d["v_matrix"].items()}
            return C[cls](**kw)
        kw = {}
        if cls == "amn" and "orbitals" in a:
            # what AMN.from_bandstructure stores: arrays for positions/orbitals/radial nodes/basis, a list of floats for the spreads
            kw = dict(positions=np.array(a["positions"], dtype=float) / 8, orbitals=np.array(a["orbitals"]),
                      radial_nodes_list=np.array(a["radial_nodes_list"], dtype=int), basis_list=np.array(a["basis_list"], dtype=float) / 8,
                      spread_list=[x / 8 for x in a["spread_list"]], spinor=bool(a["spinor"]))
        return C[cls](data={k: carr(v) for k, v in d["data"].items()}, NK=a["NK"], **kw)


def project(x, cls):
    """real file object -> canonical object (the tags of the specification's tables only)"""
    tags, tags_opt, dtags, dtags_opt = SPEC_TAGS[cls]
    attr, dic, dim = {}, {}, {}
    for t in tags + tags_opt:
        v = getattr(x, t, None)
        if v is None:
            continue
        if t == "kpt_red":
            attr[t] = ints(np.asarray(v) * np.asarray(x.mp_grid)[None, :], t)
        elif t == "orbitals":
            attr[t] = [str(s) for s in np.asarray(v).tolist()]
        elif t == "spinor":
            attr[t] = bool(v)
        elif t in F8_TAGS:
            attr[t] = f8(v, t)
        else:
            attr[t] = ints(v, t) if np.ndim(v) else int(v)
    for t in dtags + dtags_opt:
        v = getattr(x, t, None)
        if v is None:
            continue
        if t in INT_TAGS:
            dic[t] = {int(k): ints(w, t) for k, w in v.items()}
        elif cls == "eig":
            dic[t] = {int(k): f8(w, t) for k, w in v.items()}
        else:
            dic[t] = {int(k): c8(w, t) for k, w in v.items()}
    for n in SPEC_DIMS[cls]:
        v = getattr(x, n, None)
        if v is not None:
            dim[n] = int(v)
    nk = getattr(x, "NK", None)
    if nk is None:
        nk = getattr(x, "num_kpts", None)
    dim["NK"] = int(nk)
    return dict(cls=cls, attr=attr, dic=dic, dim=dim)


def try_project(x, cls):
    """-> (projection, None) or (None, problem): numbers that are not multiples of 1/8 any more are a finding about the
    code that produced the object, not a failure of the harness"""
    try:
        return project(x, cls), None
    except ValueError as ex:
        return None, str(ex)[:160]


def seg(name):
    return tuple(name.split("_"))


# --------------------------------------------------------------------------- text files
def tokens(path, ncomment):
    out = []
    with open(path) as f:
        for n, line in enumerate(f):
            if n < ncomment:
                out.append([])
                continue
            toks = []
            for t in line.split():
                try:
                    toks.append(int(t))
                except ValueError:
                    x = float(t) * 8
                    if abs(x - round(x)) > 1e-9:
                        raise ValueError(f"non-dyadic token {t}")
                    toks.append(int(round(x)))
            out.append(toks)
    return out


def try_tokens(path, ncomment):
    try:
        return tokens(path, ncomment)
    except (ValueError, OSError):
        return None


def render(cls, lines, seedpath):
    """token table of the specification -> text file in the layout Wannier90 uses"""
    with open(seedpath + "." + cls, "w") as f:
        for n, l in enumerate(lines):
            if cls == "eig":
                f.write(f"{l[0]:5d}{l[1]:5d}{l[2] / 8:18.12f}\n")
            elif n == 0:
                f.write("rendered from the specification\n")
            elif n == 1:
                f.write(" ".join(f"{x:12d}" for x in l) + "\n")
            elif cls == "amn":
                f.write(f"{l[0]:5d}{l[1]:5d}{l[2]:5d}{l[3] / 8:18.12f}{l[4] / 8:18.12f}\n")
            elif len(l) == 5:
                f.write(" ".join(f"{x:5d}" for x in l) + "\n")
            else:
                f.write(f"{l[0] / 8:18.12f}{l[1] / 8:18.12f}\n")


NCOMMENT = dict(eig=0, amn=1, mmn=1)


def call(fn, *a, **kw):
    try:
        with quiet():
            return fn(*a, **kw), None
    except Exception as ex:     # any exception of the library is an answer; its class is information
        return None, type(ex).__name__ + ": " + str(ex)[:160]


class InProcessPool:
    """stands in for multiprocessing.Pool inside the .amn/.mmn readers (they only use map/close/join): the text conversion
    runs in this process instead of forked workers, everything else is the unmodified reader.  Forking from a process that
    has imported numba/ray under a loaded machine can hang; the reading logic is the same."""

    def __init__(self, *a, **kw):
        pass

    def map(self, fn, it):
        return [fn(x) for x in it]

    def imap(self, fn, it):
        return (fn(x) for x in it)

    def close(self):
        pass

    def join(self):
        pass

    def terminate(self):
        pass

    def __enter__(self):
        return self

    def __exit__(self, *a):
        return False


class serial_pools:
    """patches multiprocessing.Pool (and a `Pool` name the reader modules may have imported) for the duration of a read"""

    def __enter__(self):
        import multiprocessing
        import importlib
        self.saved = [(multiprocessing, "Pool", multiprocessing.Pool)]
        multiprocessing.Pool = InProcessPool
        for m in ("amn", "mmn", "utility"):
            try:
                mod = importlib.import_module("wannierberri.w90files." + m)
            except ImportError:
                continue
            if hasattr(mod, "Pool"):
                self.saved.append((mod, "Pool", mod.Pool))
                mod.Pool = InProcessPool
        return self

    def __exit__(self, *a):
        for mod, name, val in self.saved:
            setattr(mod, name, val)
        return False


def real_read(cls, seedpath, bk=None):
    C = classes()[cls]
    with serial_pools():
        if cls == "eig":
            return call(C.from_w90_file, seedpath)
        if cls == "amn":
            return call(C.from_w90_file, seedpath, npar=1)
        return call(C.from_w90_file, seedpath, bkvec=bk, npar=1)


def call_writer(x, seedpath, bk=None):
    """to_w90_file(seedname); a b-vector table is passed along if the method has a parameter for it"""
    import inspect
    kw = {}
    try:
        pars = list(inspect.signature(x.to_w90_file).parameters.values())
        for p in pars[1:]:
            if bk is None:
                break
            if p.name in ("bkvec", "bkvectors", "bkvecs", "bk") or (p.default is inspect.Parameter.empty and p.kind in (p.POSITIONAL_ONLY, p.POSITIONAL_OR_KEYWORD)):
                if p.kind == p.POSITIONAL_ONLY:
                    return call(x.to_w90_file, seedpath, bk)
                kw[p.name] = bk
                break
    except (TypeError, ValueError):
        pass
    return call(x.to_w90_file, seedpath, **kw)


def own_equals(cls, a, b):
    """the class's own equals() where it is usable, else None"""
    if cls in ("bkvec", "chk") or not hasattr(a, "equals"):
        return None
    r, ex = call(a.equals, b)
    if ex:
        return "exception: " + ex
    if isinstance(r, (tuple, list)):
        r = r[0]
    return bool(r)


def with_workaround(cls, x, bk):
    """a copy on which the writer's missing pieces are supplied from outside (observation only): neighbours and G of the
    b-vector table for MMN"""
    y = copy.copy(x)
    y.neighbours = np.array([bk.neighbours[k] for k in range(x.NK)])
    y.G = np.array([bk.G[k] for k in range(x.NK)])
    return y


def excname(ex):
    return ex.split(":")[0]


class FileReplay:
    def __init__(self, rep, wd):
        self.rep, self.wd, self.n = rep, wd, 0
        self.obs = {}
        self.count = {}

    def note(self, k):
        self.obs[k] = self.obs.get(k, 0) + 1

    def one(self, s):
        self.n += 1
        d = os.path.join(self.wd, f"f{self.n}")
        os.makedirs(d, exist_ok=True)
        try:
            self._one(s, d)
        finally:
            shutil.rmtree(d, ignore_errors=True)

    def _one(self, s, d):
        o = canon(s["obj"])
        cls = o["cls"]
        par = s["par"]
        info = dict(cls=cls, NK=par[1], NB=par[2], NW=par[3], NNB=par[4], partial_k=par[5], pattern=par[6], flag=par[7])
        self.count[cls] = self.count.get(cls, 0) + 1
        x, ex = call(build, o)
        if ex is not None:
            self.rep.violation(f"{cls}.__init__:exception", dict(info, exception=ex, what="the constructor refuses a well-formed object"))
            return
        p0, prob = try_project(x, cls)
        if p0 != o:
            # the object the constructor made is not the one asked for (or keeps it in other attributes): nothing to compare with
            self.note(f"{cls}:cannot_build_the_specification_object")
            return
        bk = build(canon(s["bk"])) if cls == "mmn" else None
        # ---- text
        if cls in NCOMMENT:
            exp = s["txt"]
            seedw = os.path.join(d, "w")
            _, ex = call_writer(x, seedw, bk)
            if exp["err"] == "":
                lines = L(exp["lines"])
                if ex is not None:
                    self.rep.violation(f"{cls.upper()}.to_w90_file:exception",
                                       dict(info, call=f"{cls.upper()}(data=..., NK={par[1]}).to_w90_file(seedname)", exception=ex,
                                            expected="a file from which from_w90_file recovers the data"))
                    if cls == "mmn":
                        # observation: does the rest of the writer agree with the specification's layout?
                        try:
                            y = with_workaround(cls, x, bk)
                            _, ex2 = call(y.to_w90_file, seedw + "p")
                            if ex2:
                                self.note("mmn_writer_patched:failed")
                            elif try_tokens(seedw + "p." + cls, NCOMMENT[cls]) == lines:
                                self.note("mmn_writer_patched:layout_as_modelled")
                                yy, exr = real_read(cls, seedw + "p", bk)
                                pp = try_project(yy, cls)[0] if exr is None else None
                                self.note("mmn_writer_patched:read_back_" + ("equal" if pp is not None and pp["dic"]["data"] == p0["dic"]["data"] else "differs"))
                            else:
                                self.note("mmn_writer_patched:layout_differs")
                        except Exception:
                            self.note("mmn_writer_patched:failed")
                else:
                    got = try_tokens(seedw + "." + cls, NCOMMENT[cls])
                    self.note(f"{cls}.to_w90_file:tokens_as_modelled" if got == lines else f"{cls}.to_w90_file:tokens_differ_from_model")
                    # the statement: the real file through the real reader gives the data back - whatever the order in which the
                    # k-points were put into the object's dictionary
                    for order in ("ascending", "reversed", "rotated") if par[1] > 1 else ("ascending",):
                        if order != "ascending":
                            xo = build(o, order)
                            _, exw = call_writer(xo, seedw, bk)
                            if exw is not None:
                                self.rep.violation(f"{cls.upper()}.to_w90_file:exception", dict(info, exception=exw, insertion_order=order))
                                continue
                        y, exr = real_read(cls, seedw, bk)
                        if exr is not None:
                            self.rep.violation(f"{cls.upper()}.from_w90_file:exception",
                                               dict(info, exception=exr, file="written by to_w90_file", insertion_order=order))
                        else:
                            gp, prob = try_project(y, cls)
                            if gp is None or gp["dic"]["data"] != p0["dic"]["data"] or gp["dim"] != p0["dim"]:
                                self.rep.violation(f"{cls.upper()}.from_w90_file:roundtrip",
                                                   dict(info, what="reader output differs from what was written", problem=prob, insertion_order=order,
                                                        expected_dim=p0["dim"], got_dim=None if gp is None else gp["dim"]))
                # the specification's table (Wannier90 layout) through the real reader
                seedr = os.path.join(d, "r")
                render(cls, lines, seedr)
                y, exr = real_read(cls, seedr, bk)
                if s["rd"]["err"] != "":
                    raise MachineryError(f"specification reader failed on its own table {info}")
                if exr is not None:
                    self.rep.violation(f"{cls.upper()}.from_w90_file:exception",
                                       dict(info, file="rendered from the specification's table (Wannier90 layout)",
                                            file_lines=[" ".join(str(t) for t in l) for l in lines[:6]], exception=exr,
                                            note="tokens are in units of 1/8 for real numbers"))
                else:
                    gp, prob = try_project(y, cls)
                    ep = canon(s["rd"]["obj"])
                    if gp is None or gp["dic"] != ep["dic"] or gp["dim"] != ep["dim"]:
                        self.rep.violation(f"{cls.upper()}.from_w90_file:rendered_w90_file",
                                           dict(info, problem=prob, differing=[] if gp is None else [k for k in ("dic", "dim") if ep[k] != gp[k]],
                                                expected_dim=ep["dim"], got_dim=None if gp is None else gp["dim"]))
            elif ex is None:
                # writing an object that lacks k-points is outside the statement; what the code does is only counted
                self.note(f"{cls}:partial_k_object_written_without_error")
        # ---- npz
        path = os.path.join(d, f"x.{cls}.npz")
        if par[1] > 1 and par[6] % 2 == 1 and cls != "chk":
            x = build(o, "reversed")            # the npz path with the k-points inserted last-first
        _, ex = call(x.to_npz, path)
        if ex is not None:
            self.rep.violation(f"{cls}.to_npz:exception", dict(info, exception=ex))
            return
        try:
            names = {seg(n) for n in np.load(path).files}
            expn = {tuple(k) for k in dict(s["npz"]).keys()}
            self.note(f"{cls}.to_npz:entry_names_as_modelled" if names == expn else f"{cls}.to_npz:entry_names_differ_from_model")
        except Exception:
            self.note(f"{cls}.to_npz:not_a_plain_npz")
        y, ex = call(classes()[cls].from_npz, path)
        if ex is not None:
            self.rep.violation(f"{cls}.from_npz:exception", dict(info, exception=ex))
            return
        gp, prob = try_project(y, cls)
        if gp != p0:
            self.rep.violation(f"{cls}.from_npz:projection", dict(info, problem=prob, differing=[] if gp is None else [k for k in p0 if p0[k] != gp[k]]))
        eq = own_equals(cls, x, y)
        if eq is not None and eq is not True:
            self.rep.violation(f"{cls}.from_npz:equals", dict(info, equals_returned=eq))


# --------------------------------------------------------------------------- container
def files_of(w):
    """{key: file object} of a WannierData (guarded adapter around the private dictionary)"""
    d = getattr(w, "_files", None)
    if isinstance(d, dict):
        return dict(d)
    skipped_private("WannierData._files", "attribute gone; files enumerated through has_file/get_file")
    return {k: w.get_file(k) for k in CONT_KEYS if w.has_file(k)}


def cont_project(w):
    return {k: project(v, k) for k, v in files_of(w).items() if k in SPEC_TAGS}


def cont_canon(c):
    return {k: canon(v) for k, v in dict(c["files"]).items()}


PRESET_IDS = {"0": [], "1": ["chk", "eig", "amn", "mmn", "bkvec"], "2": ["eigP", "bkvec"],
              "3": ["chk", "eig", "amn", "mmn", "bkvec"], "4": ["eigP", "bkvec"]}


def disk_names(seedpath):
    """{key: set of entry-name segments} of the npz files of a seedname"""
    out = {}
    d, base = os.path.split(seedpath)
    for f in os.listdir(d):
        if f.startswith(base + ".") and f.endswith(".npz"):
            ext = f[len(base) + 1:-4]
            try:
                out[ext.lower()] = {seg(n) for n in np.load(os.path.join(d, f)).files}
            except Exception:
                out[ext.lower()] = None
    return out


class ContReplay:
    def __init__(self, rep, wd, states):
        self.rep, self.wd, self.n = rep, wd, 0
        self.states = states            # hist key -> parsed state
        self.ops = {}
        self.info = {}

    def note(self, k):
        self.info[k] = self.info.get(k, 0) + 1

    @staticmethod
    def hkey(hist):
        return tuple((e["op"], e["key"], e["id"], e["flag"]) for e in hist)

    def replay(self, s, pool_objs):
        self.n += 1
        d = os.path.join(self.wd, f"c{self.n}")
        os.makedirs(d, exist_ok=True)
        try:
            return self._replay(s, pool_objs, d)
        finally:
            shutil.rmtree(d, ignore_errors=True)

    def _replay(self, s, pool_objs, d):
        import warnings
        from wannierberri.w90files.wandata import WannierData
        seedn = os.path.join(d, "wd")
        hist = s["hist"]
        info = dict(preset=hist[0]["id"], ops=[dict(op=e["op"], key=e["key"], id=e["id"], flag=e["flag"]) for e in hist[1:]])
        w = WannierData()
        s0 = self.states[self.hkey(hist[:1])]
        saved = {}                      # key -> projection of the file as it was when the real code saved it last
        for k in PRESET_IDS[hist[0]["id"]]:
            _, ex = call(w.set_file, pool_objs[k]["cls"], build(pool_objs[k]))
            if ex:
                self.rep.violation("WannierData.set_file:exception", dict(info, step=0, file=k, exception=ex, what="a conforming file is refused"))
                return False
        if hist[0]["id"] in ("3", "4"):
            _, ex = call(w.to_npz, seedn)
            if ex:
                self.rep.violation("WannierData.to_npz:exception", dict(info, step=0, exception=ex))
                return False
            saved = cont_project(w)
        following = cont_project(w) == cont_canon(s0["cont"])
        if not following:
            self.note("preset_container_differs_from_model")
        ok = True
        for n, e in enumerate(hist[1:], start=2):
            st = self.states[self.hkey(hist[:n])]
            op = e["op"]
            self.ops[op] = self.ops.get(op, 0) + 1
            step = n - 1
            if op in ("set_file", "unset_file"):
                with warnings.catch_warnings():
                    warnings.simplefilter("ignore")
                    if op == "set_file":
                        _, ex = call(w.set_file, e["key"], build(pool_objs[e["id"]]), overwrite=e["flag"])
                    else:
                        _, ex = call(w.unset_file, e["key"], ignore_missing=e["flag"])
                # what the container accepts or refuses is not part of the statement: followed while the code agrees with the model
                if following:
                    try:
                        same = cont_project(w) == cont_canon(st["cont"])
                    except ValueError:
                        same = False
                    if (ex is None) != (e["err"] == ""):
                        self.note(f"WannierData.{op}:" + ("refuses_where_the_model_accepts" if ex else "accepts_where_the_model_refuses"))
                        following = False
                    elif not same:
                        self.note(f"WannierData.{op}:container_differs_from_model")
                        following = False
                    elif ex is not None and not ex.startswith(e["err"]):
                        self.note(f"WannierData.{op}:other_exception_class:" + excname(ex))
                continue
            try:
                cur = cont_project(w)
            except ValueError as ve:
                self.rep.violation(f"WannierData.{op}:projection", dict(info, step=step, problem=str(ve)))
                return False
            if op == "to_npz":
                if not cur:
                    continue
                only = e["key"] != ""
                if only and e["key"] not in cur:
                    continue                        # (the real container diverged from the model: nothing to save)
                _, ex = call(w.to_npz, seedn, **(dict(files=[e["key"]]) if only else {}))
                if ex is not None:
                    self.rep.violation("WannierData.to_npz:exception", dict(info, step=step, exception=ex))
                    return False
                for k in ([e["key"]] if only else list(cur)):
                    saved[k] = cur[k]
                if following:
                    names = disk_names(seedn)
                    expn = {k: {tuple(x) for x in dict(v).keys()} for k, v in dict(st["disk"]).items()}
                    self.note("WannierData.to_npz:files_on_disk_as_modelled" if names == expn else "WannierData.to_npz:files_on_disk_differ_from_model")
            elif op == "from_npz":
                if not saved:
                    continue
                with warnings.catch_warnings():
                    warnings.simplefilter("ignore")
                    with serial_pools():
                        loaded, ex = call(WannierData.from_npz, seedn)
                # the statement: when the files on disk are exactly the files of the container (as the real code saved them),
                # loading gives a container with equal files
                exact = set(saved) == set(cur) and all(saved[k] == cur[k] for k in cur)
                if following and bool(e["exact"]) != exact:
                    self.note("WannierData.from_npz:exactness_differs_from_model")
                if ex is not None:
                    if exact:
                        self.rep.violation("WannierData.from_npz:exception", dict(info, step=step, exception=ex))
                        ok = False
                    elif following and e["err"] == "":
                        self.note("WannierData.from_npz:fails_on_a_reused_seedname_where_the_model_loads")
                    continue
                try:
                    lp = cont_project(loaded)
                except ValueError as ve:
                    self.rep.violation("WannierData.from_npz:projection", dict(info, step=step, problem=str(ve)))
                    ok = False
                    continue
                if exact:
                    if lp != cur:
                        self.rep.violation("WannierData.from_npz:loaded_container",
                                           dict(info, step=step, expected_keys=sorted(cur), got_keys=sorted(lp),
                                                differing=[k for k in cur if k in lp and cur[k] != lp[k]]))
                        ok = False
                    lf = files_of(loaded)
                    for k, v in files_of(w).items():
                        eq = own_equals(k, v, lf[k]) if k in lf else False
                        if eq is not None and eq is not True:
                            self.rep.violation("WannierData.from_npz:equals", dict(info, step=step, file=k, equals_returned=eq))
                            ok = False
                elif following and e["err"] == "" and lp != cont_canon(st["loaded"]):
                    self.note("WannierData.from_npz:reused_seedname_loads_other_files_than_the_model")
                if following and e["err"] == "" and bool(getattr(loaded, "irreducible", False)) != bool(st["loaded"]["irreducible"]):
                    self.note("WannierData.from_npz:irreducible_flag_differs_from_model")
            else:   # write
                key = e["key"]
                keys = [key] if key else list(cur)
                if key and key not in cur:
                    continue
                writable = all(k in ("eig", "amn") and set(cur[k]["dic"]["data"]) == set(range(cur[k]["dim"]["NK"])) for k in keys)
                with serial_pools():
                    _, ex = call(w.write, seedn, **(dict(files=[key]) if key else {}))
                if ex is not None:
                    if writable:
                        site = f"{key.upper()}.to_w90_file" if key else "WannierData.write"
                        self.rep.violation(f"{site}:exception", dict(info, step=step, via="WannierData.write", files=keys, exception=ex))
                        ok = False
                    continue
                if not writable:
                    self.note("WannierData.write:succeeds_where_the_model_fails")
                    continue
                for k in keys:
                    # the statement: the matching reader turns the file back into the data of the container
                    y, exr = real_read(k, seedn)
                    gp = try_project(y, k)[0] if exr is None else None
                    if gp is None or gp["dic"]["data"] != cur[k]["dic"]["data"] or gp["dim"] != cur[k]["dim"]:
                        self.rep.violation("WannierData.write:roundtrip", dict(info, step=step, file=k, exception=exr))
                        ok = False
                    if following and key:
                        got = try_tokens(seedn + "." + k, NCOMMENT[k])
                        self.note("WannierData.write:tokens_as_modelled" if got == L(dict(st["texts"])[k]) else "WannierData.write:tokens_differ_from_model")
        return ok


# --------------------------------------------------------------------------- records
def to_json_obj(o):
    return dict(cls=o["cls"], attr=o["attr"], dic=[[t, [[k, v] for k, v in sorted(d.items())]] for t, d in sorted(o["dic"].items())], dim=o["dim"])


def random_obj(rng, cls, nk=None, nb=None, nnb=None, tags=False):
    nk = nk or rng.randint(1, 4)
    nb = nb or rng.randint(1, 4)
    nw = rng.randint(1, nb)
    nnb = nnb or rng.randint(2, 6)
    ks = list(range(nk))

    def cv():
        return [rng.randint(-60, 60), rng.randint(-60, 60)]

    if cls == "eig":
        return dict(cls=cls, attr=dict(NK=nk), dic=dict(data={k: sorted(rng.randint(-80, 80) for _ in range(nb)) for k in ks}), dim=dict(NB=nb, NK=nk))
    if cls == "amn":
        attr = dict(NK=nk)
        if tags:
            attr.update(positions=[[rng.randint(-8, 8) for _ in range(3)] for _ in range(nw)], orbitals=[rng.choice(["s", "pz", "dxy"]) for _ in range(nw)],
                        radial_nodes_list=[rng.randint(0, 2) for _ in range(nw)], basis_list=[[[8, 0, 0], [0, 8, 0], [0, 0, 8]] for _ in range(nw)],
                        spread_list=[rng.randint(4, 16) for _ in range(nw)], spinor=False)
        return dict(cls=cls, attr=attr, dic=dict(data={k: [[cv() for _ in range(nw)] for _ in range(nb)] for k in ks}), dim=dict(NB=nb, NW=nw, NK=nk))
    if cls == "mmn":
        return dict(cls=cls, attr=dict(NK=nk),
                    dic=dict(data={k: [[[cv() for _ in range(nb)] for _ in range(nb)] for _ in range(nnb)] for k in ks},
                             bk_reorder={k: list(range(nnb)) for k in ks}), dim=dict(NNB=nnb, NB=nb, NK=nk))
    if cls == "bkvec":
        B6 = [[1, 0, 0], [-1, 0, 0], [0, 1, 0], [0, -1, 0], [0, 0, 1], [0, 0, -1]]
        nbr = {k: [(k + B6[j][0]) % nk for j in range(nnb)] for k in ks}
        return dict(cls=cls, attr=dict(bk_grid=B6[:nnb], wk=[rng.randint(1, 9) for _ in range(nnb)], kpt_grid=[[k, 0, 0] for k in ks],
                                       kptirr=ks, mp_grid=[nk, 1, 1], recip_lattice=[[8, 0, 0], [0, 8, 0], [0, 0, 8]]),
                    dic=dict(neighbours=nbr, G={k: [[(k + B6[j][0] - nbr[k][j]) // nk, B6[j][1], B6[j][2]] for j in range(nnb)] for k in ks}),
                    dim=dict(NK=nk, NNB=nnb))
    raise ValueError(cls)


def record_calls(rep, vio, rng, n, wd):
    recs, meta = [], []
    for it in range(n):
        cls = ("eig", "amn", "mmn")[it % 3]
        kind = ("write", "read", "npz")[(it // 3) % 3]
        small = rng.random() < 0.25
        o = random_obj(rng, cls, nk=1 if small else None, nb=1 if small else None, tags=(kind == "npz" and rng.random() < 0.5))
        d = os.path.join(wd, f"r{it}")
        os.makedirs(d, exist_ok=True)
        try:
            order = rng.choice(["ascending", "reversed", "rotated"])
            x = build(o, order)
            bko = random_obj(rng, "bkvec", nk=o["dim"]["NK"], nnb=o["dim"].get("NNB", 2))
            bk = build(bko)
            rec = dict(kind=kind, cls=cls, obj=to_json_obj(o), bk=to_json_obj(bko), has_perm=False, perm=[])
            m = dict(kind=kind, cls=cls, dims=o["dim"], insertion_order=order)
            if kind == "write":
                _, ex = call_writer(x, os.path.join(d, "w"), bk)
                if ex:
                    rec["out"] = dict(err=excname(ex))
                else:
                    toks = try_tokens(os.path.join(d, "w." + cls), NCOMMENT[cls])
                    rec["out"] = dict(err="", lines=toks if toks is not None else [])
                    # the statement on the real file: the real reader gives the data back
                    y, exr = real_read(cls, os.path.join(d, "w"), bk)
                    gp = try_project(y, cls)[0] if exr is None else None
                    if gp is None or gp["dic"]["data"] != o["dic"]["data"] or gp["dim"] != o["dim"]:
                        vio.violation(f"{cls.upper()}.from_w90_file:roundtrip", dict(meta=m, exception=exr, what="random object written and read back"))
                m["exception"] = ex
            elif kind == "read":
                # a file in the Wannier90 layout made from the object by the harness's own writer (independent of the specification);
                # .mmn: the neighbours of every k-point in a seeded random order, as a Wannier90 run may list them
                perm = None
                if cls == "mmn":
                    perm = {k: rng.sample(range(o["dim"]["NNB"]), o["dim"]["NNB"]) for k in range(o["dim"]["NK"])}
                    rec.update(has_perm=True, perm=[perm[k] for k in range(o["dim"]["NK"])])
                    m["permuted"] = any(perm[k] != sorted(perm[k]) for k in perm)
                lines = ref_lines(o, bko, perm)
                render(cls, lines, os.path.join(d, "r"))
                y, ex = real_read(cls, os.path.join(d, "r"), bk)
                rec.update(lines=lines, has_obj=True)
                if ex:
                    rec["out"] = dict(err=excname(ex))
                else:
                    gp, prob = try_project(y, cls)
                    rec["out"] = dict(err="", obj=to_json_obj(gp)) if gp is not None else dict(err="projection")
                m["exception"] = ex
            else:
                path = os.path.join(d, f"x.{cls}.npz")
                _, wex = call(x.to_npz, path)
                if wex:
                    vio.violation(f"{cls}.to_npz:exception", dict(meta=m, exception=wex))
                    continue
                try:
                    rec["names"] = [list(seg(nm)) for nm in np.load(path).files]
                except Exception:
                    rec["names"] = []
                y, ex = call(classes()[cls].from_npz, path)
                if ex:
                    rec["out"] = dict(err=excname(ex))
                else:
                    gp, prob = try_project(y, cls)
                    rec["out"] = dict(err="", obj=to_json_obj(gp)) if gp is not None else dict(err="projection")
                rec["equals_verdict"] = bool(ex is None and own_equals(cls, x, y) is True)
                m["exception"] = ex
                m["tags"] = "orbitals" in o["attr"]
            recs.append(rec)
            meta.append(m)
            rep.case(("rec", kind, cls, it))
        finally:
            shutil.rmtree(d, ignore_errors=True)
    return recs, meta


def ref_lines(o, bko, perm=None):
    """token table of a Wannier90 text file for the object, written from the format's definition; perm[k][p] = index (in the
    b-vector table) of the neighbour whose block is the p-th of k-point k"""
    cls, dat = o["cls"], o["dic"]["data"]
    nk = o["dim"]["NK"]
    if cls == "eig":
        return [[b + 1, k + 1, dat[k][b]] for k in range(nk) for b in range(o["dim"]["NB"])]
    if cls == "amn":
        nb, nw = o["dim"]["NB"], o["dim"]["NW"]
        return [[], [nb, nk, nw]] + [[b + 1, w + 1, k + 1] + dat[k][b][w] for k in range(nk) for w in range(nw) for b in range(nb)]
    nb, nnb = o["dim"]["NB"], o["dim"]["NNB"]
    out = [[], [nb, nk, nnb]]
    for k in range(nk):
        for p in range(nnb):
            j = p if perm is None else perm[k][p]
            out.append([k + 1, bko["dic"]["neighbours"][k][j] + 1] + bko["dic"]["G"][k][j])
            for n in range(nb):
                for m in range(nb):
                    out.append(list(dat[k][j][m][n]))      # M_mn(k, b): m runs fastest
    return out


# --------------------------------------------------------------------------- printed precision (numeric, deciding)
TOL_F12 = 1e-11         # absolute: %17.12f keeps 12 decimals (half-ulp 5e-13)


def precision_calls(vio, rng, n, wd):
    """non-dyadic data through the text writers/readers (.eig, .amn) and through npz (all three)"""
    C = classes()
    obs = dict(cases=0, eig_abs=0.0, amn_abs=0.0, npz_bit_exact=0)
    for it in range(n):
        cls = ("eig", "amn", "mmn")[it % 3]
        nk, nb = rng.randint(1, 3), rng.randint(1, 4)
        nw, nnb = rng.randint(1, nb), rng.randint(2, 4)

        def val():
            return rng.choice([-1, 1]) * (1 + rng.random()) * 10.0 ** rng.uniform(-9, 3)

        if cls == "eig":
            data = {k: np.sort(np.array([val() for _ in range(nb)])) for k in range(nk)}
        elif cls == "amn":
            data = {k: np.array([[val() + 1j * val() for _ in range(nw)] for _ in range(nb)]) for k in range(nk)}
        else:
            data = {k: np.array([[[val() + 1j * val() for _ in range(nb)] for _ in range(nb)] for _ in range(nnb)]) for k in range(nk)}
        m = dict(cls=cls, NK=nk, NB=nb, case=it, seed=seed())
        d = os.path.join(wd, f"p{it}")
        os.makedirs(d, exist_ok=True)
        obs["cases"] += 1
        try:
            ks = list(data)
            rng.shuffle(ks)                         # insertion order of the k-points: any
            x, ex = call(C[cls], data={k: data[k].copy() for k in ks}, NK=nk)
            if ex:
                vio.violation(f"{cls}.__init__:exception", dict(meta=m, exception=ex))
                continue
            if cls in ("eig", "amn"):
                _, ex = call(x.to_w90_file, os.path.join(d, "w"))
                if ex:
                    vio.violation(f"{cls.upper()}.to_w90_file:exception", dict(meta=m, exception=ex, numbers="non-dyadic"))
                else:
                    y, ex = real_read(cls, os.path.join(d, "w"))
                    if ex:
                        vio.violation(f"{cls.upper()}.from_w90_file:exception", dict(meta=m, exception=ex, numbers="non-dyadic"))
                    else:
                        dev = 0.0
                        for k in data:
                            b = np.asarray(y.data[k]) if k in y.data else None
                            dev = max(dev, float(np.max(np.abs(b - data[k]))) if b is not None and b.shape == data[k].shape else float("inf"))
                        obs[cls + "_abs"] = max(obs[cls + "_abs"], dev)
                        if dev > TOL_F12:
                            vio.violation(f"{cls.upper()}.to_w90_file:precision", dict(meta=m, deviation=dev, tolerance=TOL_F12,
                                                                                      what="absolute deviation after to_w90_file / from_w90_file"))
            path = os.path.join(d, f"x.{cls}.npz")
            _, ex = call(x.to_npz, path)
            if ex:
                vio.violation(f"{cls}.to_npz:exception", dict(meta=m, exception=ex, numbers="non-dyadic"))
                continue
            y, ex = call(C[cls].from_npz, path)
            if ex:
                vio.violation(f"{cls}.from_npz:exception", dict(meta=m, exception=ex, numbers="non-dyadic"))
                continue
            same = set(y.data) == set(data) and all(np.array_equal(np.asarray(y.data[k]), data[k]) for k in data) and int(y.NK) == nk
            eq = own_equals(cls, x, y)
            if not same or (eq is not None and eq is not True):
                vio.violation(f"{cls}.from_npz:precision", dict(meta=m, bit_exact=same, equals_returned=eq))
            else:
                obs["npz_bit_exact"] += 1
        finally:
            shutil.rmtree(d, ignore_errors=True)
    return obs


def optional_tag_none_observation(wd):
    """AMN(..., spread_list=[None]) through npz: a list with None becomes an object array, which np.load refuses without pickle.
    No path of the package produces such a list (Projection.spread_factor is a float), so this is reported, not claimed."""
    d = os.path.join(wd, "none_tag")
    os.makedirs(d, exist_ok=True)
    out = dict(key="amn.from_npz:optional_tag_with_None",
               reproduction="AMN(data={0: np.ones((2,1),complex)}, NK=1, spread_list=[None]).to_npz('a.amn.npz'); AMN.from_npz('a.amn.npz')")
    try:
        A = classes()["amn"]
        a, ex = call(A, data={0: np.ones((2, 1), dtype=complex)}, NK=1, spread_list=[None])
        if ex:
            out["result"] = "constructor raises " + ex
            return out
        _, ex = call(a.to_npz, os.path.join(d, "a.amn.npz"))
        if ex:
            out["result"] = "to_npz raises " + ex
            return out
        _, ex = call(A.from_npz, os.path.join(d, "a.amn.npz"))
        out["result"] = "round trip ok" if ex is None else "from_npz raises " + ex
    except Exception as ex:
        out["result"] = f"observation failed: {type(ex).__name__}: {ex}"[:200]
    finally:
        shutil.rmtree(d, ignore_errors=True)
    return out


def cfg(spec, consts, invs, sw=FIXED):
    c = dict(sw)
    c.update(consts)
    return (f"SPECIFICATION {spec}\nCONSTANTS\n" + "".join(f"  {k} = {v}\n" for k, v in c.items())
            + "".join(f"INVARIANT {i}\n" for i in invs) + "CHECK_DEADLOCK FALSE\n")


ALLCLS = '{"eig", "amn", "mmn", "bkvec", "chk", "spn", "uhu", "uiu", "shu", "siu"}'


def enum_states(module, cfg_text, name, timeout):
    """ftable.enumerate_states without the coverage statistics (they double the CPU time; non-vacuity is counted on the dump)"""
    st = tlc.run_tlc(module, cfg_text, name, workers=4, dump=True, coverage=False, timeout=timeout)
    if st.get("timeout"):
        raise MachineryError(f"TLC timed out on {name}")
    if st.get("error") and not st.get("violation"):
        raise MachineryError(f"TLC error on {name}: {st['error'][:600]}")
    return st


def drop_dump(st):
    """the state dump has been consumed; tlc.out stays as evidence"""
    try:
        os.remove(st["dump_path"])
    except (OSError, KeyError, TypeError):
        pass


class Capped:
    """passes at most `cap` violations per key to the Report (so that every distinct key is written out), counts the rest"""

    def __init__(self, rep, cap=3):
        self.rep, self.cap, self.count = rep, cap, {}

    def violation(self, key, detail):
        self.count[key] = self.count.get(key, 0) + 1
        if self.count[key] <= self.cap:
            self.rep.violation(key, detail)


def check(pid, tier):
    rep = Report(pid, tier, "model_checking")
    try:
        return _check(rep, pid, tier)
    except Exception:
        # never lose what has been found: write the violations out before the machinery problem is reported
        if rep.violations:
            try:
                rep.part("aborted", note="the run stopped early; the violations collected so far are reported")
                rep.finish()
            except Exception:
                pass
        raise


def _check(rep, pid, tier):
    vio = Capped(rep)
    thorough = tier == "thorough"
    rng = random.Random(seed() * 7919 + 19)
    import wannierberri  # noqa: F401
    tag = f"{pid.lower()}_{tier}_{os.getpid()}"
    wd = workdir(tag)
    tlc_names = []
    timing = {}
    t_last = [cpu()]

    def lap(name):
        now = cpu()
        timing[name] = round(now - t_last[0], 1)
        t_last[0] = now

    def tname(n):
        tlc_names.append(f"{tag}_{n}")
        return tlc_names[-1]

    rep.rule("TLC enumerates every file object inside (NK, NB, NW, NNB, k-point subsets, patterns, optional tags) and every sequence of "
             "container actions up to MAXLEN; a case = one file-object state executed on the real classes, one container behaviour "
             "executed on a real WannierData (every behaviour that loads from .npz, a seeded sample of the others), one seeded random "
             "recorded call validated by TLC, or one seeded random non-dyadic object")
    rep.assume("exact part: data are multiples of 1/8, exactly printed by the text formats; printed precision is the business of the numeric part `precision`")
    rep.assume("the b-vector table needed by .mmn files is a (NK,1,1) mesh with the first NNB axis neighbours")
    rep.assume("a file object is the function k-point -> table; the order in which the k-points were inserted into its dictionary is an "
               "input class of the harness (ascending, reversed, rotated), not part of the object")

    # ---------------- file objects
    fconst = dict(CLS=ALLCLS, NKS="{1, 2, 3}", NBS="{1, 2, 3}", NNBS="{2, 3, 4, 5, 6}" if thorough else "{2, 3, 6}", PATS="{1, 2}" if thorough else "{1}")
    finv = ["TextRoundTrip", "WriterNeedsAllK", "NpzRoundTrip", "NpzKeys"]
    st = enum_states("MC_W90Files.tla", cfg("FSpec", fconst, finv), tname("files"), 1800)
    ftable.spec_violation(rep, st, "c19_files")
    rep.add_tlc("c19_files", st)
    lap("tlc_files")
    fr = FileReplay(vio, wd)
    fstates = sorted(ftable.dump_states(st), key=lambda s: repr(tuple(s["par"])))
    drop_dump(st)
    for s in fstates:
        p = s["par"]
        rep.case(("file",) + tuple(p))
        fr.one(s)
        if fr.n <= 2:
            rep.sample(dict(cls=p[0], NK=p[1], NB=p[2], NW=p[3], NNB=p[4], partial_k=p[5]))
    if fr.n != st["distinct"] or set(fr.count) != set(SPEC_TAGS):
        raise MachineryError(f"file-object dump incomplete: {fr.n} of {st['distinct']}, classes {sorted(fr.count)}")
    cannot = sum(v for k, v in fr.obs.items() if k.endswith("cannot_build_the_specification_object"))
    if cannot > fr.n // 2 and not rep.violations:
        raise MachineryError(f"the harness cannot build {cannot} of {fr.n} specification objects on this tree")
    rep.part("replay_files", states=fr.n, per_class=fr.count)
    lap("replay_files")

    # ---------------- sensitivity: the model of the defects (the .mmn writer as it is, the former .eig/.amn defects) must violate the property
    sa = tlc.run_tlc("MC_W90Files.tla", cfg("FSpec", dict(fconst, NNBS="{2}", PATS="{1}"), ["TextRoundTrip"], sw=ASIS), tname("asis"), workers=4, timeout=900)
    if not sa.get("violation"):
        raise MachineryError("sensitivity self-test failed: the model of the defective writers (tuple key on a dict, neighbours of self) must violate TextRoundTrip")
    rep.part("c19_defects", sensitivity_violation=sa["violation"][1], constants=ASIS,
             note="MmnWriterBkvec=FALSE is mmn.py as it is (known finding); WriterIndexing=tuple and LoadtxtSqueeze=TRUE are the defects repaired in 4825d857")
    if thorough:
        sb = tlc.run_tlc("MC_W90Files.tla", cfg("FSpec", dict(fconst, CLS='{"eig"}', NNBS="{2}", PATS="{1}"), ["TextRoundTrip"],
                                                sw=dict(FIXED, LoadtxtSqueeze="TRUE")), tname("loadtxt"), workers=4, timeout=900)
        if not sb.get("violation"):
            raise MachineryError("sensitivity self-test failed: a 1-d loadtxt result for a one-line .eig file must violate TextRoundTrip")
        rep.part("c19_loadtxt", sensitivity_violation=sb["violation"][1])
    lap("sensitivity")

    # ---------------- container
    cconst = dict(CLS='{"eig"}', NKS="{1}", NBS="{1}", NNBS="{2}", PATS="{1}", MAXLEN=3 if thorough else 2,
                  POOL='{"eig", "eigB3", "eigP", "amnW2", "chk", "uhu", "siu"}' if not thorough
                  else '{"eig", "eigP", "amnW2", "chk", "uiu", "shu", "spn"}', PRESETS="{0, 1, 2, 3, 4}")
    cinv = ["ContRoundTrip", "ContConsistent", "ChkFollowsAmn", "WriteReadable"]
    stc = enum_states("MC_W90Cont.tla", cfg("CSpec", cconst, cinv), tname("cont"), 2400)
    ftable.spec_violation(rep, stc, "c19_cont")
    rep.add_tlc("c19_cont", stc)
    lap("tlc_cont")
    states, leaves = {}, []
    maxlen = cconst["MAXLEN"]
    for s in ftable.dump_states(stc):
        states[ContReplay.hkey(s["hist"])] = s
        if len(s["hist"]) - 1 == maxlen:
            leaves.append(s)
    drop_dump(stc)
    if len(states) != stc["distinct"]:
        raise MachineryError("container dump: behaviours are not distinct states")
    pool = collect_pool(states)
    nmax = 15000 if thorough else 700
    nleaves = len(leaves)
    leaves.sort(key=lambda s: repr(ContReplay.hkey(s["hist"])))          # the dump order of TLC is not deterministic

    def prio(s):
        ops = {e["op"] for e in s["hist"]}
        return 0 if "from_npz" in ops else 1 if ops & {"to_npz", "write"} else 2
    if len(leaves) > nmax:
        # every behaviour that loads (the round trips of the statement), then a seeded sample of those that save or write, then of the others
        rng.shuffle(leaves)
        leaves.sort(key=prio)
        must = sum(1 for s in leaves if prio(s) == 0)
        leaves = leaves[:max(nmax, must)]
    cr = ContReplay(vio, wd, states)
    followed = 0
    rt = 0
    for s in leaves:
        rep.case(("cont",) + ContReplay.hkey(s["hist"]))
        if cr.replay(s, pool):
            followed += 1
        rt += sum(1 for e in s["hist"] if e["op"] == "from_npz" and e["exact"])
    for op in ("set_file", "unset_file", "to_npz", "from_npz", "write"):
        if not cr.ops.get(op):
            raise MachineryError(f"container action never replayed: {op}")
    if rt == 0:
        raise MachineryError("no to_npz/from_npz round trip among the replayed behaviours")
    rep.part("replay_container", behaviours=len(leaves), of_leaf_behaviours=nleaves, did_what_the_statement_says=followed, actions=cr.ops, exact_round_trips=rt)
    rep.sample(dict(container_behaviour=[(e["op"], e["key"], e["id"]) for e in leaves[0]["hist"]]))
    lap("replay_container")

    # ---------------- code -> spec: recorded calls
    nrec = 900 if thorough else 108
    recs, meta = record_calls(rep, vio, rng, nrec, wd)
    lap("records_real")
    # binding self-test inside the same batch: corrupted copies of npz records the real code completed; the copy of a record
    # TLC accepts must be rejected
    cand = [i for i, r in enumerate(recs) if r["kind"] == "npz" and r["out"]["err"] == ""][:4]
    corrupted = []
    for i in cand:
        br = copy.deepcopy(recs[i])
        t = br["out"]["obj"]["dic"][0][1][0][1]
        while isinstance(t[0], list):
            t = t[0]
        t[0] += 1
        corrupted.append(br)
    stv, bad = ftable.validate_records("W90StoreRec.tla", cfg("RecSpec", {}, ["Report"]), recs + corrupted, tname("rec"), chunk=400)
    rep.add_tlc("c19_records", stv)
    rep.add_traces(len(recs))
    bad_corrupted = {j: bad.pop(len(recs) + j, []) for j in range(len(corrupted))}
    usable = [j for j, i in enumerate(cand) if not [c for c in bad.get(i, []) if c not in INFO_CLAUSES]]
    if usable:
        j = usable[0]
        if not [c for c in bad_corrupted[j] if c not in INFO_CLAUSES]:
            raise MachineryError("binding self-test failed: corrupted npz record accepted")
        rep.part("binding_selftest", corrupted_record_rejected=bad_corrupted[j])
    elif not cand and not rep.violations:
        raise MachineryError("no successful npz record for the binding self-test")
    else:
        rep.part("binding_selftest", skipped="TLC rejects every candidate record itself (see the violations)")
    conf = {}
    for i, clauses in sorted(bad.items()):
        m = meta[i]
        for c in clauses:
            if c in INFO_CLAUSES:
                conf[c] = conf.get(c, 0) + 1
        clauses = [c for c in clauses if c not in INFO_CLAUSES]
        if not clauses:
            continue
        C = m["cls"].upper()
        if m["kind"] == "write":
            key = f"{C}.to_w90_file:exception" if m["exception"] else f"{C}.to_w90_file:recorded"
        elif m["kind"] == "read":
            key = f"{C}.from_w90_file:exception" if m["exception"] else f"{C}.from_w90_file:recorded"
        else:
            key = f"{m['cls']}.from_npz:recorded"
        vio.violation(key, dict(meta=m, failing_clauses=clauses))
    rep.part("model_conformance", records=len(recs), information_only=True, records_where_the_code_differs_from_the_model=conf,
             note="layout: tokens of the written file vs the model's table; reader_model: result of the real reader vs the model's reader; "
                  "names/from_dict: names of the entries inside the .npz and the model's from_dict on them")
    kinds = {(m["kind"], m["cls"]) for m in meta}
    if len(kinds) != 9 and not rep.violations:
        raise MachineryError(f"record classes missing: {sorted(kinds)}")
    if not any(m.get("permuted") for m in meta) or not any(m.get("tags") for m in meta):
        raise MachineryError("no .mmn read record with permuted neighbours / no .amn npz record with optional tags")
    rep.sample(dict(record=meta[0]))
    lap("records_tlc")

    # ---------------- printed precision: non-dyadic data (numeric, deciding at the precision of the formats)
    pobs = precision_calls(vio, rng, 240 if thorough else 45, wd)
    for i in range(pobs["cases"]):
        rep.case(("precision", i))
    rep.part("precision", numeric_only=True, **pobs, tolerance=dict(eig_amn_absolute=TOL_F12, npz="bit-exact"),
             note="deviations are rounding of %17.12f (deterministic bound 5e-13), not noise; .mmn text files cannot be written by the code (known finding)")
    rep.part("amn_optional_tag_none", information_only=True, **optional_tag_none_observation(wd))
    lap("precision")

    rep.part("information", information_only=True, replay_files=fr.obs, replay_container=cr.info,
             note="counts of agreements/differences that are not part of the statement: tokens of the written files, names of the npz "
                  "entries, what the container accepts/refuses and its state after that, exception classes, behaviour on a re-used "
                  "seedname; mmn_writer_patched: the .mmn writer with neighbours and G supplied from outside")
    if SKIPPED:
        rep.part("skipped_private", **{k.replace(".", "_"): v for k, v in SKIPPED.items()})
    rep.part("violation_counts", **{k.replace(".", "_").replace(":", "_"): v for k, v in vio.count.items()})
    rep.part("cpu_seconds", **timing, total=round(sum(timing.values()), 1))
    shutil.rmtree(wd, ignore_errors=True)
    if not rep.violations:
        for n in tlc_names:
            shutil.rmtree(os.path.join(WORK, "tlc", n), ignore_errors=True)
            for c0 in range(0, 2000, 400):
                shutil.rmtree(os.path.join(WORK, "tlc", f"rec_{n}_{c0}"), ignore_errors=True)
            shutil.rmtree(os.path.join(WORK, "records", n), ignore_errors=True)
    return rep.finish()


def collect_pool(states):
    """the pool objects of MC_W90Cont as TLC built them: from the preset containers and the single set_file behaviours"""
    out = {}
    for hk, s in states.items():
        if len(hk) == 1:
            files = dict(s["cont"]["files"])
            for pid_ in PRESET_IDS[hk[0][2]]:
                out[pid_] = canon(files["eig" if pid_ == "eigP" else pid_])
        elif len(hk) == 2 and hk[0][2] == "0" and hk[1][0] == "set_file" and s["hist"][1]["err"] == "":
            out[hk[1][2]] = canon(dict(s["cont"]["files"])[hk[1][1]])
    return out
