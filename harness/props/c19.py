"""C19: Wannier90 files written by the code can be read back; file objects and the WannierData container survive npz.

spec  : W90Store.tla (file objects as [cls, attr, dic, dim], token layout of .eig/.amn/.mmn with the readers' reshapes and the
        b-vector re-ordering, SavableNPZ.as_dict/from_dict with the key-name scheme of dic_to_keydic/keydic_to_dic, the
        constructors' checks, WannierData set_file/unset_file/check_conform/to_npz/from_npz), MC_W90Files.tla (one state per
        file object: all NK 1..3, NB 1..3, NW 1..NB, NNB 2..6, full and partial k-point sets), MC_W90Cont.tla (container state
        machine, all action sequences up to the bound), W90StoreRec.tla (record validation)
bind  : every state of MC_W90Files is executed on the real classes in a scratch directory (to_w90_file tokens vs the
        specification's table, from_w90_file on the rendered table, to_npz names and from_npz result, the class's own
        equals()); every behaviour of MC_W90Cont is executed on a real WannierData, the container and the npz files on disk
        compared after every step; seeded random objects are written/read/saved/loaded by the real code and the records
        validated by TLC.
"""
import os
import copy
import random
import shutil
import numpy as np

from .. import tlc, ftable
from ..common import Report, MachineryError, seed, quiet, workdir

PROPS = {
    "C19": dict(level="model_checking",
                technique="TLC exhaustive on W90Store.tla (MC_W90Files: every small file object; MC_W90Cont: WannierData state machine over all action sequences up to the bound) + replay of every TLC state/behaviour on the real w90files classes and files + TLC validation of recorded real calls",
                text="TLC checks TextRoundTrip / NpzRoundTrip / NpzKeys on every file object with NK 1..3, NB 1..3, NW 1..NB, NNB 2..6 "
                     "(full and irreducible k-point sets, re-ordered b-vectors) and ContRoundTrip / ContConsistent / ChkFollowsAmn / "
                     "WriteReadable on every sequence of container actions inside the bound; each state is executed on the real EIG, AMN, "
                     "MMN, BKVectors, CheckPoint, SPN, UHU, UIU, SHU, SIU and WannierData with exact comparison of file tokens, npz entry "
                     "names, reloaded tables and container contents; random objects are recorded through the real writers/readers/npz "
                     "and every clause of W90StoreRec is evaluated by TLC.",
                note="data are multiples of 1/8 (exactly printable); digit-level encode/decode fidelity beyond exactly printable values is "
                     "exercised, not specified; `compares equal` = the class's equals() where it works (W90_file subclasses with data), "
                     "structural comparison of the projections otherwise (BKVectors, CheckPoint); UNK, SOC, WIN and the symmetrizer are not modelled",
                ref="DESIGN.md 3.7"),
}

ASIS = dict(WriterIndexing='"tuple"', MmnWriterBkvec="FALSE", LoadtxtSqueeze="TRUE")
FIXED = dict(WriterIndexing='"nested"', MmnWriterBkvec="TRUE", LoadtxtSqueeze="FALSE")

INT_TAGS = {"NK", "num_wann", "num_bands", "num_kpts", "bk_grid", "kpt_grid", "kptirr", "mp_grid", "bk_reorder", "neighbours", "G"}
F8_TAGS = {"wk", "recip_lattice", "real_lattice", "wannier_centers_cart", "wannier_spreads"}


# --------------------------------------------------------------------------- conversions
def L(x):
    if isinstance(x, (tuple, list)):
        return [L(y) for y in x]
    return x


def canon(o):
    """parsed TLA+ object -> plain dict (lists, int keys)"""
    return dict(cls=o["cls"], attr={k: L(v) for k, v in dict(o["attr"]).items()},
                dic={t: {int(k): L(v) for k, v in dict(d).items()} for t, d in dict(o["dic"]).items()},
                dim={k: int(v) for k, v in dict(o["dim"]).items()})


def ints(a, what):
    a = np.asarray(a)
    r = np.rint(a.astype(float))
    if a.size and np.max(np.abs(a.astype(float) - r)) > 1e-9:
        raise ValueError(f"non-integer in {what}")
    return r.astype(int).tolist()


def f8(a, what):
    return ints(np.asarray(a, dtype=float) * 8, what)


def c8(a, what):
    a = np.asarray(a)
    return np.stack([np.array(f8(a.real, what)), np.array(f8(a.imag, what))], axis=-1).tolist()


def carr(t):
    a = np.array(t, dtype=float) / 8
    return a[..., 0] + 1j * a[..., 1]


def classes():
    from wannierberri.w90files.eig import EIG
    from wannierberri.w90files.amn import AMN
    from wannierberri.w90files.mmn import MMN
    from wannierberri.w90files.bkvectors import BKVectors
    from wannierberri.w90files.chk import CheckPoint
    from wannierberri.w90files.spn import SPN
    from wannierberri.w90files.xxu import UHU, UIU, SHU, SIU
    return dict(eig=EIG, amn=AMN, mmn=MMN, bkvec=BKVectors, chk=CheckPoint, spn=SPN, uhu=UHU, uiu=UIU, shu=SHU, siu=SIU)


def build(o):
    """canonical object -> real file object"""
    C = classes()
    cls, a, d = o["cls"], o["attr"], o["dic"]
    with quiet():
        if cls == "eig":
            return C[cls](data={k: np.array(v, dtype=float) / 8 for k, v in d["data"].items()}, NK=a["NK"])
        if cls == "mmn":
            return C[cls](data={k: carr(v) for k, v in d["data"].items()}, NK=a["NK"],
                          bk_reorder={k: np.array(v, dtype=int) for k, v in d["bk_reorder"].items()})
        if cls == "bkvec":
            return C[cls](recip_lattice=np.array(a["recip_lattice"], dtype=float) / 8, mp_grid=np.array(a["mp_grid"]),
                          wk=np.array(a["wk"], dtype=float) / 8, bk_grid=np.array(a["bk_grid"], dtype=int),
                          G={k: np.array(v, dtype=int) for k, v in d["G"].items()},
                          neighbours={k: np.array(v, dtype=int) for k, v in d["neighbours"].items()},
                          kpt_grid=np.array(a["kpt_grid"], dtype=int), kptirr=list(a["kptirr"]))
        if cls == "chk":
            kw = dict(real_lattice=np.array(a["real_lattice"], dtype=float) / 8, num_wann=a["num_wann"], num_bands=a["num_bands"],
                      num_kpts=a["num_kpts"], mp_grid=np.array(a["mp_grid"]),
                      kpt_red=np.array(a["kpt_red"], dtype=float) / np.array(a["mp_grid"], dtype=float)[None, :])
            if "wannier_centers_cart" in a:
                kw["wannier_centers_cart"] = np.array(a["wannier_centers_cart"], dtype=float) / 8
            if "wannier_spreads" in a:
                kw["wannier_spreads"] = np.array(a["wannier_spreads"], dtype=float) / 8
            if "v_matrix" in d:
                kw["v_matrix"] = {k: carr(v) for k, v in d["v_matrix"].items()}
            return C[cls](**kw)
        return C[cls](data={k: carr(v) for k, v in d["data"].items()}, NK=a["NK"])


def project(x, cls):
    """real file object -> canonical object"""
    C = classes()[cls]
    attr, dic, dim = {}, {}, {}
    for t in list(C.npz_tags) + list(C.npz_tags_optional):
        v = getattr(x, t, None)
        if v is None:
            continue
        if t == "kpt_red":
            attr[t] = ints(np.asarray(v) * np.asarray(x.mp_grid)[None, :], t)
        elif t in F8_TAGS:
            attr[t] = f8(v, t)
        else:
            attr[t] = ints(v, t) if np.ndim(v) else int(v)
    for t in list(C.npz_keys_dict_int) + list(C.npz_keys_dict_int_optional):
        v = getattr(x, t, None)
        if v is None:
            continue
        if t in INT_TAGS:
            dic[t] = {int(k): ints(w, t) for k, w in v.items()}
        elif cls == "eig":
            dic[t] = {int(k): f8(w, t) for k, w in v.items()}
        else:
            dic[t] = {int(k): c8(w, t) for k, w in v.items()}
    for n in ("NB", "NW", "NNB"):
        if n in vars(x):
            dim[n] = int(getattr(x, n))
    dim["NK"] = int(x.NK)
    if cls == "bkvec":
        dim = dict(NK=int(x.NK), NNB=int(x.NNB))
    return dict(cls=cls, attr=attr, dic=dic, dim=dim)


def seg(name):
    return tuple(name.split("_"))


# --------------------------------------------------------------------------- text files
def tokens(path, ncomment):
    out = []
    with open(path) as f:
        for n, line in enumerate(f):
            if n < ncomment:
                out.append([])
                continue
            toks = []
            for t in line.split():
                try:
                    toks.append(int(t))
                except ValueError:
                    x = float(t) * 8
                    if abs(x - round(x)) > 1e-9:
                        raise ValueError(f"non-dyadic token {t}")
                    toks.append(int(round(x)))
            out.append(toks)
    return out


def render(cls, lines, seedpath):
    """token table of the specification -> text file in the layout Wannier90 uses"""
    with open(seedpath + "." + cls, "w") as f:
        for n, l in enumerate(lines):
            if cls == "eig":
                f.write(f"{l[0]:5d}{l[1]:5d}{l[2] / 8:18.12f}\n")
            elif n == 0:
                f.write("rendered from the specification\n")
            elif n == 1:
                f.write(" ".join(f"{x:12d}" for x in l) + "\n")
            elif cls == "amn":
                f.write(f"{l[0]:5d}{l[1]:5d}{l[2]:5d}{l[3] / 8:18.12f}{l[4] / 8:18.12f}\n")
            elif len(l) == 5:
                f.write(" ".join(f"{x:5d}" for x in l) + "\n")
            else:
                f.write(f"{l[0] / 8:18.12f}{l[1] / 8:18.12f}\n")


NCOMMENT = dict(eig=0, amn=1, mmn=1)


def call(fn, *a, **kw):
    try:
        with quiet():
            return fn(*a, **kw), None
    except Exception as ex:
        return None, type(ex).__name__ + ": " + str(ex)[:160]


class InProcessPool:
    """stands in for multiprocessing.Pool inside the .amn/.mmn readers (they only use map/close/join): the text conversion
    runs in this process instead of forked workers, everything else is the unmodified reader.  The first calls of every
    class go through the real Pool."""
    real_calls = {}

    def __init__(self, *a, **kw):
        pass

    def map(self, fn, it):
        return [fn(x) for x in it]

    def close(self):
        pass

    def join(self):
        pass


def real_read(cls, seedpath, bk=None):
    import multiprocessing
    C = classes()[cls]
    if cls == "eig":
        return call(C.from_w90_file, seedpath)
    n = InProcessPool.real_calls.get(cls, 0)
    InProcessPool.real_calls[cls] = n + 1
    saved = multiprocessing.Pool
    if n >= 3:
        multiprocessing.Pool = InProcessPool
    try:
        if cls == "amn":
            return call(C.from_w90_file, seedpath, npar=1)
        return call(C.from_w90_file, seedpath, bkvec=bk, npar=1)
    finally:
        multiprocessing.Pool = saved


def call_writer(x, seedpath, bk=None):
    """to_w90_file(seedname); a b-vector table is passed along if the method has a parameter for it"""
    import inspect
    kw = {}
    try:
        for name in inspect.signature(x.to_w90_file).parameters:
            if name in ("bkvec", "bkvectors", "bkvecs", "bk") and bk is not None:
                kw[name] = bk
    except (TypeError, ValueError):
        pass
    return call(x.to_w90_file, seedpath, **kw)


def own_equals(cls, a, b):
    """the class's own equals() where it is usable, else None"""
    if cls in ("bkvec", "chk"):
        return None
    r, ex = call(a.equals, b)
    if ex:
        return "exception: " + ex
    return bool(r[0])


def with_workaround(cls, x, bk):
    """a copy on which the writer's missing pieces are supplied from outside (observation only): array data for EIG/AMN,
    neighbours and G of the b-vector table for MMN"""
    y = copy.copy(x)
    if cls in ("eig", "amn"):
        y.data = np.array([x.data[k] for k in range(x.NK)])
    else:
        y.neighbours = np.array([bk.neighbours[k] for k in range(x.NK)])
        y.G = np.array([bk.G[k] for k in range(x.NK)])
    return y


def excname(ex):
    return ex.split(":")[0]


class FileReplay:
    def __init__(self, rep, wd):
        self.rep, self.wd, self.n = rep, wd, 0
        self.obs = dict(writer_layout_agrees_when_patched=0, writer_layout_differs_when_patched=0, patched_writer_failed=0)
        self.count = {}

    def one(self, s):
        self.n += 1
        o = canon(s["obj"])
        cls = o["cls"]
        par = s["par"]
        info = dict(cls=cls, NK=par[1], NB=par[2], NW=par[3], NNB=par[4], partial_k=par[5], pattern=par[6], flag=par[7])
        self.count[cls] = self.count.get(cls, 0) + 1
        d = os.path.join(self.wd, f"f{self.n}")
        os.makedirs(d, exist_ok=True)
        x = build(o)
        p0 = project(x, cls)
        if p0 != o:
            raise MachineryError(f"harness cannot build the specification's object {info}: {[k for k in o if o[k] != p0[k]]}")
        bk = build(canon(s["bk"])) if cls == "mmn" else None
        # ---- text
        if cls in NCOMMENT:
            exp = s["txt"]
            seedw = os.path.join(d, "w")
            _, ex = call_writer(x, seedw, bk)
            if exp["err"] == "":
                lines = L(exp["lines"])
                if ex is not None:
                    self.rep.violation(f"{cls.upper()}.to_w90_file:{excname(ex)}",
                                       dict(info, call=f"{cls.upper()}(data=..., NK={par[1]}).to_w90_file(seedname)", exception=ex,
                                            expected="a file from which from_w90_file recovers the data"))
                    # observation: does the rest of the writer agree with the specification's layout?
                    try:
                        y = with_workaround(cls, x, bk)
                        _, ex2 = call(y.to_w90_file, seedw + "p")
                        if ex2:
                            self.obs["patched_writer_failed"] += 1
                        elif tokens(seedw + "p." + cls, NCOMMENT[cls]) == lines:
                            self.obs["writer_layout_agrees_when_patched"] += 1
                        else:
                            self.obs["writer_layout_differs_when_patched"] += 1
                    except Exception:
                        self.obs["patched_writer_failed"] += 1
                else:
                    got = tokens(seedw + "." + cls, NCOMMENT[cls])
                    if got != lines:
                        self.rep.violation(f"{cls.upper()}.to_w90_file:file_tokens", dict(info, expected_first=lines[:8], got_first=got[:8]))
                    y, exr = real_read(cls, seedw, bk)          # the real file through the real reader
                    if exr is None and project(y, cls) != canon(s["rd"]["obj"]):
                        self.rep.violation(f"{cls.upper()}.from_w90_file:roundtrip", dict(info, what="reader output differs from what was written"))
                # the specification's table through the real reader
                seedr = os.path.join(d, "r")
                render(cls, lines, seedr)
                y, exr = real_read(cls, seedr, bk)
                if s["rd"]["err"] != "":
                    raise MachineryError(f"specification reader failed on its own table {info}")
                if exr is not None:
                    sub = ":single_value_file" if cls == "eig" and par[1] * par[2] == 1 else ""
                    self.rep.violation(f"{cls.upper()}.from_w90_file:{excname(exr)}{sub}",
                                       dict(info, file_lines=[" ".join(str(t) for t in l) for l in lines[:6]], exception=exr,
                                            note="tokens are in units of 1/8 for real numbers"))
                else:
                    gp = project(y, cls)
                    ep = canon(s["rd"]["obj"])
                    if gp != ep:
                        self.rep.violation(f"{cls.upper()}.from_w90_file:projection",
                                           dict(info, differing=[k for k in ep if ep[k] != gp[k]], expected_dim=ep["dim"], got_dim=gp["dim"]))
            elif ex is None:
                # writing an object that lacks k-points is outside the statement; what the code does is only counted
                self.obs["partial_k_object_written_without_error"] = self.obs.get("partial_k_object_written_without_error", 0) + 1
        # ---- npz
        path = os.path.join(d, f"x.{cls}.npz")
        _, ex = call(x.to_npz, path)
        if ex is not None:
            self.rep.violation(f"{cls}.to_npz:{excname(ex)}", dict(info, exception=ex))
        else:
            names = {seg(n) for n in np.load(path).files}
            expn = {tuple(k) for k in dict(s["npz"]).keys()}
            if names != expn:
                self.rep.violation(f"{cls}.to_npz:entry_names", dict(info, expected=sorted(expn), got=sorted(names)))
            y, ex = call(classes()[cls].from_npz, path)
            if ex is not None:
                self.rep.violation(f"{cls}.from_npz:{excname(ex)}", dict(info, exception=ex))
            else:
                gp = project(y, cls)
                ep = canon(s["back"]["obj"])
                if gp != ep:
                    self.rep.violation(f"{cls}.from_npz:projection", dict(info, differing=[k for k in ep if ep[k] != gp[k]]))
                eq = own_equals(cls, x, y)
                if eq is not None and eq is not True:
                    self.rep.violation(f"{cls}.from_npz:equals", dict(info, equals_returned=eq))
        shutil.rmtree(d, ignore_errors=True)


# --------------------------------------------------------------------------- container
def cont_project(w):
    out = {}
    for k, v in w._files.items():
        out[k] = project(v, k)
    return out


def cont_canon(c):
    return {k: canon(v) for k, v in dict(c["files"]).items()}


PRESET_IDS = {"0": [], "1": ["chk", "eig", "amn", "mmn", "bkvec"], "2": ["eigP", "bkvec"],
              "3": ["chk", "eig", "amn", "mmn", "bkvec"], "4": ["eigP", "bkvec"]}
EXT = dict(uhu="uHu", uiu="uIu", shu="sHu", siu="sIu")


def disk_names(seedpath):
    """{key: set of entry-name segments} of the npz files of a seedname"""
    out = {}
    d, base = os.path.split(seedpath)
    for f in os.listdir(d):
        if f.startswith(base + ".") and f.endswith(".npz"):
            ext = f[len(base) + 1:-4]
            out[ext.lower()] = {seg(n) for n in np.load(os.path.join(d, f)).files}
    return out


class ContReplay:
    def __init__(self, rep, wd, states):
        self.rep, self.wd, self.n = rep, wd, 0
        self.states = states            # hist key -> parsed state
        self.pool = {}
        self.ops = {}

    @staticmethod
    def hkey(hist):
        return tuple((e["op"], e["key"], e["id"], e["flag"]) for e in hist)

    def obj(self, spec_obj):
        return build(canon(spec_obj))

    def replay(self, s, pool_objs):
        from wannierberri.w90files.wandata import WannierData
        self.n += 1
        d = os.path.join(self.wd, f"c{self.n}")
        os.makedirs(d, exist_ok=True)
        seedn = os.path.join(d, "wd")
        hist = s["hist"]
        info = dict(preset=hist[0]["id"], ops=[dict(op=e["op"], key=e["key"], id=e["id"], flag=e["flag"]) for e in hist[1:]])
        w = WannierData()
        s0 = self.states[self.hkey(hist[:1])]
        for k in PRESET_IDS[hist[0]["id"]]:
            with quiet():
                w.set_file(pool_objs[k]["cls"], build(pool_objs[k]))
        if hist[0]["id"] in ("3", "4"):
            with quiet():
                w.to_npz(seedn)
        if cont_project(w) != cont_canon(s0["cont"]) or \
                disk_names(seedn) != {k: {tuple(x) for x in dict(v).keys()} for k, v in dict(s0["disk"]).items()}:
            raise MachineryError(f"harness cannot build the preset container {hist[0]['id']}")
        ok = True
        loaded = None
        for n, e in enumerate(hist[1:], start=2):
            st = self.states[self.hkey(hist[:n])]
            op = e["op"]
            self.ops[op] = self.ops.get(op, 0) + 1
            if op == "set_file":
                import warnings
                with warnings.catch_warnings():
                    warnings.simplefilter("ignore")
                    _, ex = call(w.set_file, e["key"], build(pool_objs[e["id"]]), overwrite=e["flag"])
            elif op == "unset_file":
                _, ex = call(w.unset_file, e["key"], ignore_missing=e["flag"])
            elif op == "to_npz":
                _, ex = call(w.to_npz, seedn)
            elif op == "from_npz":
                import warnings
                with warnings.catch_warnings():
                    warnings.simplefilter("ignore")
                    loaded, ex = call(WannierData.from_npz, seedn)
            else:
                _, ex = call(w.write, seedn, files=[e["key"]])
            site = f"WannierData.{op}"
            if (ex is None) != (e["err"] == ""):
                if op == "write" and ex is not None:
                    site = f"{e['key'].upper()}.to_w90_file"
                    self.rep.violation(f"{site}:{excname(ex)}", dict(info, step=n - 1, via="WannierData.write", exception=ex))
                else:
                    self.rep.violation(f"{site}:{'exception:' + excname(ex) if ex else 'unexpected_success'}",
                                       dict(info, step=n - 1, expected_error=e["err"], got=ex))
                ok = False
                break
            if ex is not None and not ex.startswith(e["err"]):
                self.rep.violation(f"{site}:other_exception", dict(info, step=n - 1, expected_error=e["err"], got=ex))
                ok = False
                break
            # state after the step
            try:
                gp = cont_project(w)
            except ValueError as ve:
                self.rep.violation(f"{site}:projection", dict(info, step=n - 1, problem=str(ve)))
                ok = False
                break
            if gp != cont_canon(st["cont"]):
                ep = cont_canon(st["cont"])
                self.rep.violation(f"{site}:container", dict(info, step=n - 1, expected_keys=sorted(ep), got_keys=sorted(gp),
                                                             differing=[k for k in ep if k in gp and ep[k] != gp[k]]))
                ok = False
                break
            if op == "to_npz":
                names = disk_names(seedn)
                expn = {k: {tuple(x) for x in dict(v).keys()} for k, v in dict(st["disk"]).items()}
                if names != expn:
                    self.rep.violation(f"{site}:files_on_disk", dict(info, step=n - 1, expected=sorted(expn), got=sorted(names)))
                    ok = False
                    break
            if op == "from_npz" and ex is None:
                lp = cont_project(loaded)
                if lp != cont_canon(st["loaded"]):
                    ep = cont_canon(st["loaded"])
                    self.rep.violation(f"{site}:loaded_container", dict(info, step=n - 1, expected_keys=sorted(ep), got_keys=sorted(lp),
                                                                        differing=[k for k in ep if k in lp and ep[k] != lp[k]]))
                    ok = False
                    break
                if bool(loaded.irreducible) != bool(st["loaded"]["irreducible"]):
                    self.rep.violation(f"{site}:irreducible_flag", dict(info, step=n - 1, expected=st["loaded"]["irreducible"], got=bool(loaded.irreducible)))
                    ok = False
                if e["exact"]:
                    # the statement itself: every file of the loaded container compares equal to the original
                    for k, v in w._files.items():
                        eq = own_equals(k, v, loaded._files[k]) if k in loaded._files else False
                        if eq is not None and eq is not True:
                            self.rep.violation(f"{site}:equals", dict(info, step=n - 1, file=k, equals_returned=eq))
                            ok = False
            if op == "write" and ex is None:
                got = tokens(seedn + "." + e["key"], NCOMMENT[e["key"]])
                if got != L(dict(st["texts"])[e["key"]]):
                    self.rep.violation(f"{site}:file_tokens", dict(info, step=n - 1))
                    ok = False
        shutil.rmtree(d, ignore_errors=True)
        return ok


# --------------------------------------------------------------------------- records
def to_json_obj(o):
    return dict(cls=o["cls"], attr=o["attr"], dic=[[t, [[k, v] for k, v in sorted(d.items())]] for t, d in sorted(o["dic"].items())], dim=o["dim"])


def random_obj(rng, cls, nk=None, nb=None, nnb=None):
    nk = nk or rng.randint(1, 4)
    nb = nb or rng.randint(1, 4)
    nw = rng.randint(1, nb)
    nnb = nnb or rng.randint(2, 6)
    ks = list(range(nk))

    def cv():
        return [rng.randint(-60, 60), rng.randint(-60, 60)]

    if cls == "eig":
        return dict(cls=cls, attr=dict(NK=nk), dic=dict(data={k: sorted(rng.randint(-80, 80) for _ in range(nb)) for k in ks}), dim=dict(NB=nb, NK=nk))
    if cls == "amn":
        return dict(cls=cls, attr=dict(NK=nk), dic=dict(data={k: [[cv() for _ in range(nw)] for _ in range(nb)] for k in ks}), dim=dict(NB=nb, NW=nw, NK=nk))
    if cls == "mmn":
        return dict(cls=cls, attr=dict(NK=nk),
                    dic=dict(data={k: [[[cv() for _ in range(nb)] for _ in range(nb)] for _ in range(nnb)] for k in ks},
                             bk_reorder={k: list(range(nnb)) for k in ks}), dim=dict(NNB=nnb, NB=nb, NK=nk))
    if cls == "bkvec":
        B6 = [[1, 0, 0], [-1, 0, 0], [0, 1, 0], [0, -1, 0], [0, 0, 1], [0, 0, -1]]
        nbr = {k: [(k + B6[j][0]) % nk for j in range(nnb)] for k in ks}
        return dict(cls=cls, attr=dict(bk_grid=B6[:nnb], wk=[rng.randint(1, 9) for _ in range(nnb)], kpt_grid=[[k, 0, 0] for k in ks],
                                       kptirr=ks, mp_grid=[nk, 1, 1], recip_lattice=[[8, 0, 0], [0, 8, 0], [0, 0, 8]]),
                    dic=dict(neighbours=nbr, G={k: [[(k + B6[j][0] - nbr[k][j]) // nk, B6[j][1], B6[j][2]] for j in range(nnb)] for k in ks}),
                    dim=dict(NK=nk, NNB=nnb))
    raise ValueError(cls)


def record_calls(rep, rng, n, wd):
    recs, meta = [], []
    for it in range(n):
        cls = ("eig", "amn", "mmn")[it % 3]
        kind = ("write", "read", "npz")[(it // 3) % 3]
        small = rng.random() < 0.25
        o = random_obj(rng, cls, nk=1 if small else None, nb=1 if small else None)
        d = os.path.join(wd, f"r{it}")
        os.makedirs(d, exist_ok=True)
        x = build(o)
        bko = random_obj(rng, "bkvec", nk=o["dim"]["NK"], nnb=o["dim"].get("NNB", 2))
        bk = build(bko)
        rec = dict(kind=kind, cls=cls, obj=to_json_obj(o), bk=to_json_obj(bko))
        m = dict(kind=kind, cls=cls, dims=o["dim"])
        if kind == "write":
            _, ex = call_writer(x, os.path.join(d, "w"), bk)
            rec["out"] = dict(err=excname(ex)) if ex else dict(err="", lines=tokens(os.path.join(d, "w." + cls), NCOMMENT[cls]))
            m["exception"] = ex
        elif kind == "read":
            # a file in the Wannier90 layout made from the object by the harness's own writer (independent of the specification)
            lines = ref_lines(o, bko)
            render(cls, lines, os.path.join(d, "r"))
            y, ex = real_read(cls, os.path.join(d, "r"), bk)
            rec.update(lines=lines, has_obj=True)
            rec["out"] = dict(err=excname(ex)) if ex else dict(err="", obj=to_json_obj(project(y, cls)))
            m["exception"] = ex
        else:
            path = os.path.join(d, f"x.{cls}.npz")
            with quiet():
                x.to_npz(path)
            rec["names"] = [list(seg(nm)) for nm in np.load(path).files]
            y, ex = call(classes()[cls].from_npz, path)
            rec["out"] = dict(err=excname(ex)) if ex else dict(err="", obj=to_json_obj(project(y, cls)))
            rec["equals_verdict"] = bool(ex is None and own_equals(cls, x, y) is True)
            m["exception"] = ex
        recs.append(rec)
        meta.append(m)
        rep.case(("rec", kind, cls, it))
        shutil.rmtree(d, ignore_errors=True)
    return recs, meta


def ref_lines(o, bko):
    """token table of a Wannier90 text file for the object, written from the format's definition"""
    cls, dat = o["cls"], o["dic"]["data"]
    nk = o["dim"]["NK"]
    if cls == "eig":
        return [[b + 1, k + 1, dat[k][b]] for k in range(nk) for b in range(o["dim"]["NB"])]
    if cls == "amn":
        nb, nw = o["dim"]["NB"], o["dim"]["NW"]
        return [[], [nb, nk, nw]] + [[b + 1, w + 1, k + 1] + dat[k][b][w] for k in range(nk) for w in range(nw) for b in range(nb)]
    nb, nnb = o["dim"]["NB"], o["dim"]["NNB"]
    out = [[], [nb, nk, nnb]]
    for k in range(nk):
        for j in range(nnb):
            out.append([k + 1, bko["dic"]["neighbours"][k][j] + 1] + bko["dic"]["G"][k][j])
            for n in range(nb):
                for m in range(nb):
                    out.append(list(dat[k][j][m][n]))      # M_mn(k, b): m runs fastest
    return out


def cfg(spec, consts, invs, sw=FIXED):
    c = dict(sw)
    c.update(consts)
    return (f"SPECIFICATION {spec}\nCONSTANTS\n" + "".join(f"  {k} = {v}\n" for k, v in c.items())
            + "".join(f"INVARIANT {i}\n" for i in invs) + "CHECK_DEADLOCK FALSE\n")


ALLCLS = '{"eig", "amn", "mmn", "bkvec", "chk", "spn", "uhu", "uiu", "shu", "siu"}'


def drop_dump(st):
    """the state dump has been consumed; tlc.out stays as evidence"""
    try:
        os.remove(st["dump_path"])
    except (OSError, KeyError, TypeError):
        pass


class Capped:
    """passes at most `cap` violations per key to the Report (so that every distinct key is written out), counts the rest"""

    def __init__(self, rep, cap=3):
        self.rep, self.cap, self.count = rep, cap, {}

    def violation(self, key, detail):
        self.count[key] = self.count.get(key, 0) + 1
        if self.count[key] <= self.cap:
            self.rep.violation(key, detail)


def check(pid, tier):
    rep = Report(pid, tier, "model_checking")
    vio = Capped(rep)
    thorough = tier == "thorough"
    rng = random.Random(seed() * 7919 + 19)
    import wannierberri  # noqa: F401
    wd = workdir("c19")
    rep.rule("TLC enumerates every file object inside (NK, NB, NW, NNB, k-point subsets, patterns) and every sequence of container "
             "actions up to MAXLEN; a case = one such state/behaviour executed on the real classes (exact comparison of tokens, npz "
             "entry names, tables, container contents) or one seeded random recorded call validated by TLC")
    rep.assume("data are multiples of 1/8, exactly printed by the text formats")
    rep.assume("the b-vector table needed by .mmn files is a (NK,1,1) mesh with the first NNB axis neighbours")

    # ---------------- file objects
    fconst = dict(CLS=ALLCLS, NKS="{1, 2, 3}", NBS="{1, 2, 3}", NNBS="{2, 3, 4, 5, 6}", PATS="{1, 2}" if thorough else "{1}")
    finv = ["TextRoundTrip", "WriterNeedsAllK", "NpzRoundTrip", "NpzKeys"]
    st = ftable.enumerate_states("MC_W90Files.tla", cfg("FSpec", fconst, finv), "c19_files", timeout=1800)
    ftable.spec_violation(rep, st, "c19_files")
    rep.add_tlc("c19_files", st)
    fr = FileReplay(vio, wd)
    for s in ftable.dump_states(st):
        p = s["par"]
        rep.case(("file",) + tuple(p))
        fr.one(s)
        if fr.n <= 2:
            rep.sample(dict(cls=p[0], NK=p[1], NB=p[2], NW=p[3], NNB=p[4], partial_k=p[5]))
    drop_dump(st)
    if fr.n != st["distinct"] or set(fr.count) != set(classes()):
        raise MachineryError(f"file-object dump incomplete: {fr.n} of {st['distinct']}, classes {sorted(fr.count)}")
    rep.part("replay_files", states=fr.n, per_class=fr.count, **fr.obs,
             note="*_when_patched: observation with array data (EIG, AMN) / neighbours and G (MMN) supplied from outside, so that the "
                  "rest of the writer can be compared with the specification's token table")

    # ---------------- sensitivity: the model of the code as read must violate the property
    sa = tlc.run_tlc("MC_W90Files.tla", cfg("FSpec", dict(fconst, NNBS="{2}", PATS="{1}"), ["TextRoundTrip"], sw=ASIS), "c19_asis", workers=4, timeout=900)
    if not sa.get("violation"):
        raise MachineryError("sensitivity self-test failed: the model of the writers as read (tuple key on a dict, neighbours of self) must violate TextRoundTrip")
    rep.part("c19_asis", sensitivity_violation=sa["violation"][1], constants=ASIS)
    sb = tlc.run_tlc("MC_W90Files.tla", cfg("FSpec", dict(fconst, CLS='{"eig"}', NNBS="{2}", PATS="{1}"), ["TextRoundTrip"],
                                            sw=dict(FIXED, LoadtxtSqueeze="TRUE")), "c19_loadtxt", workers=4, timeout=900)
    if not sb.get("violation"):
        raise MachineryError("sensitivity self-test failed: a 1-d loadtxt result for a one-line .eig file must violate TextRoundTrip")
    rep.part("c19_loadtxt", sensitivity_violation=sb["violation"][1])

    # ---------------- container
    cconst = dict(CLS='{"eig"}', NKS="{1}", NBS="{1}", NNBS="{2}", PATS="{1}", MAXLEN=3 if thorough else 2,
                  POOL='{"eig", "eigB3", "eigK3", "eigP", "amnW2", "mmnN4", "chk", "spn"}' if not thorough
                  else '{"eig", "eigB3", "eigP", "amnW2", "mmnN4", "chk"}', PRESETS="{0, 1, 2, 3, 4}")
    cinv = ["ContRoundTrip", "ContConsistent", "ChkFollowsAmn", "WriteReadable"]
    stc = ftable.enumerate_states("MC_W90Cont.tla", cfg("CSpec", cconst, cinv), "c19_cont", timeout=2400)
    ftable.spec_violation(rep, stc, "c19_cont")
    rep.add_tlc("c19_cont", stc)
    states, leaves = {}, []
    maxlen = cconst["MAXLEN"]
    for s in ftable.dump_states(stc):
        states[ContReplay.hkey(s["hist"])] = s
        if len(s["hist"]) - 1 == maxlen:
            leaves.append(s)
    drop_dump(stc)
    if len(states) != stc["distinct"]:
        raise MachineryError("container dump: behaviours are not distinct states")
    pool = collect_pool(states)
    nmax = 6000 if thorough else 1500
    if len(leaves) > nmax:
        # every behaviour that saves or loads, a seeded sample of the others
        rng.shuffle(leaves)
        leaves.sort(key=lambda s: 0 if any(e["op"] in ("to_npz", "from_npz") for e in s["hist"]) else 1)
        leaves = leaves[:nmax]
    cr = ContReplay(vio, wd, states)
    followed = 0
    rt = 0
    for s in leaves:
        rep.case(("cont",) + ContReplay.hkey(s["hist"]))
        if cr.replay(s, pool):
            followed += 1
        rt += sum(1 for e in s["hist"] if e["op"] == "from_npz" and e["exact"])
    for op in ("set_file", "unset_file", "to_npz", "from_npz", "write"):
        if not cr.ops.get(op):
            raise MachineryError(f"container action never replayed: {op}")
    if rt == 0:
        raise MachineryError("no to_npz/from_npz round trip among the replayed behaviours")
    rep.part("replay_container", behaviours=len(leaves), followed_specification=followed, actions=cr.ops, exact_round_trips=rt)
    rep.sample(dict(container_behaviour=[(e["op"], e["key"], e["id"]) for e in leaves[0]["hist"]]))

    # ---------------- code -> spec: recorded calls
    nrec = 900 if thorough else 180
    recs, meta = record_calls(rep, rng, nrec, wd)
    # binding self-test inside the same batch: a corrupted copy of an accepted npz record must be rejected
    cand = [i for i, r in enumerate(recs) if r["kind"] == "npz" and r["out"]["err"] == ""]
    if not cand:
        raise MachineryError("no successful npz record for the binding self-test")
    br = copy.deepcopy(recs[cand[0]])
    t = br["out"]["obj"]["dic"][0][1][0][1]
    while isinstance(t[0], list):
        t = t[0]
    t[0] += 1
    stv, bad = ftable.validate_records("W90StoreRec.tla", cfg("RecSpec", {}, ["Report"]), recs + [br], "c19", chunk=400)
    rep.add_tlc("c19_records", stv)
    rep.add_traces(len(recs))
    if len(recs) not in bad:
        raise MachineryError("binding self-test failed: corrupted npz record accepted")
    if cand[0] in bad:
        raise MachineryError(f"binding self-test inconclusive: the uncorrupted record is rejected too ({bad[cand[0]]})")
    rep.part("binding_selftest", corrupted_record_rejected=bad.pop(len(recs)))
    for i, clauses in bad.items():
        m = meta[i]
        C = m["cls"].upper()
        if m["kind"] == "write":
            key = f"{C}.to_w90_file:{excname(m['exception'])}" if m["exception"] else f"{C}.to_w90_file:recorded"
        elif m["kind"] == "read":
            sub = ":single_value_file" if m["cls"] == "eig" and m["dims"]["NK"] * m["dims"]["NB"] == 1 else ""
            key = f"{C}.from_w90_file:{excname(m['exception'])}{sub}" if m["exception"] else f"{C}.from_w90_file:recorded"
        else:
            key = f"{m['cls']}.from_npz:recorded"
        vio.violation(key, dict(meta=m, failing_clauses=clauses))
    kinds = {(m["kind"], m["cls"]) for m in meta}
    if len(kinds) != 9:
        raise MachineryError(f"record classes missing: {sorted(kinds)}")
    rep.sample(dict(record=meta[0]))
    rep.part("violation_counts", **{k.replace(".", "_").replace(":", "_"): v for k, v in vio.count.items()})
    shutil.rmtree(wd, ignore_errors=True)
    return rep.finish()


def collect_pool(states):
    """the pool objects of MC_W90Cont as TLC built them: from the preset containers and the single set_file behaviours"""
    out = {}
    for hk, s in states.items():
        if len(hk) == 1:
            files = dict(s["cont"]["files"])
            for pid_ in PRESET_IDS[hk[0][2]]:
                out[pid_] = canon(files["eig" if pid_ == "eigP" else pid_])
        elif len(hk) == 2 and hk[0][2] == "0" and hk[1][0] == "set_file" and s["hist"][1]["err"] == "":
            out[hk[1][2]] = canon(dict(s["cont"]["files"])[hk[1][1]])
    return out
