"""Binding between the abstract systems of spec/SysAlg.tla and real wannierberri objects (helper of props/sysalg.py).

abstract system (Python side): dict(nw, cen = int array (nw, 3) in twelfths, rs = sorted list of R tuples,
H = {R: complex ndarray (nw, nw)}, hasX, X = {R: ndarray}, spinor)

Conventions of this binding
  * only the public call a property talks about is run through `under_test`: an exception raised inside the wannierberri
    package becomes `UnderTestError` (a violation `<site>:raises` at the caller), an exception raised in a harness frame
    (wrong keyword, renamed attribute) becomes `HarnessMisuse` (the sub-check is skipped and recorded in SKIPPED);
  * private attributes are read through `private(...)`: when they are gone the sub-check is skipped, not crashed;
  * systems are compared as functions R -> matrix continued by zero (the set of stored R-vectors is a representation);
  * every second case lives on a non-orthogonal lattice (LAT_SKEW), so that Cartesian and reduced quantities differ.
"""
import hashlib
import json
import warnings
import numpy as np

from ..common import quiet, MachineryError

CU = 12
V3 = np.array([1.0, 2.0, -1.0])      # the second matrix X of the specification is bound to AA(R)[a, b, :] = X(R)[a, b] * V3
TOL_INT = 1e-9                       # integrality of projections (observed deviations ~1e-14)
LAT_ID = np.eye(3)
LAT_SKEW = np.array([[1.0, 0.0, 0.0], [1.0, 2.0, 0.0], [0.0, 0.0, 3.0]])
SKIPPED = {}                         # name of a private detail / call site -> why the sub-check was skipped
KNOWN_KEYS = ("Ham", "AA", "BB", "CC", "SS", "OO", "GG", "FF", "SA", "SHA", "SR", "SH", "SHR", "SRA")


class NonIntegral(Exception):
    pass


class UnderTestError(Exception):
    """the wannierberri package raised inside a public call the property talks about"""

    def __init__(self, ex, site):
        super().__init__(f"{type(ex).__name__}: {ex}")
        self.ex, self.site = ex, site


class HarnessMisuse(Exception):
    """the exception was raised in a harness frame (bad keyword, renamed private attribute): not a finding"""


_ENV = (MachineryError, OSError, MemoryError, ImportError, RecursionError, KeyboardInterrupt)


def _site_of(ex):
    from ..main import raised_by_code_under_test
    return raised_by_code_under_test(ex)


def under_test(fn, *a, **k):
    try:
        return fn(*a, **k)
    except (UnderTestError, HarnessMisuse, NonIntegral):
        raise
    except _ENV:
        raise
    except Exception as ex:
        site = _site_of(ex)
        if site is None:
            raise HarnessMisuse(f"{type(ex).__name__}: {ex}"[:300]) from ex
        raise UnderTestError(ex, site) from ex


def setup(fn, *a, **k):
    """harness-side preparation: its own misuse of the API (TypeError / AttributeError raised in a harness frame) is a skip"""
    try:
        return fn(*a, **k)
    except (UnderTestError, HarnessMisuse, NonIntegral):
        raise
    except (TypeError, AttributeError) as ex:
        if _site_of(ex) is None:
            raise HarnessMisuse(f"{type(ex).__name__}: {ex}"[:300]) from ex
        raise


def private(name, fn):
    """value of a private detail, or None (recorded in SKIPPED) when a refactoring removed it"""
    try:
        return fn()
    except (AttributeError, TypeError, KeyError) as ex:
        if _site_of(ex) is None:
            SKIPPED[name] = f"{type(ex).__name__}: {ex}"[:200]
            return None
        raise


def note_skip(name, why):
    SKIPPED[name] = str(why)[:200]


def guarded(rep, key, detail, fn, *a, **k):
    """-> (True, value) or (False, None) after reporting `<key>:raises` (package) / recording a skip (harness)"""
    try:
        return True, under_test(fn, *a, **k)
    except UnderTestError as e:
        rep.violation(f"{key}:raises", dict(detail, error=str(e)[:400], raised_in=e.site))
        return False, None
    except HarnessMisuse as e:
        note_skip(key, e)
        return False, None


def jsable(v):
    """parsed TLA value / numpy / tuples -> JSON-able with a canonical order of sets"""
    if isinstance(v, dict):
        return {str(k): jsable(x) for k, x in v.items()}
    if isinstance(v, (set, frozenset)):
        return sorted((jsable(x) for x in v), key=lambda x: json.dumps(x, sort_keys=True))
    if isinstance(v, (tuple, list)):
        return [jsable(x) for x in v]
    if isinstance(v, np.ndarray):
        return jsable(v.tolist())
    if isinstance(v, complex):
        return [v.real, v.imag]
    if isinstance(v, (np.integer,)):
        return int(v)
    if isinstance(v, (np.floating,)):
        return float(v)
    return v


def stable_key(obj):
    return json.dumps(jsable(obj), sort_keys=True)


def stable_hash(obj):
    return int(hashlib.md5(stable_key(obj).encode()).hexdigest()[:12], 16)


def variant_of(obj, flat=True):
    """deterministic choice of the lattice / periodicity / naming variant of a case (independent of TLC's dump order)"""
    h = stable_hash(obj)
    return dict(lattice=LAT_SKEW if h & 1 else LAT_ID, periodic=(True, True, False) if (flat and (h >> 1) & 1) else (True, True, True),
                names=bool((h >> 2) & 1), h=h >> 3)


# ------------------------------------------------------------------ TLA values -> abstract systems
def tla_mat(M):
    return np.array([[complex(g[0], g[1]) for g in row] for row in M], dtype=complex)


# ranks of the named real-space matrices as the specification has them (SysAlg!RankOf); checked against the code by known_matrices()
SPEC_RANKS = {"Ham": 0, "AA": 1, "BB": 1, "CC": 1, "SS": 1, "SH": 1, "OO": 1, "SHA": 2, "SA": 2, "SR": 2, "SHR": 2, "GG": 2, "FF": 2}
SPEC_NAMES = ("BB", "CC", "SS", "SH", "OO", "SHA", "SA", "SR", "SHR", "GG", "FF")     # SysAlg!AllNames ('Ham' and 'AA' are H and X)
_KNOWN = {}


def known_matrices():
    """names -> Cartesian rank of every real-space matrix the package knows, enumerated from the code (NeededData with every
    option switched on, ranks from num_cart_dim); guarded: falls back on the specification's table"""
    if _KNOWN:
        return _KNOWN

    def from_code():
        from wannierberri.system.needed_data import NeededData
        from wannierberri.system.system import num_cart_dim
        names = set(NeededData(berry=True, morb=True, spin=True, SHCryoo=True, SHCqiao=True, OSD=True, qmetric=True, FF=True,
                               keepOOGG=True, OOGG_to_FF=True).matrices)
        return {n: int(num_cart_dim(n)) for n in names}
    try:
        code = from_code()
    except Exception as ex:                                      # private helpers of the package: gone -> the specification's table
        SKIPPED["known_matrices"] = f"{type(ex).__name__}: {ex}"[:200]
        code = dict(SPEC_RANKS)
    for n, r in code.items():
        if n not in SPEC_RANKS:
            SKIPPED[f"matrix_not_modelled:{n}"] = f"the package knows the real-space matrix {n} (rank {r}) that SysAlg!AllNames lacks"
        elif SPEC_RANKS[n] != r:
            SKIPPED[f"matrix_rank:{n}"] = f"rank {r} in the package, {SPEC_RANKS[n]} in SysAlg!RankOf"
    _KNOWN.update({n: r for n, r in code.items() if SPEC_RANKS.get(n) == r})
    for n in ("Ham", "AA"):
        _KNOWN.setdefault(n, SPEC_RANKS[n])
    return _KNOWN


def named_names():
    """the names besides Ham / AA that both the package and the specification know, in the order of SysAlg!AllNames"""
    k = known_matrices()
    return [n for n in SPEC_NAMES if n in k]


def _parse_M(d):
    M = d.get("M")
    if not isinstance(M, dict):
        return {}
    return {str(n): {tuple(R): [tla_mat(c) for c in comps] for R, comps in per.items()} for n, per in M.items()}


def sys_from_tla(d):
    rs = sorted(tuple(R) for R in d["rs"])
    return dict(nw=d["nw"], cen=np.array(d["cen"], dtype=int).reshape(d["nw"], 3), rs=rs,
                H={R: tla_mat(d["H"][R]) for R in rs}, hasX=bool(d["hasX"]),
                X={R: tla_mat(d["X"][R]) for R in rs}, spinor=bool(d["spinor"]), M=_parse_M(d))


def named_json(a, names):
    """mats[i][r][c] for the record modules (order of names, of a['rs'], Cartesian components in C order)"""
    return [[[mat_json(c) for c in a["M"][n][R]] for R in a["rs"]] for n in names]


def soc_from_tla(d):
    nw = d["up"]["nw"]
    rsS = sorted(tuple(R) for R in d["rsS"])
    D = {st: {R: np.array([[[complex(g[0], g[1]) for g in d["D"][st][R][m][n]] for n in range(nw)] for m in range(nw)], dtype=complex)
              for R in rsS} for st in ("00", "11", "01")}
    P = np.array([tla_mat(d["P"][c]) for c in range(3)])          # P[c, s, t]
    return dict(up=sys_from_tla(d["up"]), dn=sys_from_tla(d["dn"]), hassoc=bool(d["hassoc"]), rsS=rsS, D=D, P=P, al=d["al"])


def gauss(z):
    return [int(round(z.real)), int(round(z.imag))]


def mat_json(M):
    return [[gauss(x) for x in row] for row in M]


def sys_json(a):
    return dict(nw=int(a["nw"]), cen=[[int(x) for x in c] for c in a["cen"]], rs=[list(R) for R in a["rs"]],
                H=[mat_json(a["H"][R]) for R in a["rs"]], hasX=bool(a["hasX"]),
                X=[mat_json(a["X"][R]) for R in a["rs"]], spinor=bool(a["spinor"]))


def soc_json(s):
    return dict(up=sys_json(s["up"]), dn=sys_json(s["dn"]), hassoc=bool(s["hassoc"]), rsS=[list(R) for R in s["rsS"]],
                D={st: [[[[gauss(x) for x in s["D"][st][R][m][n]] for n in range(s["up"]["nw"])] for m in range(s["up"]["nw"])]
                        for R in s["rsS"]] for st in ("00", "11", "01")},
                P=[mat_json(s["P"][c]) for c in range(3)], al=int(s["al"]))


# ------------------------------------------------------------------ abstract -> real
def build(a, periodic=(True, True, True), lattice=None):
    """real System_R through the public constructor from_sparse (every stored R-vector is passed, also with zero matrices)"""
    from wannierberri.system.system_R import System_R
    nw = a["nw"]
    lattice = LAT_ID if lattice is None else np.array(lattice, dtype=float)
    ham = {R: {(i, j): complex(a["H"][R][i, j]) for i in range(nw) for j in range(nw)} for R in a["rs"]}
    mats = {"Ham": ham}
    if a["hasX"]:
        mats["AA"] = {R: {(i, j): a["X"][R][i, j] * V3 for i in range(nw) for j in range(nw)} for R in a["rs"]}
    for name, per in (a.get("M") or {}).items():              # the other named matrices: tensors of rank SPEC_RANKS[name] per orbital pair
        cs = (3,) * SPEC_RANKS[name]
        mats[name] = {R: {(i, j): np.array([c[i, j] for c in per[R]], dtype=complex).reshape(cs) for i in range(nw) for j in range(nw)}
                      for R in a["rs"]}
    with quiet(), warnings.catch_warnings():
        warnings.simplefilter("ignore")
        s = System_R.from_sparse(lattice.copy(), wannier_centers_red=np.array(a["cen"], dtype=float) / CU, matrices=mats)
        s.periodic = np.array(periodic)
        s.set_pointgroup([])
    return s


def shuffle_R(s, perm=None):
    """the same system with its R-vectors stored in another order (default: reversed): two systems on the same SET of R-vectors need
    not store them in the same order. Harness-side (Rvectors constructor as in get_system_sparse); a skip when that is gone"""
    def do():
        from wannierberri.fourier.rvectors import Rvectors
        ir = np.array(s.rvec.iRvec)
        pm = list(range(len(ir)))[::-1] if perm is None else list(perm)
        if len(pm) < 2:
            return False
        for key in sorted(set(KNOWN_KEYS) | set(known_matrices())):
            if s.has_R_mat(key):
                s.set_R_mat(key, np.array(s.get_R_mat(key))[pm], reset=True)
        s.rvec = Rvectors(lattice=s.real_lattice, iRvec=ir[pm], shifts_left_red=s.wannier_centers_red)
        return True
    return bool(private("shuffle_R", do))


def _round_int(x, what, scale=1.0):
    y = np.asarray(x) * scale
    r = np.round(y)
    if y.size and np.max(np.abs(y - r)) > TOL_INT:
        raise NonIntegral(f"non-integral projection of {what}: max deviation {np.max(np.abs(y - r)):.3e}")
    return r


def _round_gauss(x, what, scale=1.0):
    y = np.asarray(x, dtype=complex) * scale
    r = np.round(y.real) + 1j * np.round(y.imag)
    if y.size and np.max(np.abs(y - r)) > TOL_INT:
        raise NonIntegral(f"non-integral projection of {what}: max deviation {np.max(np.abs(y - r)):.3e}")
    return r


def project(s, scale=1.0):
    """real System_R -> abstract system (exact: rounded, integrality verified). Also returns the views of the centres the
    code keeps besides wannier_centers_cart: the public cached wannier_centers_red and (private) the shifts of rvec"""
    nw = int(s.num_wann)
    inv = np.linalg.inv(s.real_lattice)
    cen = _round_int(s.wannier_centers_cart @ inv, "wannier_centers_cart", CU).astype(int)
    rs = [tuple(int(x) for x in R) for R in s.rvec.iRvec]
    if len(set(rs)) != len(rs):
        raise MachineryError("duplicate R-vectors in a real system")
    ham = _round_gauss(s.get_R_mat("Ham"), "Ham", scale)
    a = dict(nw=nw, cen=cen, rs=sorted(rs), H={R: ham[i] for i, R in enumerate(rs)}, hasX=s.has_R_mat("AA"), X={},
             spinor=bool(s.spinor), spinor_raw=s.spinor)
    if a["hasX"]:
        aa = s.get_R_mat("AA")
        x = _round_gauss(aa[..., 0] / V3[0], "AA", scale)
        if np.max(np.abs(aa * scale - x[..., None] * V3)) > TOL_INT:
            raise NonIntegral("AA is not X (x) V3")
        a["X"] = {R: x[i] for i, R in enumerate(rs)}
    else:
        a["X"] = {R: np.zeros((nw, nw), dtype=complex) for R in rs}
    a["M"] = {}
    for name in named_names():                                 # every other real-space matrix the system carries, by its public name
        if s.has_R_mat(name):
            x = _round_gauss(s.get_R_mat(name), name, scale)
            if x.shape != (len(rs), nw, nw) + (3,) * SPEC_RANKS[name]:
                raise NonIntegral(f"{name} has the shape {x.shape}")
            a["M"][name] = {R: [x[i].reshape(nw, nw, -1)[:, :, c] for c in range(3 ** SPEC_RANKS[name])] for i, R in enumerate(rs)}
    views = {}
    for name, getter in (("cen_red", lambda: s.wannier_centers_red), ("shifts_left", lambda: s.rvec.shifts_left_red),
                         ("shifts_right", lambda: s.rvec.shifts_right_red)):
        v = private("view:" + name, getter)
        if v is not None:
            views[name] = _round_int(v, name, CU).astype(int)
    return a, views


def _ext(F, rs, R, nw):
    return F[R] if R in rs else np.zeros((nw, nw), dtype=complex)


def diff_sys(exp, got, centres=True, mod_cell=False):
    """list of differences between two abstract systems (exact), compared as functions of R continued by zero: the set of
    stored R-vectors is an internal representation. mod_cell: centres compared modulo lattice vectors"""
    d = []
    if exp["nw"] != got["nw"]:
        return [f"nw {exp['nw']} != {got['nw']}"]
    if centres:
        dc = np.asarray(exp["cen"]) - np.asarray(got["cen"])
        if (np.any(dc % CU) if mod_cell else np.any(dc)):
            d.append(f"centres expected {np.asarray(exp['cen']).tolist()} got {np.asarray(got['cen']).tolist()}")
    nw = exp["nw"]
    es, gs = set(exp["rs"]), set(got["rs"])
    for R in sorted(es | gs):
        e, g = _ext(exp["H"], es, R, nw), _ext(got["H"], gs, R, nw)
        if not np.array_equal(e, g):
            d.append(f"Ham({R}) expected {e.tolist()} got {g.tolist()}")
    em, gm = exp.get("M") or {}, got.get("M") or {}
    if not set(em) <= set(gm):                                 # (matrices the specification does not track for this case, e.g. SS, are not compared)
        d.append(f"named matrices: expected {sorted(em)} got {sorted(gm)}")
    for name in sorted(set(em) & set(gm)):
        for R in sorted(es | gs):
            for c in range(3 ** SPEC_RANKS[name]):
                e = em[name][R][c] if R in es else np.zeros((nw, nw))
                g = gm[name][R][c] if R in gs else np.zeros((nw, nw))
                if not np.array_equal(e, g):
                    d.append(f"{name}({R}) Cartesian component {c}: expected {np.asarray(e).tolist()} got {np.asarray(g).tolist()}")
                    break
    if exp["hasX"] != got["hasX"]:
        d.append(f"second matrix present: expected {exp['hasX']} got {got['hasX']}")
    elif exp["hasX"]:
        for R in sorted(es | gs):
            e, g = _ext(exp["X"], es, R, nw), _ext(got["X"], gs, R, nw)
            if not np.array_equal(e, g):
                d.append(f"AA({R}) expected {e.tolist()} got {g.tolist()}")
    return d


def diff_views(cen, views, only=None):
    d = []
    for k, v in views.items():
        if only is not None and k not in only:
            continue
        if v.shape != cen.shape or not np.array_equal(v, cen):
            d.append(f"{k} = {v.tolist()} differs from the centres {cen.tolist()}")
    return d


def permute_sys(a, q):
    """abstract system with new index i = old index q[i]"""
    q = list(q)
    ix = np.ix_(q, q)
    return dict(a, cen=np.asarray(a["cen"])[q], H={R: a["H"][R][ix] for R in a["rs"]}, X={R: a["X"][R][ix] for R in a["rs"]},
                M={n: {R: [c[ix] for c in per[R]] for R in a["rs"]} for n, per in (a.get("M") or {}).items()})


# ------------------------------------------------------------------ observation on the real code
def data_k_list(system, klist4, **kw):
    """data_K object of the system's class on an explicit list of k-points (quarters)"""
    import wannierberri as wb
    from wannierberri.data_K import get_data_k_class_from_system
    with quiet(), warnings.catch_warnings():
        warnings.simplefilter("ignore")
        grid = wb.Grid(system=system, NKdiv=1, NKFFT=1)
        cls = get_data_k_class_from_system(system)
        return cls(system, dK=None, grid=grid, k_list=np.array(klist4, dtype=float) / 4.0, **kw)


def real_hk(system, klist4):
    return np.array(data_k_list(system, klist4).HH_K)


def real_hk_ek(system, klist4):
    d = data_k_list(system, klist4)
    return np.array(d.HH_K), np.array(d.E_K)


def real_ek(system, klist4):
    return np.array(data_k_list(system, klist4).E_K)


def real_dhk(system, klist4):
    """CU * derivative of H(k) in the Wannier gauge with respect to the *reduced* k components, (nk, nw, nw, 3); the code's
    Cartesian derivative is contracted with the lattice. Private path (rvec.R_to_k, Ham_R): None when it is gone"""
    d = data_k_list(system, klist4)
    dcart = private("real_dhk", lambda: d.rvec.R_to_k(d.Ham_R.copy(), der=1, hermitian=True))
    if dcart is None:
        return None
    return CU * np.asarray(dcart) @ np.linalg.inv(np.asarray(system.real_lattice))


def abs_hk(a, k4):
    h = np.zeros((a["nw"], a["nw"]), dtype=complex)
    for R in a["rs"]:
        h += a["H"][R] * (1j) ** (int(np.dot(R, k4)) % 4)
    return h


def abs_dhk(a, k4):
    out = np.zeros((a["nw"], a["nw"], 3), dtype=complex)
    for R in a["rs"]:
        ph = (1j) ** (int(np.dot(R, k4)) % 4)
        for c in range(3):
            fac = CU * R[c] + a["cen"][None, :, c] - a["cen"][:, None, c]
            out[:, :, c] += 1j * fac * a["H"][R] * ph
    return out


def esym(eigs):
    """coefficients c_1..c_n of prod (x - e_i) = x^n + c_1 x^(n-1) + ..."""
    return np.poly(np.asarray(eigs, dtype=float))[1:]


def cp_ints(eigs, what):
    """characteristic-polynomial coefficients of a spectrum, rounded to integers (integrality verified, scaled tolerance)"""
    c = esym(eigs)
    r = np.round(c)
    tol = 1e-7 * max(1.0, float(np.max(np.abs(c))))
    if np.max(np.abs(c - r)) > tol:
        raise NonIntegral(f"non-integral characteristic polynomial of {what}: {c.tolist()}")
    return [int(x) for x in r]


# ------------------------------------------------------------------ operations on real objects
def op_rotate(s, U):
    """X'(R) = U^dagger X(R) U for every real-space matrix (what a user does to change the basis); public API only"""
    Ud = U.conj().T
    for key in sorted(set(KNOWN_KEYS) | set(known_matrices())):
        if not s.has_R_mat(key):
            continue
        X = s.get_R_mat(key)
        new = np.einsum("ab,rbc...,cd->rad...", Ud, X, U)
        s.set_R_mat(key, new, reset=True)
    return s


def spin_pairs_of(ss0, tol=1e-12):
    """pairs (up, down) read from SS(R=0)[:, :, c] as written by set_spin_pairs; None when SS is not such a pairing"""
    n = ss0.shape[0]
    sx, sy, sz = ss0[:, :, 0], ss0[:, :, 1], ss0[:, :, 2]
    pairs, used = [], set()
    for i in range(n):
        if abs(sz[i, i] - 1) < tol:
            js = [j for j in range(n) if j != i and abs(sx[i, j] - 1) < tol]
            if len(js) != 1:
                return None
            pairs.append((i, js[0]))
            used.update((i, js[0]))
    if len(used) != n or len(pairs) * 2 != n:
        return None
    exp = np.zeros_like(ss0)
    pa = np.array([[[0, 1], [1, 0]], [[0, -1j], [1j, 0]], [[1, 0], [0, -1]]])
    for i, j in pairs:
        for c in range(3):
            exp[i, i, c], exp[i, j, c], exp[j, i, c], exp[j, j, c] = pa[c, 0, 0], pa[c, 0, 1], pa[c, 1, 0], pa[c, 1, 1]
    if np.max(np.abs(exp - ss0)) > tol:
        return None
    return sorted(pairs)


def make_soc(up, dn=None):
    """SystemSOC(up, dn) (nspin = 2) or SystemSOC(up) (nspin = 1). The constructor is the call under test of MakeSOC"""
    from wannierberri.system.system_soc import SystemSOC
    with quiet(), warnings.catch_warnings():
        warnings.simplefilter("ignore")
        soc = under_test(SystemSOC, up, dn) if dn is not None else under_test(SystemSOC, up)
        soc._NKFFT_recommended = np.array([3, 3, 3])           # private: a SystemSOC without SOC terms has no rvec to derive it from
        soc.set_pointgroup()
    return soc


def set_soc(soc, a, m=None, n=None, nspin=2, degrees=False, overlap=None, theta=None, phi=None, alpha=None):
    """the SOC real-space matrices are put directly (exact small integers; private keys, there is no public way without
    ab-initio files), then the public set_soc_axis (the call under test). Returns what set_soc_axis returns: (Ham_SOC, SS)"""
    from wannierberri.fourier.rvectors import Rvectors
    nw = a["up"]["nw"]
    rsS = a["rsS"]
    with quiet(), warnings.catch_warnings():
        warnings.simplefilter("ignore")
        soc.rvec = Rvectors(lattice=soc.real_lattice, iRvec=np.array(rsS, dtype=int), shifts_left_red=soc.wannier_centers_red)
        keys = (("00", "dV_soc_wann_0_0"), ("11", "dV_soc_wann_1_1"), ("01", "dV_soc_wann_0_1")) if nspin == 2 else (("00", "dV_soc_wann_0_0"),)
        for st, key in keys:
            soc.set_R_mat(key, np.array([a["D"][st][R] for R in rsS], dtype=complex), reset=True)
        if nspin == 2:
            if overlap is None:
                ov = np.zeros((len(rsS), nw, nw), dtype=complex)
                ov[rsS.index((0, 0, 0))] = np.eye(nw)
            else:
                ov = np.array([overlap[R] for R in rsS], dtype=complex)
            soc.set_R_mat("overlap_up_down", ov, reset=True)
        soc.has_soc = True
        al = float(a["al"]) if alpha is None else float(alpha)
        if theta is None:
            theta, phi = (90.0 * m, 90.0 * n) if degrees else (m * np.pi / 2, n * np.pi / 2)
        elif degrees:
            theta, phi = np.rad2deg(theta), np.rad2deg(phi)
        if degrees:
            ret = under_test(soc.set_soc_axis, theta=theta, phi=phi, alpha_soc=al, units="degrees")
        else:
            ret = under_test(soc.set_soc_axis, theta=theta, phi=phi, alpha_soc=al)
    try:
        ham_soc, ss = ret
    except (TypeError, ValueError):
        ham_soc = private("Ham_SOC", lambda: soc.get_R_mat("Ham_SOC"))
        ss = private("SS", lambda: soc.get_R_mat("SS"))
    return (None if ham_soc is None else np.array(ham_soc)), (None if ss is None else np.array(ss))


def code_pauli(m=None, n=None, theta=None, phi=None):
    """SOC.get_pauli_rotated of the code as P[c, s, t]"""
    from wannierberri.w90files.soc import SOC
    if theta is None:
        theta, phi = m * np.pi / 2, n * np.pi / 2
    P = under_test(SOC.get_pauli_rotated, theta=theta, phi=phi)
    return np.transpose(np.asarray(P), (2, 0, 1))


LEVI = np.zeros((3, 3, 3))
LEVI[0, 1, 2] = LEVI[1, 2, 0] = LEVI[2, 0, 1] = 1
LEVI[0, 2, 1] = LEVI[2, 1, 0] = LEVI[1, 0, 2] = -1


def pauli_defect(P, axis):
    """max deviation of P[c, s, t] from: Hermitian, traceless, Pauli algebra, spin along the axis = diag(1, -1)"""
    dev = float(np.max(np.abs(np.einsum("cst,c->st", P, np.asarray(axis, dtype=float)) - np.diag([1.0, -1.0]))))
    for a in range(3):
        dev = max(dev, float(np.max(np.abs(P[a] - P[a].conj().T))), float(abs(np.trace(P[a]))))
        for b in range(3):
            rhs = (a == b) * np.eye(2) + 1j * np.einsum("c,cst->st", LEVI[a, b], P)
            dev = max(dev, float(np.max(np.abs(P[a] @ P[b] - rhs))))
    return dev


def abs_ham_soc(a):
    """Ham_SOC of the abstract SOC system (transcription of SysAlg!HamSOC; used for records and when the code's rotated
    Pauli matrices are a different valid choice than the specification's)"""
    nw = a["up"]["nw"]
    out = {}
    for R in a["rsS"]:
        mR = tuple(-x for x in R)
        M = np.zeros((2 * nw, 2 * nw), dtype=complex)
        for m in range(nw):
            for n in range(nw):
                for s in (0, 1):
                    for t in (0, 1):
                        if (s, t) == (0, 0):
                            d = a["D"]["00"][R][m][n]
                        elif (s, t) == (1, 1):
                            d = a["D"]["11"][R][m][n]
                        elif (s, t) == (0, 1):
                            d = a["D"]["01"][R][m][n]
                        else:
                            d = np.conj(a["D"]["01"][mR][n][m])
                        M[2 * m + s, 2 * n + t] = a["al"] * np.dot(d, a["P"][:, s, t])
        out[R] = M
    return out


def abs_hk_soc(a, k4):
    """H(k) of the abstract SOC system (transcription of SysAlg!HkSOC)"""
    nw = a["up"]["nw"]
    h = np.zeros((2 * nw, 2 * nw), dtype=complex)
    h[::2, ::2] = abs_hk(a["up"], k4)
    h[1::2, 1::2] = abs_hk(a["dn"], k4)
    if a["hassoc"]:
        hs = abs_ham_soc(a)
        for R in a["rsS"]:
            h += hs[R] * (1j) ** (int(np.dot(R, k4)) % 4)
    return h


def nspin1_D(D):
    """the three blocks of a SystemSOC with one spin channel: all taken from dV_soc_wann_0_0 (SysAlg!Nspin1D)"""
    return {"00": D["00"], "11": D["00"], "01": D["00"]}


def project_float(s):
    """real System_R -> abstract-like system without rounding (centres in twelfths as floats); for numeric sub-checks"""
    nw = int(s.num_wann)
    cen = np.asarray(s.wannier_centers_cart) @ np.linalg.inv(s.real_lattice) * CU
    rs = [tuple(int(x) for x in R) for R in s.rvec.iRvec]
    ham = np.asarray(s.get_R_mat("Ham"))
    return dict(nw=nw, cen=cen, rs=sorted(rs), H={R: ham[i] for i, R in enumerate(rs)}, hasX=False,
                X={R: np.zeros((nw, nw), dtype=complex) for R in rs}, spinor=bool(s.spinor))


def shifts_consistent(s, ks4, tol=1e-8, periodic=(True, True, True)):
    """max deviation between the Wannier-gauge derivative of H(k) of `s` and of a system freshly built from the matrices and
    centres of `s` (None when the derivative is not reachable)"""
    dh = real_dhk(s, ks4)
    if dh is None:
        return None
    fresh = build(project_float(s), periodic=periodic, lattice=s.real_lattice)
    dh2 = real_dhk(fresh, ks4)
    if dh2 is None:
        return None
    return float(np.max(np.abs(dh - dh2)))
