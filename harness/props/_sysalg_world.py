"""Binding between the abstract systems of spec/SysAlg.tla and real wannierberri objects (helper of props/sysalg.py).

abstract system (Python side): dict(nw, cen = int array (nw, 3) in twelfths, rs = sorted list of R tuples,
H = {R: complex ndarray (nw, nw)}, hasX, X = {R: ndarray}, spinor)
"""
import warnings
import numpy as np

from ..common import quiet, MachineryError

CU = 12
V3 = np.array([1.0, 2.0, -1.0])      # the second matrix X of the specification is bound to AA(R)[a, b, :] = X(R)[a, b] * V3
TOL_INT = 1e-9                       # integrality of projections (observed deviations ~1e-16)


class NonIntegral(Exception):
    pass


# ------------------------------------------------------------------ TLA values -> abstract systems
def tla_mat(M):
    return np.array([[complex(g[0], g[1]) for g in row] for row in M], dtype=complex)


def sys_from_tla(d):
    rs = sorted(tuple(R) for R in d["rs"])
    return dict(nw=d["nw"], cen=np.array(d["cen"], dtype=int).reshape(d["nw"], 3), rs=rs,
                H={R: tla_mat(d["H"][R]) for R in rs}, hasX=bool(d["hasX"]),
                X={R: tla_mat(d["X"][R]) for R in rs}, spinor=bool(d["spinor"]))


def soc_from_tla(d):
    nw = d["up"]["nw"]
    rsS = sorted(tuple(R) for R in d["rsS"])
    D = {st: {R: np.array([[[complex(g[0], g[1]) for g in d["D"][st][R][m][n]] for n in range(nw)] for m in range(nw)], dtype=complex)
              for R in rsS} for st in ("00", "11", "01")}
    P = np.array([tla_mat(d["P"][c]) for c in range(3)])          # P[c, s, t]
    return dict(up=sys_from_tla(d["up"]), dn=sys_from_tla(d["dn"]), hassoc=bool(d["hassoc"]), rsS=rsS, D=D, P=P, al=d["al"])


def gauss(z):
    return [int(round(z.real)), int(round(z.imag))]


def mat_json(M):
    return [[gauss(x) for x in row] for row in M]


def sys_json(a):
    return dict(nw=int(a["nw"]), cen=[[int(x) for x in c] for c in a["cen"]], rs=[list(R) for R in a["rs"]],
                H=[mat_json(a["H"][R]) for R in a["rs"]], hasX=bool(a["hasX"]),
                X=[mat_json(a["X"][R]) for R in a["rs"]], spinor=bool(a["spinor"]))


def soc_json(s):
    return dict(up=sys_json(s["up"]), dn=sys_json(s["dn"]), hassoc=bool(s["hassoc"]), rsS=[list(R) for R in s["rsS"]],
                D={st: [[[[gauss(x) for x in s["D"][st][R][m][n]] for n in range(s["up"]["nw"])] for m in range(s["up"]["nw"])]
                        for R in s["rsS"]] for st in ("00", "11", "01")},
                P=[mat_json(s["P"][c]) for c in range(3)], al=int(s["al"]))


# ------------------------------------------------------------------ abstract -> real
def build(a, periodic=(True, True, True)):
    """real System_R through the public constructor from_sparse (every stored R-vector is passed, also with zero matrices)"""
    from wannierberri.system.system_R import System_R
    nw = a["nw"]
    ham = {R: {(i, j): complex(a["H"][R][i, j]) for i in range(nw) for j in range(nw)} for R in a["rs"]}
    mats = {"Ham": ham}
    if a["hasX"]:
        mats["AA"] = {R: {(i, j): a["X"][R][i, j] * V3 for i in range(nw) for j in range(nw)} for R in a["rs"]}
    with quiet(), warnings.catch_warnings():
        warnings.simplefilter("ignore")
        s = System_R.from_sparse(np.eye(3), wannier_centers_red=np.array(a["cen"], dtype=float) / CU, matrices=mats)
        s.periodic = np.array(periodic)
        s.set_pointgroup([])
    return s


def _round_int(x, what, scale=1.0):
    y = np.asarray(x) * scale
    r = np.round(y)
    if y.size and np.max(np.abs(y - r)) > TOL_INT:
        raise NonIntegral(f"non-integral projection of {what}: max deviation {np.max(np.abs(y - r)):.3e}")
    return r


def _round_gauss(x, what, scale=1.0):
    y = np.asarray(x, dtype=complex) * scale
    r = np.round(y.real) + 1j * np.round(y.imag)
    if y.size and np.max(np.abs(y - r)) > TOL_INT:
        raise NonIntegral(f"non-integral projection of {what}: max deviation {np.max(np.abs(y - r)):.3e}")
    return r


def project(s, scale=1.0):
    """real System_R -> abstract system (exact: rounded, integrality verified). Also returns the three views of the centres
    that the code keeps: wannier_centers_cart, the cached wannier_centers_red and the shifts of rvec"""
    nw = int(s.num_wann)
    inv = np.linalg.inv(s.real_lattice)
    cen = _round_int(s.wannier_centers_cart @ inv, "wannier_centers_cart", CU).astype(int)
    rs = [tuple(int(x) for x in R) for R in s.rvec.iRvec]
    if len(set(rs)) != len(rs):
        raise MachineryError("duplicate R-vectors in a real system")
    ham = _round_gauss(s.get_R_mat("Ham"), "Ham", scale)
    a = dict(nw=nw, cen=cen, rs=sorted(rs), H={R: ham[i] for i, R in enumerate(rs)}, hasX=s.has_R_mat("AA"), X={},
             spinor=bool(s.spinor))
    if a["hasX"]:
        aa = s.get_R_mat("AA")
        x = _round_gauss(aa[..., 0] / V3[0], "AA", scale)
        if np.max(np.abs(aa * scale - x[..., None] * V3)) > TOL_INT:
            raise NonIntegral("AA is not X (x) V3")
        a["X"] = {R: x[i] for i, R in enumerate(rs)}
    else:
        a["X"] = {R: np.zeros((nw, nw), dtype=complex) for R in rs}
    views = dict(cen_red=_round_int(s.wannier_centers_red, "wannier_centers_red", CU).astype(int),
                 shifts_left=_round_int(s.rvec.shifts_left_red, "rvec.shifts_left_red", CU).astype(int),
                 shifts_right=_round_int(s.rvec.shifts_right_red, "rvec.shifts_right_red", CU).astype(int))
    return a, views


def diff_sys(exp, got, centres=True):
    """list of differences between two abstract systems (exact)"""
    d = []
    if exp["nw"] != got["nw"]:
        return [f"nw {exp['nw']} != {got['nw']}"]
    if centres and not np.array_equal(exp["cen"], got["cen"]):
        d.append(f"centres expected {exp['cen'].tolist()} got {got['cen'].tolist()}")
    if list(exp["rs"]) != list(got["rs"]):
        d.append(f"R-set expected {exp['rs']} got {got['rs']}")
        return d
    for R in exp["rs"]:
        if not np.array_equal(exp["H"][R], got["H"][R]):
            d.append(f"Ham({R}) expected {exp['H'][R].tolist()} got {got['H'][R].tolist()}")
    if exp["hasX"] != got["hasX"]:
        d.append(f"second matrix present: expected {exp['hasX']} got {got['hasX']}")
    elif exp["hasX"]:
        for R in exp["rs"]:
            if not np.array_equal(exp["X"][R], got["X"][R]):
                d.append(f"AA({R}) expected {exp['X'][R].tolist()} got {got['X'][R].tolist()}")
    return d


def diff_views(cen, views):
    d = []
    for k, v in views.items():
        if v.shape != cen.shape or not np.array_equal(v, cen):
            d.append(f"{k} = {v.tolist()} differs from the centres {cen.tolist()}")
    return d


# ------------------------------------------------------------------ observation on the real code
def data_k_list(system, klist4):
    """data_K object of the system's class on an explicit list of k-points (quarters)"""
    import wannierberri as wb
    from wannierberri.data_K import get_data_k_class_from_system
    with quiet(), warnings.catch_warnings():
        warnings.simplefilter("ignore")
        grid = wb.Grid(system=system, NKdiv=1, NKFFT=1)
        cls = get_data_k_class_from_system(system)
        return cls(system, dK=None, grid=grid, k_list=np.array(klist4, dtype=float) / 4.0)


def real_hk(system, klist4):
    return np.array(data_k_list(system, klist4).HH_K)


def real_dhk(system, klist4):
    """CU * d/dk_c of H(k) in the Wannier gauge, (nk, nw, nw, 3)"""
    d = data_k_list(system, klist4)
    return CU * d.rvec.R_to_k(d.Ham_R.copy(), der=1, hermitian=True)


def abs_hk(a, k4):
    h = np.zeros((a["nw"], a["nw"]), dtype=complex)
    for R in a["rs"]:
        h += a["H"][R] * (1j) ** (int(np.dot(R, k4)) % 4)
    return h


def abs_dhk(a, k4):
    out = np.zeros((a["nw"], a["nw"], 3), dtype=complex)
    for R in a["rs"]:
        ph = (1j) ** (int(np.dot(R, k4)) % 4)
        for c in range(3):
            fac = CU * R[c] + a["cen"][None, :, c] - a["cen"][:, None, c]
            out[:, :, c] += 1j * fac * a["H"][R] * ph
    return out


def esym(eigs):
    """coefficients c_1..c_n of prod (x - e_i) = x^n + c_1 x^(n-1) + ..."""
    return np.poly(np.asarray(eigs, dtype=float))[1:]


def cp_ints(eigs, what):
    """characteristic-polynomial coefficients of a spectrum, rounded to integers (integrality verified, scaled tolerance)"""
    c = esym(eigs)
    r = np.round(c)
    tol = 1e-7 * max(1.0, float(np.max(np.abs(c))))
    if np.max(np.abs(c - r)) > tol:
        raise NonIntegral(f"non-integral characteristic polynomial of {what}: {c.tolist()}")
    return [int(x) for x in r]


# ------------------------------------------------------------------ operations on real objects
def op_rotate(s, U):
    """X'(R) = U^dagger X(R) U for every real-space matrix (what a user does to change the basis)"""
    Ud = U.conj().T
    for key in list(s._XX_R.keys()):
        X = s.get_R_mat(key)
        new = np.einsum("ab,rbc...,cd->rad...", Ud, X, U)
        s.set_R_mat(key, new, reset=True)
    return s


def make_soc(up, dn):
    from wannierberri.system.system_soc import SystemSOC
    with quiet(), warnings.catch_warnings():
        warnings.simplefilter("ignore")
        soc = SystemSOC(up, dn)
        soc._NKFFT_recommended = np.array([3, 3, 3])
        soc.set_pointgroup()
    return soc


def set_soc(soc, a, m, n):
    """the SOC real-space matrices are put directly (exact small integers), then the public set_soc_axis"""
    from wannierberri.fourier.rvectors import Rvectors
    nw = a["up"]["nw"]
    rsS = a["rsS"]
    with quiet(), warnings.catch_warnings():
        warnings.simplefilter("ignore")
        soc.rvec = Rvectors(lattice=soc.real_lattice, iRvec=np.array(rsS, dtype=int), shifts_left_red=soc.wannier_centers_red)
        for st, key in (("00", "dV_soc_wann_0_0"), ("11", "dV_soc_wann_1_1"), ("01", "dV_soc_wann_0_1")):
            soc.set_R_mat(key, np.array([a["D"][st][R] for R in rsS], dtype=complex), reset=True)
        ov = np.zeros((len(rsS), nw, nw), dtype=complex)
        ov[rsS.index((0, 0, 0))] = np.eye(nw)
        soc.set_R_mat("overlap_up_down", ov, reset=True)
        soc.has_soc = True
        soc.set_soc_axis(theta=m * np.pi / 2, phi=n * np.pi / 2, alpha_soc=float(a["al"]))
    return soc


def abs_ham_soc(a):
    """Ham_SOC of the abstract SOC system (transcription of SysAlg!HamSOC, used for records only)"""
    nw = a["up"]["nw"]
    out = {}
    for R in a["rsS"]:
        mR = tuple(-x for x in R)
        M = np.zeros((2 * nw, 2 * nw), dtype=complex)
        for m in range(nw):
            for n in range(nw):
                for s in (0, 1):
                    for t in (0, 1):
                        if (s, t) == (0, 0):
                            d = a["D"]["00"][R][m][n]
                        elif (s, t) == (1, 1):
                            d = a["D"]["11"][R][m][n]
                        elif (s, t) == (0, 1):
                            d = a["D"]["01"][R][m][n]
                        else:
                            d = np.conj(a["D"]["01"][mR][n][m])
                        M[2 * m + s, 2 * n + t] = a["al"] * np.dot(d, a["P"][:, s, t])
        out[R] = M
    return out
