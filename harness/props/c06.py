"""C06: K-point weights partition the Brillouin zone for every grid and history.

spec  : KMesh.tla  A. groups on reduced k coordinates, Grid.get_K_list (MC_KMeshGroups, MC_KMeshGrid = the loops of the
                      code, MC_KMeshGridTab = function table for the replay)
                   B. one refinement step in 3-D: divide + exclude_equiv_points (MC_KMeshDivide), the loops of
                      exclude_equiv_points for every processing order (MC_KMeshExcl)
                   C. tetrahedral grids: starting sets, split_tetra_volume / split_tetra_size as a state machine,
                      KpointBZtetra.divide (MC_KMeshTetra)
bind  : spec -> code: TLC states replayed on the real PointGroup, Grid, KpointBZparallel.divide, exclude_equiv_points,
        GridTetra / GridTrigonal, split_tetra_*, KpointBZtetra.divide (exact integer comparison);
        code -> spec: seeded random calls of the same functions recorded and validated by TLC against KMeshRec.tla.
(the refinement histories of run() in 1-D / 2-D are covered by RunGrid.tla, harness/props/rungrid.py)
"""
import copy
import random
import concurrent.futures as cf
import numpy as np

from .. import tlc, ftable
from ..common import Report, MachineryError, seed
from . import kmesh_world as W

PROPS = {
    "C06": dict(level="model_checking",
                technique="TLC exhaustive on KMesh.tla (Grid.get_K_list as its loops vs declarative orbit reduction for a catalogue of 47 "
                          "(magnetic) point groups on cubic/tetragonal/orthorhombic/hexagonal lattices; divide + exclude_equiv_points in 3-D, the "
                          "exclusion loops for every processing order; GridTetra/GridTrigonal splitting as a state machine with exact integer "
                          "volumes and barycentric sign tests) + replay of TLC states on the real classes + TLC validation of recorded calls",
                text="TLC checks, for every group of the catalogue and every grid size inside the constants, that the stars partition the grid, the "
                     "retained weights are |star|/Ntot, non-negative and sum to one and that the images cover each grid point exactly once; for one "
                     "refinement step (adpt_mesh 2 and 3, also through non-periodic directions) that the sub-cells tile the refined cell, the total "
                     "weight is kept and merging of equivalent points is lossless for every processing order; for tetrahedral grids that the five "
                     "starting tetrahedra tile the cell (trigonal wedge: positive non-overlapping volumes, weights sum to one), that every split keeps "
                     "volume and weight with weight proportional to volume and children tiling the parent, and that the splitting loops terminate. "
                     "The enumerated states are executed on the real code and compared exactly (integer coordinates, integer weights); seeded random "
                     "calls are recorded and every clause of KMeshRec is evaluated on them by TLC.",
                note="weights are compared as integers after verified rounding (units 1/Ntot, 1/(Ntot*prod(ndiv)^L), 1/WT); thresholds of the tetrahedral "
                     "loops never coincide with an attained value (the loops do not terminate on equality); image tiling after a refinement step is "
                     "demanded for groups of signed permutation matrices only (DESIGN.md 7.2, report)",
                ref="DESIGN.md 3.2"),
}

S_T, M_T, WT_T = 48, 8, 6144          # tetrahedra: coordinate unit 1/48, samples 1/(48*8), weight unit 1/6144
GRID_INVS = ["NonNegative", "SumToOne", "Partition", "OrbitWeight", "ImagesCoverOnce"]
DIV_INVS = ["InitialWeight", "TotalWeightKept", "NonNegative", "ParentsDead", "SubcellsTile", "SubcellsWeight", "MergeKeepsWeight",
            "NoDuplicates", "NoMergeWithoutSymmetry", "ZoneTiled"]
EXCL_INVS = ["WellFormed", "LoopEqualsDeclarative", "WeightKept", "Lossless", "NewPointsUnique", "OldPointsStay"]
TET_INVS = ["Embedding", "Positive", "VolumeKept", "WeightKept", "WeightByVolume", "Tiling", "SplitsOK", "ThresholdsMet", "EqualsLoops", "NoStall"]


def tset(vals):
    return "{" + ", ".join(tlc.tla_value(v) for v in vals) + "}"


def invs(names):
    return "".join(f"INVARIANT {i}\n" for i in names)


def cfg_grid(nmax, loop):
    extra = ["EqualsDeclarative", "LoopConserves"] if loop else []
    return (f"SPECIFICATION Spec\nCONSTANTS\n  NMAX = {nmax}\n  Names <- AllNames\n  SymSet = {{TRUE, FALSE}}\n" +
            invs(GRID_INVS + extra) + "CHECK_DEADLOCK FALSE\n")


def cfg_divide(names, sizes, pers, ndivs, pairmax, tiling, full, corner):
    return ("SPECIFICATION Spec\nCONSTANTS\n" +
            (f"  Names = {tset(names)}\n" if names else "  Names <- AllNames\n") +
            f"  Sizes = {tset(sizes)}\n  PerSet = {tset(pers)}\n  NdivSet = {tset(ndivs)}\n  SymSet = {{TRUE, FALSE}}\n"
            f"  PairMaxPts = {pairmax}\n" +
            (f"  TilingNames = {tset(tiling)}\n" if tiling is not None else "  TilingNames <- BoxNames\n") +
            f"  FullSamples = {tlc.tla_value(full)}\n  CornerShift = {tlc.tla_value(corner)}\n" + invs(DIV_INVS) + "CHECK_DEADLOCK FALSE\n")


def cfg_excl(lenmax, nkinds, lose):
    return (f"SPECIFICATION Spec\nCONSTANTS\n  LenMax = {lenmax}\n  NKinds = {nkinds}\n  LoseWeight = {tlc.tla_value(lose)}\n" +
            invs(EXCL_INVS) + "CHECK_DEADLOCK FALSE\n")


def cfg_tetra(metrics, tvq, tsq, ns, keep, even=False, breakeq=False):
    return (f"SPECIFICATION Spec\nCONSTANTS\n  S = {S_T}\n  M = {M_T}\n  NS = {ns}\n  WT = {WT_T}\n  Metrics = {tset(metrics)}\n"
            f"  TVq = {tset(tvq)}\n  TSq = {tset(tsq)}\n  EvenThresholds = {tlc.tla_value(even)}\n  BreakOnEqual = {tlc.tla_value(breakeq)}\n"
            f"  KeepWeight = {tlc.tla_value(keep)}\n" + invs(TET_INVS) + "PROPERTY Termination\nCHECK_DEADLOCK FALSE\n")


def run_jobs(jobs, nworkers):
    """jobs: name -> (module, cfg, dump).  All TLC runs are independent: run them concurrently (small ones with 2 workers:
    TLC evaluates the constant definitions once per worker)."""
    res = {}

    def one(item):
        name, (module, cfg, dump) = item
        small = name.endswith("_v0") or name.endswith("_groups")
        st = tlc.run_tlc(module, cfg, name, workers=2 if small else nworkers, dump=dump, timeout=3000)
        if st.get("timeout"):
            raise MachineryError(f"TLC timed out on {name}")
        if st.get("error") and not st.get("violation"):
            raise MachineryError(f"TLC error on {name}: {st['error'][:600]}")
        return name, st
    with cf.ThreadPoolExecutor(max_workers=len(jobs)) as ex:
        for name, st in ex.map(one, jobs.items()):
            res[name] = st
    return res


def must_fail(rep, st, name, expected):
    if not st.get("violation") or st["violation"][1] not in expected:
        raise MachineryError(f"sensitivity self-test failed: {name} should violate one of {expected}, TLC says {st.get('violation')}")
    rep.part(name, sensitivity_violation=st["violation"][1], distinct=st["distinct"])


# ------------------------------------------------------------------------------------------------------------------
def bind_catalogue(rep, st):
    """every group of the specification's catalogue = the k-matrices of the real PointGroup built from the generator names"""
    n = 0
    for s in ftable.dump_states(st):
        n += 1
        grp = s["grp"]
        if grp not in W.GENS:
            raise MachineryError(f"group {grp} of KMesh.Catalogue has no generator names in kmesh_world.GENS")
        spec = set(tuple(tuple(r) for r in g) for g in s["G"])
        try:
            real = W.kmatrices(W.pointgroup(grp))
        except W.NonIntegral as ex:
            raise MachineryError(f"catalogue binding {grp}: {ex}")
        rep.case(("group", grp))
        if spec != real or s["lat"] != W.lat_of(grp):
            # the catalogue is part of the harness: a mismatch is not a finding about C06
            raise MachineryError(f"catalogue binding failed for {grp}: spec {len(spec)} matrices, PointGroup {len(real)}")
    if n != len(W.GENS):
        raise MachineryError(f"catalogue has {n} groups, kmesh_world.GENS {len(W.GENS)}")
    rep.part("catalogue_binding", groups=n)


def replay_grid(rep, st, rng, nrep):
    states = [s for s in ftable.dump_states(st) if s["pc"] == "done"]
    if 2 * len(states) != st["distinct"]:
        raise MachineryError(f"grid table: {len(states)} finished cases for {st['distinct']} states")
    bygrp = {}
    for s in states:
        bygrp.setdefault(s["grp"], []).append(s)
    chosen = []
    for g, lst in sorted(bygrp.items()):
        rng.shuffle(lst)
    # round-robin over the groups so that every group gets its share
    k = 0
    while len(chosen) < min(nrep, len(states)):
        for g in sorted(bygrp):
            if k < len(bygrp[g]):
                chosen.append(bygrp[g][k])
        k += 1
    counts = dict(accepted=0, rejected=0, reduced=0)
    for s in chosen[:nrep]:
        grp, n, sym = s["grp"], tuple(s["n"]), s["sym"]
        nkfft = rng.choice([1, 1, 2])
        grid, _ = W.make_grid(grp, n, nkfft)
        got_ok = grid != "AssertionError"
        exp = [(tuple(r["k"]), r["w"]) for r in s["out"]]
        rep.case(("grid", grp, n, sym), nontrivial=True)
        if got_ok != s["ok"]:
            rep.violation("Grid:grid_accepted_iff_symmetric", dict(group=grp, generators=W.GENS[grp], NKdiv=n, expected_accepted=s["ok"], got_accepted=got_ok))
            continue
        if not got_ok:
            counts["rejected"] += 1
            continue
        counts["accepted"] += 1
        try:
            _, got = W.klist_grid(grid, sym)
        except W.NonIntegral as ex:
            rep.violation("Grid.get_K_list:non-integral projection", dict(group=grp, NKdiv=n, use_symmetry=sym, error=str(ex)))
            continue
        if sym and len(exp) < n[0] * n[1] * n[2]:
            counts["reduced"] += 1
        if got != exp:
            rep.violation("Grid.get_K_list:" + ("symmetry" if sym else "full"),
                          dict(group=grp, generators=W.GENS[grp], lattice=W.LATTICES[W.lat_of(grp)].tolist(), NKdiv=n, NKFFT=nkfft,
                               use_symmetry=sym, unit="k = K*NKdiv, weight = factor*prod(NKdiv)", expected=exp, got=got))
        if len(rep.cov["samples"]) < 2 and sym and len(exp) > 2:
            rep.sample(dict(fn="Grid.get_K_list", group=grp, NKdiv=n, klist=exp[:6]))
    for k_, v in counts.items():
        if v == 0:
            raise MachineryError(f"grid replay: class '{k_}' never occurred")
    rep.part("replay_grid", **counts)


def refine_real(grp, n, per, ndiv, sym, order):
    """the refinement step of run() on the real classes; returns (projection of the initial list, of the final list)"""
    from wannierberri.grid.Kpoint import exclude_equiv_points
    nd = tuple(ndiv if p else 1 for p in per)
    geo = W.FineGeo(n, nd, 1)
    grid, syst = W.make_grid(grp, n, 1, periodic=per)
    if grid == "AssertionError":
        raise MachineryError(f"refinement replay: Grid rejected {grp} {n}")
    kl, _ = W.klist_grid(grid, sym)
    p0 = geo.proj_list(kl)
    l1 = len(kl)
    with W.silent():
        for ik in order:
            kl += kl[ik - 1].divide(ndiv=np.array([ndiv] * 3), periodic=syst.periodic, use_symmetry=sym)
        if sym:
            exclude_equiv_points(kl, new_points=len(kl) - l1)
    return p0, geo.proj_list(kl)


def replay_divide(rep, st, rng, nrep):
    states = [s for s in ftable.dump_states(st) if s["pc"] == "done"]
    if not states:
        raise MachineryError("no finished refinement step in the dump")
    rng.shuffle(states)
    counts = dict(merged=0, two_parents=0, anisotropic=0, ndiv3=0, nosym=0)
    for s in states[:nrep]:
        grp, n, per, ndiv, sym, order = s["grp"], tuple(s["n"]), tuple(s["per"]), s["ndiv"], s["sym"], tuple(s["ord"])
        exp0, exp1 = W.spec_kl(s["kl0"]), W.spec_kl(s["kl1"])
        rep.case(("divide", grp, n, per, ndiv, sym, order))
        info = dict(group=grp, generators=W.GENS[grp], NKdiv=n, periodic=per, adpt_mesh=ndiv, use_symmetry=sym, refined_indices_1based=order,
                    unit="c = K * 2*NKdiv*ndiv (mod), weight = factor * prod(NKdiv)*prod(ndiv)")
        try:
            got0, got1 = refine_real(grp, n, per, ndiv, sym, order)
        except W.NonIntegral as ex:
            rep.violation("divide:non-integral projection", dict(info, error=str(ex)))
            continue
        if got0 != exp0:
            rep.violation("Grid.get_K_list:before_refinement", dict(info, expected=exp0, got=got0))
            continue
        if got1 != exp1:
            rep.violation("divide+exclude_equiv_points:" + ("symmetry" if sym else "plain"), dict(info, before=exp0, expected=exp1, got=got1))
        nch = sum((ndiv if p else 1) for p in per)
        nraw = len(exp0) + len(order) * int(np.prod([ndiv if p else 1 for p in per]))
        counts["merged"] += len(exp1) < nraw
        counts["two_parents"] += len(order) == 2
        counts["anisotropic"] += not all(per)
        counts["ndiv3"] += ndiv == 3
        counts["nosym"] += not sym
        if len(rep.cov["samples"]) < 4 and sym and len(exp1) < nraw:
            rep.sample(dict(fn="divide+exclude_equiv_points", **info, after=exp1[:8]))
    for k_, v in counts.items():
        if v == 0:
            raise MachineryError(f"refinement replay: class '{k_}' never occurred")
    rep.part("replay_divide", **{k_: int(v) for k_, v in counts.items()})


# ------------------------------------------------------------------------------------------------------------------
def real_tetra_grid(metric):
    """GridTetra / GridTrigonal with the starting set only"""
    from wannierberri.grid.grid_tetra import GridTetra, GridTrigonal
    syst = W.tetra_system(metric)
    if np.linalg.det(syst.recip_lattice) <= 0:
        raise MachineryError("tetra lattice must be right handed")
    cls = GridTrigonal if metric == "hex" else GridTetra
    with W.silent():
        g = cls(syst, length=1.0, NKFFT=1, refine_by_volume=False, refine_by_size=False)
    return g, syst


EDGES = ((0, 1), (0, 2), (0, 3), (1, 2), (1, 3), (2, 3))


def len2(v, a, b, G):
    d = np.array(v[b]) - np.array(v[a])
    return int(d @ G @ d)


def vmax_of(tv2):
    return tv2 / (12.0 * S_T ** 3)


def dkmax_of(ts2, f):
    return float(np.sqrt(ts2 / 2.0 * f)) / S_T


def lengths_separated(tets, metric):
    """the code calls two edges equal when their lengths differ by less than 1e-6: exact ties must be the only ones"""
    G = np.array(W.GRAMS[metric])
    f = W.gram_scale(metric, W.tetra_system(metric).recip_lattice)
    unit = np.sqrt(f) / S_T
    for v, *_ in tets:
        L2 = sorted(set(len2(v, a, b, G) for a, b in EDGES))
        for a, b in zip(L2[:-1], L2[1:]):
            if (np.sqrt(b) - np.sqrt(a)) * unit < 1e-4:
                return False
    return True


def replay_tetra(rep, st, rng, nsplit):
    runs = {}
    for s in ftable.dump_states(st):
        key = (s["metric"], s["tv2"], s["ts2"])
        r = runs.setdefault(key, dict(splits=[]))
        if s["phase"] == "volume" and s["nround"] == 0:
            r["start"] = W.spec_tets(s["kl"])
        if s["phase"] == "size" and len(s["hist"]) == 0:
            r["mid"] = W.spec_tets(s["kl"])
        if s["phase"] == "done":
            r["done"] = W.spec_tets(s["kl"])
        for h in s["hist"]:
            r["splits"].append((W.spec_tets([h["p"]])[0], W.spec_tets(h["ch"])))
    nruns = 0
    allsplits = []
    for (metric, tv2, ts2), r in sorted(runs.items()):
        if not all(k in r for k in ("start", "mid", "done")):
            raise MachineryError(f"tetra run {(metric, tv2, ts2)} incomplete in the dump")
        nruns += 1
        g, syst = real_tetra_grid(metric)
        f = W.gram_scale(metric, syst.recip_lattice)
        if not lengths_separated(r["done"] + r["mid"], metric):
            raise MachineryError("edge lengths not separated from the 1e-6 tie tolerance of the code")
        info = dict(metric=metric, real_lattice=W.METRICS[metric].tolist(), grid="GridTrigonal" if metric == "hex" else "GridTetra",
                    vmax=vmax_of(tv2), dkmax=dkmax_of(ts2, f), unit=f"vertices*{S_T}, factor*{WT_T}")
        rep.case(("tetra", metric, tv2, ts2))
        try:
            got = [W.tet_proj(K, S_T, WT_T) for K in g.K_list]
            if got != r["start"]:
                rep.violation("GridTetra:start" if metric != "hex" else "GridTrigonal:start", dict(info, expected=r["start"], got=got))
                continue
            with W.silent():
                g.split_tetra_volume(vmax_of(tv2))
            got = [W.tet_proj(K, S_T, WT_T) for K in g.K_list]
            if got != r["mid"]:
                rep.violation("GridTetra.split_tetra_volume", dict(info, expected=r["mid"][:12], got=got[:12], n_expected=len(r["mid"]), n_got=len(got)))
                continue
            with W.silent():
                g.split_tetra_size(dkmax_of(ts2, f))
            got = [W.tet_proj(K, S_T, WT_T) for K in g.K_list]
            if got != r["done"]:
                rep.violation("GridTetra.split_tetra_size", dict(info, expected=r["done"][:12], got=got[:12], n_expected=len(r["done"]), n_got=len(got)))
                continue
            got = [W.tet_proj(K, S_T, WT_T) for K in g.get_K_list()]
            if got != r["done"]:
                rep.violation("GridTetra.get_K_list", dict(info, expected=r["done"][:12], got=got[:12]))
            # the same through the constructor (length -> vmax, length_size -> dkmax)
            g2 = tetra_by_constructor(metric, tv2, ts2, f)
            got = [W.tet_proj(K, S_T, WT_T) for K in g2.K_list]
            if got != r["done"]:
                rep.violation("GridTetra.__init__", dict(info, expected=r["done"][:12], got=got[:12], n_expected=len(r["done"]), n_got=len(got)))
        except W.NonIntegral as ex:
            rep.violation("GridTetra:non-integral projection", dict(info, error=str(ex)))
        for sp in r["splits"]:
            allsplits.append((metric, syst, sp))
        if nruns == 1:
            rep.sample(dict(fn="GridTetra", **info, n_tetrahedra=len(r["done"]), first=r["done"][0]))
    if nruns == 0 or not allsplits:
        raise MachineryError("tetra replay: nothing to replay")
    rng.shuffle(allsplits)
    for metric, syst, (p, ch) in allsplits[:nsplit]:
        rep.case(("tsplit", metric, p))
        K = W.tet_make(p[0], p[1], p[2], p[3], S_T, WT_T, syst.recip_lattice)
        try:
            got = [W.tet_proj(c, S_T, WT_T) for c in K.divide(ndiv=2, refine=False)]
        except W.NonIntegral as ex:
            rep.violation("KpointBZtetra.divide:non-integral projection", dict(metric=metric, parent=p, error=str(ex)))
            continue
        if got != ch or K.factor != 0:
            rep.violation("KpointBZtetra.divide", dict(metric=metric, parent=p, expected=ch, got=got, parent_factor_after=K.factor))
    rep.part("replay_tetra", runs=nruns, splits=min(nsplit, len(allsplits)))


class Stalled(Exception):
    pass


def stall_probe(metric, which):
    """Runs the real split_tetra_size / split_tetra_volume with the threshold EXACTLY equal to the largest attained size /
    volume (read from the real objects, so the floats are identical).  The loops print once per iteration; the hook put in
    place of print raises when the K list was the same in 50 consecutive iterations (the loop is deterministic: it would
    never end).  Returns "stalls" or the list after a normal return."""
    from wannierberri.grid import grid_tetra as GT
    g, _ = real_tetra_grid(metric)
    seen = []

    def hook(*a, **k):
        seen.append(tuple(id(K) for K in g.K_list))
        if len(seen) > 100 and len(set(seen[-100:])) == 1:
            raise Stalled()
    GT.print = hook
    try:
        if which == "size":
            g.split_tetra_size(float(g.size_max))
        else:
            g.split_tetra_volume(float(max(GT.tetra_volume(K.vertices) for K in g.K_list)))
    except Stalled:
        return "stalls"
    finally:
        del GT.print
    return [W.tet_proj(K, S_T, WT_T) for K in g.K_list]


def constructor_stall_example():
    """the smallest natural example: cubic lattice a = 1, GridTetra(system, length = 2) (length_size = 1: dkmax equals the
    face diagonal of the reciprocal cell)"""
    from wannierberri.grid import grid_tetra as GT
    syst = W.StubSystem(None, real_lattice=np.eye(3))
    n = [0]

    def hook(*a, **k):
        n[0] += 1
        if n[0] > 2000:
            raise Stalled()
    GT.print = hook
    try:
        GT.GridTetra(syst, length=2.0, NKFFT=1)
    except Stalled:
        return True
    except Exception:
        return False
    finally:
        del GT.print
    return False


def tetra_by_constructor(metric, tv2, ts2, f, nkfft=1):
    from wannierberri.grid.grid_tetra import GridTetra, GridTrigonal
    syst = W.tetra_system(metric)
    det = np.linalg.det(syst.recip_lattice / nkfft)
    length = 2 * np.pi / (vmax_of(tv2) * det) ** (1.0 / 3.0)
    length_size = 2 * np.pi * np.sqrt(2) / dkmax_of(ts2, f)
    cls = GridTrigonal if metric == "hex" else GridTetra
    with W.silent():
        return cls(syst, length=length, NKFFT=nkfft, length_size=length_size)


# ------------------------------------------------------------------------------------------------------------------
def compatible(n, mats):
    return all((g[i][j] * n[j]) % n[i] == 0 for g in mats for i in range(3) for j in range(3))


def apply_mod(g, c, U):
    return tuple(sum(c[i] * ((g[i][j] * U[j]) // U[i]) for i in range(3)) % U[j] for j in range(3))


def pl(p):
    """(c, lev, fac) -> [c1, c2, c3, lev, fac]"""
    return list(p[0]) + [p[1], p[2]]


def record_calls(rep, rng, thorough):
    """seeded random calls of the real functions -> records"""
    from wannierberri.grid.Kpoint import exclude_equiv_points
    recs = []
    names = sorted(W.GENS)
    nmax = 6 if thorough else 5
    # ---- Grid.get_K_list
    for _ in range(160 if thorough else 40):
        grp = rng.choice(names)
        mats = W.kmatrices(W.pointgroup(grp))
        n = tuple(rng.randint(1, nmax) for _ in range(3))
        if rng.random() < 0.75 and not compatible(n, mats):
            n = (n[0], n[0], n[2]) if compatible((n[0], n[0], n[2]), mats) else (n[0],) * 3
        sym = rng.random() < 0.8
        grid, _ = W.make_grid(grp, n, rng.choice([1, 2]))
        ok = grid != "AssertionError"
        out = []
        if ok:
            _, got = W.klist_grid(grid, sym)
            out = [list(k) + [w] for k, w in got]
        recs.append(dict(fn="klist", grp=grp, n=list(n), sym=sym, ok=ok, out=out))
        rep.case(("rec-klist", grp, n, sym))
    # ---- KpointBZparallel.divide on random K-points (levels 0 and 1, anisotropic meshes)
    ndiv_n = 0
    while ndiv_n < (240 if thorough else 60):
        grp = rng.choice(names)
        pg = W.pointgroup(grp)
        mats = W.kmatrices(pg)
        per = rng.choice([(True, True, True)] * 3 + [(True, True, False), (True, False, False), (False, True, True)])
        n = tuple(rng.randint(1, 3) if p else 1 for p in per)
        ndiv = tuple(rng.choice([2, 2, 3, 1]) for _ in range(3))
        nd = tuple(d if p else 1 for d, p in zip(ndiv, per))
        L = rng.choice([1, 2])
        geo = W.FineGeo(n, nd, L)
        if not compatible(geo.U, mats) or not compatible(n, mats) or max(geo.U) > 120:
            continue
        sym = rng.random() < 0.75
        c0 = tuple(2 * nd[i] ** L * rng.randrange(n[i]) for i in range(3))
        fac0 = geo.W0 * rng.randint(1, 6)
        K = geo.make_point(c0, 0, fac0, pg)
        with W.silent():
            ch = K.divide(ndiv=np.array(ndiv), periodic=np.array(per), use_symmetry=sym)
        recs.append(dict(fn="divide", grp=grp, n=list(n), nd=list(nd), L=L, sym=sym, parent=list(c0) + [0, fac0],
                         out=[pl(p) for p in geo.proj_list(ch)]))
        # the parent is dead afterwards
        if K.factor != 0:
            rep.violation("KpointBZparallel.divide:parent_not_dead", dict(group=grp, factor=K.factor))
        ndiv_n += 1
        rep.case(("rec-divide", grp, n, nd, L, c0, sym))
        if L == 2:
            K1 = rng.choice(ch)
            p1 = geo.proj(K1)
            with W.silent():
                ch2 = K1.divide(ndiv=np.array(ndiv), periodic=np.array(per), use_symmetry=sym)
            recs.append(dict(fn="divide", grp=grp, n=list(n), nd=list(nd), L=L, sym=sym, parent=pl(p1), out=[pl(p) for p in geo.proj_list(ch2)]))
            ndiv_n += 1
            rep.case(("rec-divide2", grp, n, nd, p1, sym))
    # ---- exclude_equiv_points on random lists with forced equivalences, old and new points
    nex = 0
    while nex < (200 if thorough else 50):
        grp = rng.choice(names)
        pg = W.pointgroup(grp)
        mats = sorted(W.kmatrices(pg))
        n = tuple(rng.randint(1, 2) for _ in range(3))
        nd = (2, 2, 2)
        geo = W.FineGeo(n, nd, 1)
        if not compatible(geo.U, mats):
            n = (2, 2, 2)
            geo = W.FineGeo(n, nd, 1)
            if not compatible(geo.U, mats):
                continue

        def rand_points(m):
            pts = []
            while len(pts) < m:
                c = tuple(rng.randrange(u) for u in geo.U)
                lev = rng.choice([0, 1, 1])
                pts.append((c, lev))
                if rng.random() < 0.6:     # an image of the same point, same or other level
                    pts.append((apply_mod(rng.choice(mats), c, geo.U), lev if rng.random() < 0.8 else 1 - lev))
            rng.shuffle(pts)
            return pts[:m]
        old = [geo.make_point(c, lev, rng.randint(1, 9), pg) for c, lev in rand_points(rng.randint(0, 5))]
        inp0 = geo.proj_list(old)
        with W.silent():
            exclude_equiv_points(old)
        out0 = geo.proj_list(old)
        if inp0:
            recs.append(dict(fn="exclude", grp=grp, n=list(n), nd=list(nd), L=1, nold=0, inp=[pl(p) for p in inp0], out=[pl(p) for p in out0]))
            nex += 1
        new = [geo.make_point(c, lev, rng.randint(1, 9), pg) for c, lev in rand_points(rng.randint(1, 6))]
        if old and rng.random() < 0.7:      # a new point equivalent to an old one
            c, lev, _ = out0[rng.randrange(len(out0))]
            new.append(geo.make_point(apply_mod(rng.choice(mats), c, geo.U), lev, rng.randint(1, 9), pg))
        lst = old + new
        inp = geo.proj_list(lst)
        with W.silent():
            exclude_equiv_points(lst, new_points=len(new))
        recs.append(dict(fn="exclude", grp=grp, n=list(n), nd=list(nd), L=1, nold=len(old), inp=[pl(p) for p in inp], out=[pl(p) for p in geo.proj_list(lst)]))
        nex += 1
        rep.case(("rec-exclude", grp, n, tuple(inp)))
    # ---- KpointBZtetra.divide (ndiv 2 and 3, refine / split) on tetrahedra of real grids
    ntet = 0
    pools = {}
    while ntet < (120 if thorough else 30):
        metric = rng.choice(["cub", "tet", "ort"])
        if metric not in pools:
            g, syst = real_tetra_grid(metric)
            f = W.gram_scale(metric, syst.recip_lattice)
            with W.silent():
                g.split_tetra_size(dkmax_of(2 * (int(max_len2(metric) * 3) // 8) + 1, f))
            pools[metric] = (g.get_K_list(), syst)
        kl, syst = pools[metric]
        K = rng.choice(kl).copy()
        p = W.tet_proj(K, S_T, WT_T)
        ndiv = rng.choice([2, 3])
        refine = rng.random() < 0.5
        if not splittable(p, ndiv, metric) or not lengths_separated([p], metric):
            continue
        ch = K.divide(ndiv=ndiv, refine=refine)
        out = [W.tet_proj(c, S_T, WT_T) for c in ch]
        recs.append(dict(fn="tsplit", metric=metric, S=S_T, M=M_T, NS=4, ndiv=ndiv, refine=refine, parent=tl(p), out=[tl(c) for c in out]))
        ntet += 1
        rep.case(("rec-tsplit", metric, p, ndiv, refine))
    # ---- GridTetra / GridTrigonal through the constructor with random thresholds
    for _ in range(24 if thorough else 8):
        metric = rng.choice(["cub", "tet", "ort", "hex"])
        f = W.gram_scale(metric, W.tetra_system(metric).recip_lattice)
        tv2 = 2 * rng.randint(start_vol6(metric) // 5, start_vol6(metric) * 2) + 1
        ts2 = 2 * rng.randint(int(max_len2(metric) * 0.3), int(max_len2(metric) * 1.2)) + 1
        g = tetra_by_constructor(metric, tv2, ts2, f)
        out = [W.tet_proj(K, S_T, WT_T) for K in g.get_K_list()]
        if not lengths_separated(out, metric):
            continue
        recs.append(dict(fn="tgrid", metric=metric, S=S_T, M=M_T, NS=4, WT=WT_T, tv2=tv2, ts2=ts2, out=[tl(c) for c in out]))
        rep.case(("rec-tgrid", metric, tv2, ts2))
    return recs


def tl(t):
    return [[list(p) for p in t[0]], t[1], t[2], t[3]]


_START = {}


def start_tets(metric):
    """starting tetrahedra of the real grid, projected"""
    if metric not in _START:
        g, _ = real_tetra_grid(metric)
        _START[metric] = [W.tet_proj(K, S_T, WT_T) for K in g.K_list]
    return _START[metric]


def start_vol6(metric):
    def vol6(v):
        a = np.array(v, dtype=np.int64)
        return abs(int(round(np.linalg.det((a[1:] - a[0]).astype(float)))))
    return max(vol6(t[0]) for t in start_tets(metric))


def max_len2(metric):
    G = np.array(W.GRAMS[metric])
    return max(len2(t[0], a, b, G) for t in start_tets(metric) for a, b in EDGES)


def splittable(p, ndiv, metric):
    G = np.array(W.GRAMS[metric])
    L = [len2(p[0], a, b, G) for a, b in EDGES]
    a, b = EDGES[L.index(max(L))]
    return all(int(x) % ndiv == 0 for x in (np.array(p[0][b]) - np.array(p[0][a]))) and p[1] % ndiv == 0


# ------------------------------------------------------------------------------------------------------------------
def check(pid, tier):
    rep = Report(pid, tier, "model_checking")
    thorough = tier == "thorough"
    rng = random.Random(seed() * 7919 + 6)
    rep.rule("TLC enumerates every (group of the catalogue, grid size, use_symmetry), every refinement step (group, grid, periodic mask, "
             "adpt_mesh, one or two refined points), every exclusion order for short K lists and every tetrahedral run (metric, thresholds) "
             "inside the constants; a case = one TLC state (or split) replayed on the real code with exact comparison, plus seeded random "
             "recorded calls validated by TLC; distinct by input tuple")
    rep.assume("k-points, vertices and weights are compared as integers after rounding with verified integrality (tolerance 1e-7)")
    rep.assume("thresholds of split_tetra_volume/size never equal an attained volume/size (odd numerators): on equality the loops of the code do not terminate")
    rep.assume("edge lengths of the replayed tetrahedra are either exactly tied or separated by > 1e-4 (the code's tie tolerance is 1e-6)")
    rep.assume("exclude_equiv_points: equivalent points share a distance group (the group operations are isometries of the reciprocal lattice) "
               "and the old points are pairwise inequivalent (established by the previous call)")
    nw = 6 if thorough else 4
    if thorough:
        sizes_div = [111, 211, 121, 221, 212, 222, 311, 331, 313, 322, 232, 332, 333]
        jobs = {
            "c06_groups": ("MC_KMeshGroups.tla", "SPECIFICATION Spec\nINVARIANT GroupAxioms\nINVARIANT CrystallographicOrder\nINVARIANT OrthogonalAreBox\nCHECK_DEADLOCK FALSE\n", True),
            "c06_grid_loop": ("MC_KMeshGrid.tla", cfg_grid(4, True), False),
            "c06_grid_tab": ("MC_KMeshGridTab.tla", cfg_grid(6, False), True),
            "c06_divide": ("MC_KMeshDivide.tla", cfg_divide(None, sizes_div, [111, 110, 100, 11], [2, 3], 8, None, False, False), True),
            "c06_divide_fullsamples": ("MC_KMeshDivide.tla", cfg_divide(["cub_Oh", "cub_T", "tet_D4h", "tet_S4", "ort_D2h", "ort_C2v"], [111, 211, 221, 222], [111, 110], [2, 3], 4,
                                                                        None, True, False), False),
            "c06_excl": ("MC_KMeshExcl.tla", cfg_excl(4, 6, False), False),
            "c06_tetra": ("MC_KMeshTetra.tla", cfg_tetra(["cub", "tet", "ort", "hex"], [9, 4, 2, 1], [9, 6, 4, 3, 2], 6, False), True),
        }
        ngrid, ndivr, nsplit = 9000, 3000, 1500
    else:
        jobs = {
            "c06_groups": ("MC_KMeshGroups.tla", "SPECIFICATION Spec\nINVARIANT GroupAxioms\nINVARIANT CrystallographicOrder\nINVARIANT OrthogonalAreBox\nCHECK_DEADLOCK FALSE\n", True),
            "c06_grid_loop": ("MC_KMeshGrid.tla", cfg_grid(3, True), False),
            "c06_grid_tab": ("MC_KMeshGridTab.tla", cfg_grid(4, False), True),
            "c06_divide": ("MC_KMeshDivide.tla", cfg_divide(None, [111, 211, 221, 222], [111, 110, 100], [2, 3], 4,
                                                            ["cub_Oh", "cub_T", "tet_D4h", "tet_S4", "ort_D2h", "ort_mM2"], False, False), True),
            "c06_excl": ("MC_KMeshExcl.tla", cfg_excl(3, 5, False), False),
            "c06_tetra": ("MC_KMeshTetra.tla", cfg_tetra(["cub", "ort", "hex"], [9, 2], [9, 4, 2], 4, False), True),
        }
        ngrid, ndivr, nsplit = 900, 400, 150
    # sensitivity self-tests: plausible wrong variants that TLC must reject
    jobs["c06_divide_v0"] = ("MC_KMeshDivide.tla", cfg_divide(["ort_D2h", "tet_C4v"], [111, 211], [111, 100], [2, 3], 0, [], False, True), False)
    jobs["c06_excl_v0"] = ("MC_KMeshExcl.tla", cfg_excl(2, 3, True), False)
    jobs["c06_tetra_v0"] = ("MC_KMeshTetra.tla", cfg_tetra(["cub"], [2], [9], 4, True), False)
    # thresholds equal to an attained value: does the real loop stall?  (decides which exit test the model uses)
    import wannierberri  # noqa: F401  (lazy: costs seconds)
    probes = {(m, w): stall_probe(m, w) for m in ("cub", "ort") for w in ("size", "volume")}
    stalls = [k_ for k_, v in probes.items() if v == "stalls"]
    if stalls and len(stalls) != len(probes):
        raise MachineryError(f"equal-threshold probes disagree: {[(k_, v == 'stalls') for k_, v in probes.items()]}")
    jobs["c06_tetra_eq"] = ("MC_KMeshTetra.tla", cfg_tetra(["cub", "ort"], [8, 4], [8, 4], 4, False, even=True, breakeq=not stalls), False)
    res = run_jobs(jobs, nw)
    st_eq = res.pop("c06_tetra_eq")
    if stalls:
        # model of the code as written: TLC must find the stall, too; then it is a finding on the real code
        if not st_eq.get("violation") or st_eq["violation"][1] not in ("NoStall", "Termination"):
            raise MachineryError(f"the real loops stall at equal thresholds but the model does not: {st_eq.get('violation')}")
        rep.part("c06_tetra_eq", model="loops as written", tlc_violation=st_eq["violation"][1])
        rep.violation("GridTetra.split_tetra:no_termination_at_equal_threshold",
                      dict(what="split_tetra_size(dkmax) / split_tetra_volume(vmax) never return when the threshold equals the largest attained "
                                "size / volume: the loop ends only if max < threshold but splits only tetrahedra with value > threshold, so the "
                                "K list is identical in every iteration (TLC: invariant NoStall of MC_KMeshTetra violated for even thresholds; "
                                "real code: 100 consecutive iterations with the identical K list)",
                           probes={f"{m}:{w}": "stalls" for m, w in stalls},
                           minimal_example="GridTetra(system with real_lattice = eye(3), length = 2.0, NKFFT = 1) does not return",
                           minimal_example_stalls=constructor_stall_example(), tlc_out=st_eq["meta"] + "/tlc.out"))
    else:
        ftable.spec_violation(rep, st_eq, "c06_tetra_eq")
        rep.add_tlc("c06_tetra_eq", st_eq)
    must_fail(rep, res.pop("c06_divide_v0"), "c06_divide_v0", ("SubcellsTile", "MergeKeepsWeight"))
    must_fail(rep, res.pop("c06_excl_v0"), "c06_excl_v0", ("LoopEqualsDeclarative", "WeightKept", "Lossless"))
    must_fail(rep, res.pop("c06_tetra_v0"), "c06_tetra_v0", ("WeightKept", "WeightByVolume", "SplitsOK"))
    specbad = False
    for name, st in res.items():
        specbad |= bool(ftable.spec_violation(rep, st, name))
        rep.add_tlc(name, st)
    if specbad:
        return rep.finish()
    tlc.check_not_vacuous(res["c06_grid_loop"], ["Create", "LoopBody", "LoopEnd", "DoFlatten"], "c06_grid_loop")
    tlc.check_not_vacuous(res["c06_grid_tab"], ["Call"], "c06_grid_tab")
    tlc.check_not_vacuous(res["c06_divide"], ["GetKList"], "c06_divide")   # Refine sits under \E: TLC reports it as a sub-action of Next; replay_divide requires "done" states in the dump
    tlc.check_not_vacuous(res["c06_excl"], ["Call"], "c06_excl")
    tlc.check_not_vacuous(res["c06_tetra"], ["VolRound", "VolEnd", "SizRound", "SizEnd"], "c06_tetra")

    bind_catalogue(rep, res["c06_groups"])
    replay_grid(rep, res["c06_grid_tab"], rng, ngrid)
    replay_divide(rep, res["c06_divide"], rng, ndivr)
    replay_tetra(rep, res["c06_tetra"], rng, nsplit)

    # ---------------- code -> spec
    recs = record_calls(rep, rng, thorough)
    stv, bad = ftable.validate_records("KMeshRec.tla", ftable.REC_CFG, recs, "c06", chunk=400)
    rep.add_tlc("c06_records", stv)
    rep.add_traces(len(recs))
    fnname = dict(klist="Grid.get_K_list", divide="KpointBZparallel.divide", exclude="exclude_equiv_points", tsplit="KpointBZtetra.divide", tgrid="GridTetra.__init__")
    for i, clauses in bad.items():
        r = recs[i]
        if set(clauses) & {"in_model", "generic"}:
            raise MachineryError(f"recorded call outside the model ({clauses}): {str(r)[:300]}")
        rep.violation(f"{fnname[r['fn']]}:recorded", dict(record=r, failing_clauses=clauses))
    kinds = {}
    for r in recs:
        kinds[r["fn"]] = kinds.get(r["fn"], 0) + 1
    for k_ in fnname:
        if not kinds.get(k_):
            raise MachineryError(f"no record of kind {k_}")
    rep.part("records", **kinds)
    rep.sample(next(r for r in recs if r["fn"] == "divide" and len(r["out"]) > 1))
    # binding self-test: corrupted records must be rejected
    badrecs = []
    r = copy.deepcopy(next(r for r in recs if r["fn"] == "klist" and r["ok"] and len(r["out"]) > 1))
    r["out"][-1][3] += 1
    badrecs.append(r)
    r = copy.deepcopy(next(r for r in recs if r["fn"] == "divide" and len(r["out"]) > 1))
    r["out"][0][0] = (r["out"][0][0] + 1) % (2 * r["n"][0] * r["nd"][0] ** r["L"])
    badrecs.append(r)
    r = copy.deepcopy(next(r for r in recs if r["fn"] == "exclude" and len(r["out"]) < len(r["inp"])))
    r["out"][0][4] -= 1
    badrecs.append(r)
    r = copy.deepcopy(next(r for r in recs if r["fn"] == "tsplit"))
    r["out"][0][1] += 1
    badrecs.append(r)
    r = copy.deepcopy(next(r for r in recs if r["fn"] == "tgrid" and len(r["out"]) > 3))
    del r["out"][-1]
    badrecs.append(r)
    _, b2 = ftable.validate_records("KMeshRec.tla", ftable.REC_CFG, badrecs, "c06_selftest")
    if sorted(b2) != list(range(len(badrecs))):
        raise MachineryError(f"binding self-test failed: corrupted records accepted: {sorted(set(range(len(badrecs))) - set(b2))}")
    rep.part("binding_selftest", corrupted_records_rejected={str(k_): v for k_, v in b2.items()})
    return rep.finish()
