"""C06: K-point weights partition the Brillouin zone for every grid and history.

spec  : KMesh.tla  A. groups on reduced k coordinates, Grid.get_K_list (MC_KMeshGroups, MC_KMeshGrid = the loops of the
                      code, MC_KMeshGridTab = function table for the replay)
                   B. one refinement step in 3-D: divide + exclude_equiv_points (MC_KMeshDivide), the loops of
                      exclude_equiv_points for every processing order (MC_KMeshExcl)
                   C. tetrahedral grids: starting sets, split_tetra_volume / split_tetra_size as a state machine,
                      KpointBZtetra.divide (MC_KMeshTetra)
bind  : spec -> code: a seeded sample of the TLC states is replayed on the real PointGroup, Grid, KpointBZparallel.divide,
        exclude_equiv_points, GridTetra / GridTrigonal, split_tetra_*, KpointBZtetra.divide.  The comparison is exact
        (integers) but UP TO THE SYMMETRY THE PROPERTY ALLOWS: total weight per orbit / per class of equivalent points
        (any order of the list, any representative, any survivor of a merge), canonical tetrahedra (any vertex order, any
        list order); when the real tetrahedra differ from the specification's (another valid tie-break) the property
        clauses are evaluated on the real list instead (TLC, KMeshRec).  The literal lists of today's code are compared
        for information only.
        code -> spec: seeded random calls of the same functions, chains of refinement steps and real 3-D run()
        executions (hook events UpdateIntegral / Divide / Refine) recorded and validated by TLC against KMeshRec.tla.
(the refinement histories of run() in 1-D / 2-D with restarts are covered by RunGrid.tla, harness/props/rungrid.py: C10-C12)
"""
import copy
import glob
import os
import random
import shutil
import signal
import concurrent.futures as cf
import numpy as np

from .. import tlc, ftable
from ..common import Report, MachineryError, seed, WORK, workdir
from . import kmesh_world as W

PROPS = {
    "C06": dict(level="model_checking",
                technique="TLC exhaustive on KMesh.tla (Grid.get_K_list as its loops vs declarative orbit reduction for a catalogue of 50 "
                          "(magnetic) point groups on cubic/tetragonal/orthorhombic/hexagonal/bcc/fcc/rhombohedral lattices; divide + "
                          "exclude_equiv_points in 3-D, the exclusion loops for every processing order; GridTetra/GridTrigonal splitting as a state "
                          "machine with exact integer volumes and barycentric sign tests) + replay of a seeded sample of the TLC states on the real "
                          "classes (comparison up to symmetry) + TLC validation of recorded calls, refinement chains and real 3-D run() executions",
                text="TLC checks, for every group of the catalogue and every grid size inside the constants (quick: n <= 3 for the loop model of 20 groups, n <= 4 for "
                     "the table of all groups; thorough: 4 / 6, all groups), that the stars partition the grid, the retained weights are |star|/Ntot, non-negative and sum to one and that "
                     "the images cover each grid point exactly once; for ONE refinement step of a level-0 list (adpt_mesh 2 and 3, also through "
                     "non-periodic directions, one or two refined points; quick: 12 groups, thorough: all) that the sub-cells tile the refined cell, "
                     "the total weight is kept and merging of equivalent points is lossless for every processing order; for tetrahedral grids that the "
                     "five starting tetrahedra tile the cell (trigonal wedge, 60 and 120 degrees: positive non-overlapping volumes, weights sum to "
                     "one), that every split keeps volume and weight with weight proportional to volume and children tiling the parent, and that the "
                     "splitting loops terminate when no threshold equals an attained value. A seeded sample of the enumerated states (quick: 600 "
                     "grids, 200 refinement steps, all tetrahedral runs, 100 splits) is executed on the real code and compared exactly in integers up "
                     "to symmetry (weight per orbit / class, no orbit twice; image cells tile the zone for groups mapping cells to cells); seeded "
                     "random calls, chains of 2 refinement steps and real 3-D run() executions with 2 adaptive iterations (hook events) are recorded "
                     "and every property clause of KMeshRec is evaluated on them by TLC; for two worlds per tier (four in thorough, with and "
                     "without symmetry) the run keeps its restart files and is followed by run(restart=True, restart_iteration=0) (going back: the "
                     "K-list file holds points of later iterations) and restart_iteration=-1 (latest), one more adaptive iteration each: every K list "
                     "at a StartRestart / UpdateIntegral / Refine event must have non-negative weights that sum to one exactly, no two equivalent "
                     "live points, and live cells (with their images) that tile the zone (records `kstate` + FineGeo.images_tile).",
                note="weights are compared as integers after verified rounding (units 1/Ntot, 1/(Ntot*prod(ndiv)^L), 1/WT; tolerance 1e-7, tetrahedra "
                     "1e-6); literal equality with today's lists (order, representative, vertex order, tie-break, split counters, exception classes, "
                     "rejection of grids the group does not map to themselves, thresholds reached) is information only (parts conformance_info, "
                     "records_info); thresholds of the tetrahedral loops never coincide with an attained value in the models that carry the claim: at "
                     "equality the loops of the code do not return, which is reported as observation_outside_C06 (termination is not part of C06); "
                     "multi-level histories and restart histories (classes restart_going_back / restart_latest, required non-empty) are covered by "
                     "recorded chains / run() executions (2-3 levels) validated clause by clause by TLC, not by an exhaustive model (1 level); "
                     "crash points, stored results and 1-D/2-D restart histories belong to C10-C12 (rungrid.py)",
                ref="DESIGN.md 3.2"),
}

S_T, M_T, WT_T = 48, 8, 6144          # tetrahedra: coordinate unit 1/48, samples 1/(48*8), weight unit 1/6144
GRID_INVS = ["NonNegative", "SumToOne", "Partition", "OrbitWeight", "ImagesCoverOnce"]
DIV_INVS = ["InitialWeight", "TotalWeightKept", "NonNegative", "ParentsDead", "SubcellsTile", "SubcellsWeight", "MergeKeepsWeight",
            "NoDuplicates", "NoMergeWithoutSymmetry", "ZoneTiled"]
EXCL_INVS = ["WellFormed", "LoopEqualsDeclarative", "WeightKept", "Lossless", "NewPointsUnique", "OldPointsStay"]
TET_INVS = ["Embedding", "Positive", "VolumeKept", "WeightKept", "WeightByVolume", "Tiling", "SplitsOK", "ThresholdsMet", "EqualsLoops", "NoStall"]
QUICK_DIV_NAMES = ["cub_Oh", "cub_T", "tet_D4h", "tet_S4", "ort_D2h", "ort_mM2", "ort_C1", "hex_D6h", "hex_C3vx", "bcc_Oh", "fcc_Oh", "rho_D3d"]
QUICK_LOOP_NAMES = QUICK_DIV_NAMES + ["tet_4p", "hex_6p", "cub_OhTR", "ort_TR", "hex_C3TR", "cub_4p32p", "tet_C4v", "hex_D3d"]
INFO = {}          # literal differences from today's code, exception classes, ... (information only)


def note(key, n=1):
    INFO[key] = INFO.get(key, 0) + n


def tset(vals):
    return "{" + ", ".join(tlc.tla_value(v) for v in vals) + "}"


def invs(names):
    return "".join(f"INVARIANT {i}\n" for i in names)


def cfg_grid(nmax, loop, names=None):
    extra = ["EqualsDeclarative", "LoopConserves"] if loop else []
    return (f"SPECIFICATION Spec\nCONSTANTS\n  NMAX = {nmax}\n" + (f"  Names = {tset(names)}\n" if names else "  Names <- AllNames\n") + "  SymSet = {TRUE, FALSE}\n" +
            invs(GRID_INVS + extra) + "CHECK_DEADLOCK FALSE\n")


def cfg_divide(names, sizes, pers, ndivs, pairmax, tiling, full, corner):
    return ("SPECIFICATION Spec\nCONSTANTS\n" +
            (f"  Names = {tset(names)}\n" if names else "  Names <- AllNames\n") +
            f"  Sizes = {tset(sizes)}\n  PerSet = {tset(pers)}\n  NdivSet = {tset(ndivs)}\n  SymSet = {{TRUE, FALSE}}\n"
            f"  PairMaxPts = {pairmax}\n" +
            (f"  TilingNames = {tset(tiling)}\n" if tiling is not None else "  TilingNames <- BoxNames\n") +
            f"  FullSamples = {tlc.tla_value(full)}\n  CornerShift = {tlc.tla_value(corner)}\n" + invs(DIV_INVS) + "CHECK_DEADLOCK FALSE\n")


def cfg_excl(lenmax, nkinds, lose):
    return (f"SPECIFICATION Spec\nCONSTANTS\n  LenMax = {lenmax}\n  NKinds = {nkinds}\n  LoseWeight = {tlc.tla_value(lose)}\n" +
            invs(EXCL_INVS) + "CHECK_DEADLOCK FALSE\n")


def cfg_tetra(metrics, tvq, tsq, ns, keep, even=False, breakeq=False):
    return (f"SPECIFICATION Spec\nCONSTANTS\n  S = {S_T}\n  M = {M_T}\n  NS = {ns}\n  WT = {WT_T}\n  Metrics = {tset(metrics)}\n"
            f"  TVq = {tset(tvq)}\n  TSq = {tset(tsq)}\n  EvenThresholds = {tlc.tla_value(even)}\n  BreakOnEqual = {tlc.tla_value(breakeq)}\n"
            f"  KeepWeight = {tlc.tla_value(keep)}\n" + invs(TET_INVS) + "PROPERTY Termination\nCHECK_DEADLOCK FALSE\n")


def run_jobs(jobs, nworkers, tag):
    """jobs: name -> (module, cfg, dump).  The TLC runs are independent: at most three run concurrently (small ones with
    1 worker: TLC evaluates the constant definitions once per worker)."""
    res = {}

    def one(item):
        name, (module, cfg, dump) = item
        small = name.endswith("_v0") or name.endswith("groups") or name.endswith("_eq")
        # -Xss64m: the recursive operators (sorting 216 grid points, sums) overflow the default stack of a TLC worker thread
        st = tlc.run_tlc(module, cfg, f"{tag}_{name}", workers=1 if small else nworkers, dump=dump, timeout=3000, heap="4g",
                         env={"JAVA_TOOL_OPTIONS": (os.environ.get("JAVA_TOOL_OPTIONS", "") + " -Xss64m").strip()})
        if st.get("timeout"):
            raise MachineryError(f"TLC timed out on {name}")
        if st.get("error") and not st.get("violation"):
            raise MachineryError(f"TLC error on {name}: {st['error'][:600]}")
        return name, st
    with cf.ThreadPoolExecutor(max_workers=3) as ex:
        for name, st in ex.map(one, jobs.items()):
            res[name] = st
    return res


def must_fail(rep, st, name, expected):
    if not st.get("violation") or st["violation"][1] not in expected:
        raise MachineryError(f"sensitivity self-test failed: {name} should violate one of {expected}, TLC says {st.get('violation')}")
    rep.part(name, sensitivity_violation=st["violation"][1], distinct=st["distinct"])


def guarded(rep, site, info, fn, *a, **kw):
    """calls the library; an exception raised inside the package on a valid input is a violation of the check's site
    (the behaviour the property talks about is absent), the harness's own errors propagate.  -> (ok, value)"""
    try:
        return True, fn(*a, **kw)
    except (W.NonIntegral, W.PrivateGone, MachineryError):
        raise
    except Exception as ex:
        from ..main import raised_by_code_under_test
        where = raised_by_code_under_test(ex)
        if where is None:
            raise
        rep.violation(f"raises:{site}:{type(ex).__name__}", dict(info, error=f"{type(ex).__name__}: {ex}"[:400], raised_in=where))
        return False, None


def vacuity(rep, what, counts, need):
    missing = [k for k in need if not counts.get(k)]
    if missing and not rep.violations:
        raise MachineryError(f"{what}: classes never occurred: {missing} ({counts})")


# ------------------------------------------------------------------------------------------------------------------
def bind_catalogue(rep, st):
    """every group of the specification's catalogue = the k-matrices of the real PointGroup built from the generator names.
    -> set of usable group names (a group whose real closure differs from the catalogue is left out of the replays: the
    comparison would be meaningless for it; the catalogue is part of the harness, a mismatch is not a finding about C06)"""
    usable, mismatch = set(), {}
    n = 0
    for s in sorted(ftable.dump_states(st), key=lambda s: s["grp"]):
        n += 1
        grp = s["grp"]
        if grp not in W.GENS:
            raise MachineryError(f"group {grp} of KMesh.Catalogue has no generator names in kmesh_world.GENS")
        spec = set(tuple(tuple(r) for r in g) for g in s["G"])
        try:
            real = W.kmatrices(W.pointgroup(grp))
        except W.PrivateGone as ex:
            W.SKIPPED["catalogue binding"] = str(ex)
            return None
        except W.NonIntegral as ex:
            mismatch[grp] = str(ex)[:200]
            continue
        rep.case(("group", grp))
        if spec != real or s["lat"] != W.lat_of(grp):
            mismatch[grp] = f"spec {len(spec)} matrices, PointGroup {len(real)}"
        else:
            usable.add(grp)
    if n != len(W.GENS):
        raise MachineryError(f"catalogue has {n} groups, kmesh_world.GENS {len(W.GENS)}")
    if len(usable) * 2 < n:
        raise MachineryError(f"catalogue binding failed for most groups: {mismatch}")
    rep.part("catalogue_binding", groups=n, usable=len(usable), left_out=mismatch)
    return usable


def replay_grid(rep, st, rng, nrep, usable):
    states = [s for s in ftable.dump_states(st) if s["pc"] == "done"]
    if 2 * len(states) != st["distinct"]:
        raise MachineryError(f"grid table: {len(states)} finished cases for {st['distinct']} states")
    bygrp = {}
    for s in sorted(states, key=lambda s: (s["grp"], tuple(s["n"]), s["sym"])):
        if s["grp"] in usable:
            bygrp.setdefault(s["grp"], []).append(s)
    for g, lst in sorted(bygrp.items()):
        rng.shuffle(lst)
    chosen = []
    k = 0
    total = sum(len(v) for v in bygrp.values())
    while len(chosen) < min(nrep, total):      # round-robin over the groups so that every group gets its share
        for g in sorted(bygrp):
            if k < len(bygrp[g]):
                chosen.append(bygrp[g][k])
        k += 1
    counts = dict(compatible=0, incompatible=0, reduced=0, incompatible_accepted=0)
    for s in chosen[:nrep]:
        grp, n, sym = s["grp"], tuple(s["n"]), s["sym"]
        nkfft = rng.choice([1, 1, 2])
        info = dict(group=grp, generators=W.GENS[grp], lattice=W.LATTICES[W.lat_of(grp)].tolist(), NKdiv=n, NKFFT=nkfft, use_symmetry=sym)
        grid, _, err = W.make_grid(grp, n, nkfft)
        exp = [(tuple(r["k"]), r["w"]) for r in s["out"]]
        rep.case(("grid", grp, n, sym), nontrivial=True)
        if not s["ok"]:
            counts["incompatible"] += 1
            if grid is not None:       # the property speaks about compatible grids only
                counts["incompatible_accepted"] += 1
            continue
        counts["compatible"] += 1
        if grid is None:
            rep.violation("Grid:compatible_grid_rejected", dict(info, exception=err))
            continue
        mats = W.mats_of(grp) if sym else [((1, 0, 0), (0, 1, 0), (0, 0, 1))]
        try:
            ok, res = guarded(rep, "Grid.get_K_list", info, W.klist_grid, grid, sym)
        except W.NonIntegral as ex:
            rep.violation("Grid.get_K_list:non-integral projection", dict(info, error=str(ex)))
            continue
        if not ok:
            continue
        _, got = res
        if sym and len(exp) < n[0] * n[1] * n[2]:
            counts["reduced"] += 1
        gw, gdup = W.grid_orbit_weights(got, n, mats)
        ew, _ = W.grid_orbit_weights(exp, n, mats)
        if gw != ew or gdup or any(w < 0 for _, w in got):
            rep.violation("Grid.get_K_list:" + ("symmetry" if sym else "full"),
                          dict(info, unit="k = K*NKdiv mod NKdiv, weight = factor*prod(NKdiv)", compared="total weight per orbit, no orbit retained twice",
                               orbits_retained_twice=gdup, expected=exp, got=got))
        elif got != exp:
            note("Grid.get_K_list:list_differs_literally")
        if len(rep.cov["samples"]) < 2 and sym and len(exp) > 2:
            rep.sample(dict(fn="Grid.get_K_list", group=grp, NKdiv=n, klist=exp[:6]))
    vacuity(rep, "grid replay", counts, ["compatible", "incompatible", "reduced"])
    rep.part("replay_grid", **counts)


def refine_steps(grp, n, per, ndiv, sym, orders, L):
    """the refinement step of run() on the real classes, repeated for every entry of `orders` (1-based indices into the
    current list); returns the projected lists [initial, after step 1, ...]"""
    from wannierberri.grid.Kpoint import exclude_equiv_points
    nd = tuple(ndiv if p else 1 for p in per)
    geo = W.FineGeo(n, nd, L)
    grid, syst, err = W.make_grid(grp, n, 1, periodic=per)
    if grid is None:
        raise GridRejected(err)
    kl, _ = W.klist_grid(grid, sym)
    out = [geo.proj_list(kl)]
    for order in orders:
        l1 = len(kl)
        with W.silent():
            for ik in order:
                kl += kl[ik - 1].divide(ndiv=np.array([ndiv] * 3), periodic=syst.periodic, use_symmetry=sym)
            if sym:
                exclude_equiv_points(kl, new_points=len(kl) - l1)
        out.append(geo.proj_list(kl))
    return geo, out


class GridRejected(Exception):
    pass


def replay_divide(rep, st, rng, nrep, usable, ntile, fallback):
    states = [s for s in ftable.dump_states(st) if s["pc"] == "done" and s["grp"] in usable]
    if not states:
        raise MachineryError("no finished refinement step in the dump")
    states.sort(key=lambda s: (s["grp"], tuple(s["n"]), tuple(s["per"]), s["ndiv"], s["sym"], tuple(s["ord"])))
    rng.shuffle(states)
    counts = dict(merged=0, two_parents=0, anisotropic=0, ndiv3=0, nosym=0, image_tiling=0)
    ident = [((1, 0, 0), (0, 1, 0), (0, 0, 1))]
    nfb = 0
    for s in states[:nrep]:
        grp, n, per, ndiv, sym, order = s["grp"], tuple(s["n"]), tuple(s["per"]), s["ndiv"], s["sym"], tuple(s["ord"])
        exp0, exp1 = W.spec_kl(s["kl0"]), W.spec_kl(s["kl1"])
        rep.case(("divide", grp, n, per, ndiv, sym, order))
        info = dict(group=grp, generators=W.GENS[grp], NKdiv=n, periodic=per, adpt_mesh=ndiv, use_symmetry=sym, refined_indices_1based=order,
                    unit="c = K * 2*NKdiv*ndiv (mod), weight = factor * prod(NKdiv)*prod(ndiv)", compared="total weight per class (level, orbit); no two live points equivalent")
        nraw = len(exp0) + len(order) * int(np.prod([ndiv if p else 1 for p in per]))
        counts["merged"] += len(exp1) < nraw
        counts["two_parents"] += len(order) == 2
        counts["anisotropic"] += not all(per)
        counts["ndiv3"] += ndiv == 3
        counts["nosym"] += not sym
        mats = W.mats_of(grp) if sym else ident
        try:
            ok, res = guarded(rep, "Grid.get_K_list", info, refine_steps, grp, n, per, ndiv, sym, [], 1)
            if not ok:
                continue
            geo, (got0,) = res
            gw0, gdup0 = W.class_weights(got0, geo.U, mats)
            if gw0 != W.class_weights(exp0, geo.U, mats)[0] or gdup0:
                rep.violation("Grid.get_K_list:before_refinement", dict(info, expected=exp0, got=got0))
                continue
            # the points the specification refines, found in the real list by their class (the real list may be in another
            # order and hold other members of the orbits)
            keys0 = [(lev, W.orbit_rep(c, geo.U, mats)) for c, lev, _ in got0]
            order_real = [keys0.index((exp0[o - 1][1], W.orbit_rep(exp0[o - 1][0], geo.U, mats))) + 1 for o in order]
            ok, res = guarded(rep, "divide+exclude_equiv_points", info, refine_steps, grp, n, per, ndiv, sym, [order_real], 1)
            if not ok:
                continue
            geo, (got0, got1) = res
        except W.NonIntegral as ex:
            rep.violation("divide:non-integral projection", dict(info, error=str(ex)))
            continue
        except GridRejected as ex:
            rep.violation("Grid:compatible_grid_rejected", dict(info, exception=str(ex)))
            continue
        if sorted(got0) != sorted(exp0):
            # other members of the orbits are retained: the refined list need not be equivalent to the specification's one
            # (cells are mapped to cells only by some groups); the property clauses are evaluated on the real step by TLC
            note("refinement:other_initial_list_than_the_specification_(clauses_checked_by_TLC)")
            if nfb < 60:
                nfb += 1
                fallback.append(("divide+exclude_equiv_points", info, refine_record(grp, geo, sym, got0, order_real, got1, "replay")))
            good = True
        else:
            gw, gdup = W.class_weights(got1, geo.U, mats)
            ew, _ = W.class_weights(exp1, geo.U, mats)
            good = not (gw != ew or (sym and gdup) or any(f < 0 for _, _, f in got1))
            if not good:
                rep.violation("divide+exclude_equiv_points:" + ("symmetry" if sym else "plain"),
                              dict(info, classes_with_two_live_points=gdup, before=exp0, expected=exp1, got=got1))
            elif got1 != exp1:
                note("refinement:list_differs_literally")
        # the image cells of the real list tile the zone (groups mapping cells to cells)
        if good and counts["image_tiling"] < ntile and W.box_preserving(W.mats_of(grp)):
            counts["image_tiling"] += 1
            why = geo.images_tile(got1, mats)
            if why:
                rep.violation("refinement:image_cells_do_not_tile", dict(info, why=why, got=got1))
        if len(rep.cov["samples"]) < 4 and sym and len(exp1) < nraw:
            rep.sample(dict(fn="divide+exclude_equiv_points", **info, after=exp1[:8]))
    vacuity(rep, "refinement replay", counts, list(counts))
    rep.part("replay_divide", **{k_: int(v) for k_, v in counts.items()})


# ------------------------------------------------------------------------------------------------------------------
def real_tetra_grid(metric):
    """GridTetra / GridTrigonal with the starting set only"""
    from wannierberri.grid.grid_tetra import GridTetra, GridTrigonal
    syst = W.tetra_system(metric)
    if np.linalg.det(syst.recip_lattice) <= 0:
        raise MachineryError("tetra lattice must be right handed")
    cls = GridTrigonal if W.trigonal(metric) else GridTetra
    with W.silent():
        g = cls(syst, length=1.0, NKFFT=1, refine_by_volume=False, refine_by_size=False)
    return g, syst


def tlist(g):
    """the tetrahedra of a grid through the public accessor"""
    with W.silent():
        return g.get_K_list()


EDGES = ((0, 1), (0, 2), (0, 3), (1, 2), (1, 3), (2, 3))


def len2(v, a, b, G):
    d = np.array(v[b]) - np.array(v[a])
    return int(d @ G @ d)


def vmax_of(tv2):
    return tv2 / (12.0 * S_T ** 3)


def dkmax_of(ts2, f):
    return float(np.sqrt(ts2 / 2.0 * f)) / S_T


def cell_volume(metric):
    return 1.0 / 12.0 if W.trigonal(metric) else 1.0


def lengths_separated(tets, metric):
    """the code calls two edges equal when their lengths differ by less than 1e-6: exact ties must be the only ones"""
    G = np.array(W.GRAMS[metric])
    f = W.gram_scale(metric, W.tetra_system(metric).recip_lattice)
    unit = np.sqrt(f) / S_T
    for v, *_ in tets:
        L2 = sorted(set(len2(v, a, b, G) for a, b in EDGES))
        for a, b in zip(L2[:-1], L2[1:]):
            if (np.sqrt(b) - np.sqrt(a)) * unit < 1e-4:
                return False
    return True


def tgrid_record(metric, tv2, ts2, out):
    return dict(fn="tgrid", metric=metric, S=S_T, M=M_T, NS=4, WT=WT_T, tv2=tv2, ts2=ts2, out=[tl(c) for c in out])


def compare_tets(rep, site, info, Ks, exp, metric, tv2, ts2, fallback):
    """real list of tetrahedra vs the list of the specification: property clauses in floating point always; equal as
    sets of (vertex set, weight) -> fine; otherwise (another tie-break, ...) the property clauses are evaluated by TLC on
    the real list (fallback record)"""
    why = W.tets_float_check(Ks, cell_volume(metric))
    if why:
        rep.violation(f"{site}:weights_volumes", dict(info, why=why, n_tetrahedra=len(Ks)))
        return
    try:
        got = [W.tet_proj(K, S_T, WT_T) for K in Ks]
    except W.NonIntegral as ex:
        note(f"{site}:not_on_the_integer_lattice_(float_clauses_only)")
        INFO.setdefault("first_nonintegral", str(ex)[:200])
        return
    if W.tets_canon(got) == W.tets_canon(exp):
        if got != exp:
            note(f"{site}:list_differs_literally")
        return
    note(f"{site}:other_tetrahedra_than_the_specification_(clauses_checked_by_TLC)")
    if sum(1 for f_ in fallback if f_[2]["fn"] == "tgrid") < 40:
        fallback.append((site, info, tgrid_record(metric, tv2, ts2, got)))


def replay_tetra(rep, st, rng, nsplit, fallback):
    runs = {}
    for s in ftable.dump_states(st):
        key = (s["metric"], s["tv2"], s["ts2"])
        r = runs.setdefault(key, dict(splits=[]))
        if s["phase"] == "volume" and s["nround"] == 0:
            r["start"] = W.spec_tets(s["kl"])
        if s["phase"] == "size" and len(s["hist"]) == 0:
            r["mid"] = W.spec_tets(s["kl"])
        if s["phase"] == "done":
            r["done"] = W.spec_tets(s["kl"])
        for h in s["hist"]:
            r["splits"].append((W.spec_tets([h["p"]])[0], W.spec_tets(h["ch"])))
    nruns = 0
    allsplits = {}
    for (metric, tv2, ts2), r in sorted(runs.items()):
        if not all(k in r for k in ("start", "mid", "done")):
            raise MachineryError(f"tetra run {(metric, tv2, ts2)} incomplete in the dump")
        nruns += 1
        cname = "GridTrigonal" if W.trigonal(metric) else "GridTetra"
        info0 = dict(metric=metric, real_lattice=W.METRICS[metric].tolist(), grid=cname, unit=f"vertices*{S_T}, factor*{WT_T}")
        ok, res = guarded(rep, cname + ".__init__", info0, real_tetra_grid, metric)
        if not ok:
            continue
        g, syst = res
        f = W.gram_scale(metric, syst.recip_lattice)
        if not lengths_separated(r["done"] + r["mid"], metric):
            raise MachineryError("edge lengths not separated from the 1e-6 tie tolerance of the code")
        info = dict(info0, vmax=vmax_of(tv2), dkmax=dkmax_of(ts2, f))
        rep.case(("tetra", metric, tv2, ts2))
        ok, Ks = guarded(rep, cname + ".get_K_list", info, tlist, g)
        if not ok:
            continue
        compare_tets(rep, cname + ":start", info, Ks, r["start"], metric, 0, 0, fallback)

        def silently(fn, *a):
            with W.silent():
                return fn(*a)
        ok, _ = guarded(rep, "GridTetra.split_tetra_volume", info, silently, g.split_tetra_volume, vmax_of(tv2))
        if not ok:
            continue
        compare_tets(rep, "GridTetra.split_tetra_volume", info, tlist(g), r["mid"], metric, tv2, 0, fallback)
        ok, _ = guarded(rep, "GridTetra.split_tetra_size", info, silently, g.split_tetra_size, dkmax_of(ts2, f))
        if not ok:
            continue
        compare_tets(rep, "GridTetra.split_tetra_size", info, tlist(g), r["done"], metric, tv2, ts2, fallback)
        # the same through the constructor (length -> vmax, length_size -> dkmax)
        ok, g2 = guarded(rep, cname + ".__init__", info, tetra_by_constructor, metric, tv2, ts2, f)
        if ok:
            compare_tets(rep, cname + ".__init__", info, tlist(g2), r["done"], metric, tv2, ts2, fallback)
        for p, ch in r["splits"]:
            allsplits[(metric, p)] = (metric, syst, (p, ch))
        if nruns == 1:
            rep.sample(dict(fn="GridTetra", **info, n_tetrahedra=len(r["done"]), first=r["done"][0]))
    if nruns == 0 or not allsplits:
        raise MachineryError("tetra replay: nothing to replay")
    splits = [allsplits[k] for k in sorted(allsplits)]
    rng.shuffle(splits)
    for metric, syst, (p, ch) in splits[:nsplit]:
        rep.case(("tsplit", metric, p))
        info = dict(metric=metric, parent=p, unit=f"vertices*{S_T}, factor*{WT_T}")
        K = W.tet_make(p[0], p[1], p[2], p[3], S_T, WT_T, syst.recip_lattice)
        ok, kids = guarded(rep, "KpointBZtetra.divide", info, K.divide, ndiv=2, refine=False)
        if not ok:
            continue
        check_split(rep, info, K, p, kids, ch, metric, 2, False, fallback)
    old = rep.parts.get("replay_tetra", {}) if hasattr(rep, "parts") else {}
    rep.part("replay_tetra", runs=nruns + old.get("runs", 0), splits=min(nsplit, len(splits)) + old.get("splits", 0))


def check_split(rep, info, K, p, kids, exp_children, metric, ndiv, refine, fallback):
    """children of one real split vs the property (floating point), then vs the specification's children as sets"""
    vp = abs(np.linalg.det((np.array(p[0][1:], dtype=float) - np.array(p[0][0], dtype=float)))) / 6.0 / S_T ** 3
    vols = np.array([abs(np.linalg.det(W.tet_vertices(c)[1:] - W.tet_vertices(c)[0][None, :])) / 6.0 for c in kids])
    facs = np.array([float(c.factor) for c in kids])
    fp = p[1] / WT_T
    why = None
    if K.factor != 0:
        why = f"the split tetrahedron keeps the weight {K.factor}"
    elif len(kids) == 0 or vols.min() <= 1e-14 or facs.min() <= 0:
        why = "non-positive volume or weight of a child"
    elif abs(vols.sum() - vp) > 1e-9 * vp or abs(facs.sum() - fp) > 1e-9 * fp:
        why = f"children: volume {vols.sum()!r} of {vp!r}, weight {facs.sum()!r} of {fp!r}"
    elif np.abs(facs / fp - vols / vp).max() > 1e-9:
        why = "weights of the children are not proportional to their volumes"
    if why:
        rep.violation("KpointBZtetra.divide", dict(info, why=why, parent_factor_after=K.factor))
        return
    try:
        got = [W.tet_proj(c, S_T, WT_T) for c in kids]
    except W.NonIntegral:
        note("KpointBZtetra.divide:not_on_the_integer_lattice_(float_clauses_only)")
        return
    if exp_children is not None and W.tets_canon(got) == W.tets_canon(exp_children):
        if got != exp_children:
            note("KpointBZtetra.divide:children_differ_literally")
        return
    if exp_children is not None:
        note("KpointBZtetra.divide:other_children_than_the_specification_(clauses_checked_by_TLC)")
    if sum(1 for f_ in fallback if f_[2]["fn"] == "tsplit") < 40:
        fallback.append(("KpointBZtetra.divide", info, dict(fn="tsplit", metric=metric, S=S_T, M=M_T, NS=4, ndiv=ndiv, refine=refine, parent=tl(p),
                                                           out=[tl(c) for c in got])))


class Stalled(Exception):
    pass


def cpu_limited(seconds, fn):
    """runs fn(); Stalled is raised inside it after `seconds` of CPU time of this process (robust against machine load,
    independent of anything the code under test prints)"""
    def handler(signum, frame):
        raise Stalled()
    old = signal.signal(signal.SIGVTALRM, handler)
    signal.setitimer(signal.ITIMER_VIRTUAL, seconds)
    try:
        return fn()
    finally:
        signal.setitimer(signal.ITIMER_VIRTUAL, 0)
        signal.signal(signal.SIGVTALRM, old)


def stall_probe(metric, which, cpu_s=4.0):
    """Runs the real split_tetra_size / split_tetra_volume with the threshold EXACTLY equal to the largest attained size /
    volume (read from the real objects, so the floats are identical).  A loop that does not return within `cpu_s` seconds of
    CPU time (the normal run takes milliseconds) stalls.  Fast path while the loops still print once per iteration: the
    hook put in place of print raises when the K list was the same in 100 consecutive iterations.
    Returns "stalls" / "returns" / "unknown: ..." (information only)."""
    try:
        from wannierberri.grid import grid_tetra as GT
        g, _ = real_tetra_grid(metric)
        Ks = tlist(g)
        if which == "size":
            thr = float(max(K.size for K in Ks))
            run = lambda: g.split_tetra_size(thr)      # noqa: E731
        else:
            thr = float(max(abs(np.linalg.det(W.tet_vertices(K)[1:] - W.tet_vertices(K)[0][None, :])) / 6.0 for K in Ks))
            run = lambda: g.split_tetra_volume(thr)    # noqa: E731
    except Exception as ex:
        return f"unknown: {type(ex).__name__}: {ex}"[:200]
    seen = []

    def hook(*a, **k):
        seen.append(len(seen))
        if len(seen) > 200:
            raise Stalled()
    GT.print = hook
    try:
        cpu_limited(cpu_s, run)
    except Stalled:
        return "stalls"
    except Exception as ex:
        return f"unknown: {type(ex).__name__}: {ex}"[:200]
    finally:
        try:
            del GT.print
        except AttributeError:
            pass
    return "returns"


def constructor_stall_example(cpu_s=4.0):
    """the smallest natural example: cubic lattice a = 1, GridTetra(system, length = 2) (length_size = 1: dkmax equals the
    face diagonal of the reciprocal cell)"""
    from wannierberri.grid import grid_tetra as GT
    syst = W.real_system("eye", np.eye(3), [])
    n = [0]

    def hook(*a, **k):
        n[0] += 1
        if n[0] > 2000:
            raise Stalled()
    GT.print = hook
    try:
        cpu_limited(cpu_s, lambda: GT.GridTetra(syst, length=2.0, NKFFT=1))
    except Stalled:
        return True
    except Exception:
        return False
    finally:
        try:
            del GT.print
        except AttributeError:
            pass
    return False


def tetra_by_constructor(metric, tv2, ts2, f, nkfft=1):
    from wannierberri.grid.grid_tetra import GridTetra, GridTrigonal
    syst = W.tetra_system(metric)
    det = np.linalg.det(syst.recip_lattice / nkfft)
    length = 2 * np.pi / (vmax_of(tv2) * det) ** (1.0 / 3.0)
    length_size = 2 * np.pi * np.sqrt(2) / dkmax_of(ts2, f)
    cls = GridTrigonal if W.trigonal(metric) else GridTetra
    with W.silent():
        return cls(syst, length=length, NKFFT=nkfft, length_size=length_size)


# ------------------------------------------------------------------------------------------------------------------
def pl(p):
    """(c, lev, fac) -> [c1, c2, c3, lev, fac]"""
    return list(p[0]) + [p[1], p[2]]


def refine_record(grp, geo, sym, before, order, after, source):
    return dict(fn="refine", grp=grp, n=list(geo.n), nd=list(geo.nd), L=geo.L, sym=sym, before=[pl(p) for p in before], ord=[int(i) for i in order],
                after=[pl(p) for p in after], source=source)


def record_calls(rep, rng, thorough, usable, tag, recs):
    """seeded random calls of the real functions -> records (appended to recs)"""
    from wannierberri.grid.Kpoint import exclude_equiv_points
    names = sorted(usable)
    nmax = 6 if thorough else 5
    # ---- Grid.get_K_list
    for _ in range(160 if thorough else 24):
        grp = rng.choice(names)
        mats = W.mats_of(grp)
        n = tuple(rng.randint(1, nmax) for _ in range(3))
        if rng.random() < 0.75 and not W.compatible(n, mats):
            n = (n[0], n[0], n[2]) if W.compatible((n[0], n[0], n[2]), mats) else (n[0],) * 3
        sym = rng.random() < 0.8
        grid, _, err = W.make_grid(grp, n, rng.choice([1, 2]))
        ok = grid is not None
        out = []
        rep.case(("rec-klist", grp, n, sym))
        if ok:
            info = dict(group=grp, NKdiv=n, use_symmetry=sym)
            try:
                good, res = guarded(rep, "Grid.get_K_list", info, W.klist_grid, grid, sym)
            except W.NonIntegral as ex:
                rep.violation("Grid.get_K_list:non-integral projection", dict(info, error=str(ex)))
                continue
            if not good:
                continue
            out = [list(k) + [w] for k, w in res[1]]
        recs.append(dict(fn="klist", grp=grp, n=list(n), sym=sym, ok=ok, out=out))
    # ---- KpointBZparallel.divide on random K-points (levels 0 and 1, anisotropic meshes)
    ndiv_n = 0
    tries = 0
    while ndiv_n < (240 if thorough else 30) and tries < 20000:
        tries += 1
        grp = rng.choice(names)
        pg = W.pointgroup(grp)
        mats = W.mats_of(grp)
        per = rng.choice([(True, True, True)] * 3 + [(True, True, False), (True, False, False), (False, True, True)])
        n = tuple(rng.randint(1, 3) if p else 1 for p in per)
        ndiv = tuple(rng.choice([2, 2, 3, 1]) for _ in range(3))
        nd = tuple(d if p else 1 for d, p in zip(ndiv, per))
        L = rng.choice([1, 2])
        geo = W.FineGeo(n, nd, L)
        if not W.compatible(geo.U, mats) or not W.compatible(n, mats) or max(geo.U) > 120:
            continue
        sym = rng.random() < 0.75
        c0 = tuple(2 * nd[i] ** L * rng.randrange(n[i]) for i in range(3))
        fac0 = geo.W0 * rng.randint(1, 6)
        K = geo.make_point(c0, 0, fac0, pg)
        info = dict(group=grp, NKdiv=n, ndiv=ndiv, periodic=per, use_symmetry=sym, parent=pl((c0, 0, fac0)))

        def div(Kp):
            with W.silent():
                return Kp.divide(ndiv=np.array(ndiv), periodic=np.array(per), use_symmetry=sym)
        try:
            good, ch = guarded(rep, "KpointBZparallel.divide", info, div, K)
            if not good:
                ndiv_n += 1
                continue
            out = geo.proj_list(ch)
        except W.NonIntegral as ex:
            rep.violation("divide:non-integral projection", dict(info, error=str(ex)))
            ndiv_n += 1
            continue
        recs.append(dict(fn="divide", grp=grp, n=list(n), nd=list(nd), L=L, sym=sym, parent=list(c0) + [0, fac0], out=[pl(p) for p in out]))
        # the parent is dead afterwards
        if K.factor != 0:
            rep.violation("KpointBZparallel.divide:parent_not_dead", dict(info, factor=K.factor))
        ndiv_n += 1
        rep.case(("rec-divide", grp, n, nd, L, c0, sym))
        if L == 2 and ch:
            K1 = rng.choice(ch)
            try:
                p1 = geo.proj(K1)
                good, ch2 = guarded(rep, "KpointBZparallel.divide", dict(info, parent=pl(p1)), div, K1)
                if good:
                    recs.append(dict(fn="divide", grp=grp, n=list(n), nd=list(nd), L=L, sym=sym, parent=pl(p1), out=[pl(p) for p in geo.proj_list(ch2)]))
                rep.case(("rec-divide2", grp, n, nd, p1, sym))
            except W.NonIntegral as ex:
                rep.violation("divide:non-integral projection", dict(info, error=str(ex)))
            ndiv_n += 1
    # ---- exclude_equiv_points on random lists with forced equivalences, old and new points
    nex = 0
    tries = 0
    while nex < (200 if thorough else 30) and tries < 20000:
        tries += 1
        grp = rng.choice(names)
        pg = W.pointgroup(grp)
        mats = W.mats_of(grp)
        n = tuple(rng.randint(1, 2) for _ in range(3))
        nd = (2, 2, 2)
        geo = W.FineGeo(n, nd, 1)
        if not W.compatible(geo.U, mats):
            n = (2, 2, 2)
            geo = W.FineGeo(n, nd, 1)
            if not W.compatible(geo.U, mats):
                continue

        def rand_points(m):
            pts = []
            while len(pts) < m:
                c = tuple(rng.randrange(u) for u in geo.U)
                lev = rng.choice([0, 1, 1])
                pts.append((c, lev))
                if rng.random() < 0.6:     # an image of the same point, same or other level
                    pts.append((W.apply_mod(rng.choice(mats), c, geo.U), lev if rng.random() < 0.8 else 1 - lev))
            rng.shuffle(pts)
            return pts[:m]

        def excl(lst, **kw):
            with W.silent():
                exclude_equiv_points(lst, **kw)
        info = dict(group=grp, NKdiv=n, ndiv=nd)
        old = [geo.make_point(c, lev, rng.randint(1, 9), pg) for c, lev in rand_points(rng.randint(0, 5))]
        inp0 = geo.proj_list(old)
        good, _ = guarded(rep, "exclude_equiv_points", dict(info, input=inp0), excl, old)
        if not good:
            nex += 1
            continue
        out0 = geo.proj_list(old)
        if inp0:
            recs.append(dict(fn="exclude", grp=grp, n=list(n), nd=list(nd), L=1, nold=0, inp=[pl(p) for p in inp0], out=[pl(p) for p in out0]))
            nex += 1
        if W.class_weights([(c, l, 1) for c, l, _ in out0], geo.U, mats)[1]:
            continue      # the first call left equivalent points (flagged by its own record): no valid "old" list for the second call
        new = [geo.make_point(c, lev, rng.randint(1, 9), pg) for c, lev in rand_points(rng.randint(1, 6))]
        if old and rng.random() < 0.7:      # a new point equivalent to an old one
            c, lev, _ = out0[rng.randrange(len(out0))]
            new.append(geo.make_point(W.apply_mod(rng.choice(mats), c, geo.U), lev, rng.randint(1, 9), pg))
        lst = old + new
        inp = geo.proj_list(lst)
        good, _ = guarded(rep, "exclude_equiv_points", dict(info, input=inp, new_points=len(new)), excl, lst, new_points=len(new))
        nex += 1
        if not good:
            continue
        recs.append(dict(fn="exclude", grp=grp, n=list(n), nd=list(nd), L=1, nold=len(old), inp=[pl(p) for p in inp], out=[pl(p) for p in geo.proj_list(lst)]))
        rep.case(("rec-exclude", grp, n, tuple(inp)))
    # ---- chains of two refinement steps (the loop of run() on the real classes): second-level refinement, merged points
    #      refined again, exclusion against old points of level >= 1
    nch = 0
    tries = 0
    while nch < (40 if thorough else 6) and tries < 2000:
        tries += 1
        grp = rng.choice(names)
        mats = W.mats_of(grp)
        per = rng.choice([(True, True, True)] * 3 + [(True, True, False)])
        n = tuple(rng.choice([1, 2, 2]) if p else 1 for p in per)
        ndiv = rng.choice([2, 2, 3])
        nd = tuple(ndiv if p else 1 for p in per)
        geo0 = W.FineGeo(n, nd, 2)
        if not W.compatible(n, mats) or not W.compatible(geo0.U, mats) or max(geo0.U) > 40:
            continue
        sym = rng.random() < 0.8
        info = dict(group=grp, NKdiv=n, periodic=per, adpt_mesh=ndiv, use_symmetry=sym)
        try:
            good, res = guarded(rep, "divide+exclude_equiv_points", info, refine_steps, grp, n, per, ndiv, sym, [], 2)
            if not good:
                nch += 1
                continue
            geo, (l0,) = res
            o1 = rng.sample(range(1, len(l0) + 1), min(len(l0), rng.choice([1, 1, 2])))
            good, res = guarded(rep, "divide+exclude_equiv_points", dict(info, refined=[o1]), refine_steps, grp, n, per, ndiv, sym, [o1], 2)
            if not good:
                nch += 1
                continue
            _, (l0, l1) = res
            live1 = [i + 1 for i, p in enumerate(l1) if p[1] == 1 and p[2] > 0 and p[2] % (nd[0] * nd[1] * nd[2]) == 0]
            cand = live1 if live1 and rng.random() < 0.8 else [i + 1 for i, p in enumerate(l1) if p[1] == 0 and p[2] > 0]
            if not cand:
                continue
            o2 = rng.sample(cand, min(len(cand), rng.choice([1, 2])))
            good, res = guarded(rep, "divide+exclude_equiv_points", dict(info, refined=[o1, o2]), refine_steps, grp, n, per, ndiv, sym, [o1, o2], 2)
            if not good:
                nch += 1
                continue
            _, (l0, l1, l2) = res
        except W.NonIntegral as ex:
            rep.violation("divide:non-integral projection", dict(info, error=str(ex)))
            nch += 1
            continue
        except GridRejected as ex:
            rep.violation("Grid:compatible_grid_rejected", dict(info, exception=str(ex)))
            nch += 1
            continue
        recs.append(refine_record(grp, geo, sym, l0, o1, l1, "chain"))
        recs.append(refine_record(grp, geo, sym, l1, o2, l2, "chain"))
        rep.case(("rec-chain", grp, n, per, ndiv, sym, tuple(o1), tuple(o2)))
        nch += 1
    # ---- real run() in 3-D with two adaptive iterations, observed through the hook events of run_grid.py; for the first
    #      worlds followed by restarts from the stored iteration 0 (going back: the K-list file holds points of later
    #      iterations) and from the latest one.  Every K list seen at a StartFresh / StartRestart / UpdateIntegral / Refine
    #      event must be what C06 demands of any K list ("kstate" records + image tiling); every refinement step is a
    #      "refine" record.  The restart histories are a replay-only history class (not enumerated by a TLC model).
    nrun = 0
    hist_counts = dict(fresh=0, restart_going_back=0, restart_latest=0, kstates=0, image_tiling=0)
    wd = workdir(tag + "_run")
    worlds = [("cub_Oh", (2, 2, 2), 2), ("ort_mM2", (2, 1, 2), 2), ("tet_C4v", (2, 2, 1), 2), ("bcc_Oh", (2, 2, 2), 2),
              ("hex_D3d", (1, 1, 2), 3), ("rho_D3d", (1, 1, 1), 3), ("ort_C1", (1, 2, 1), 2), ("fcc_Oh", (1, 1, 1), 2)][:8 if thorough else 4]
    ident = [((1, 0, 0), (0, 1, 0), (0, 0, 1))]
    for iw, (grp, n, ndiv) in enumerate(worlds):
        if grp not in usable or "run() in 3-D" in W.SKIPPED:
            continue
        restarts = (0, -1) if (iw < 2 or (thorough and iw < 4)) else ()
        mats = W.mats_of(grp)
        if not W.compatible(n, mats) or not W.compatible(W.FineGeo(n, (ndiv,) * 3, 3 if restarts else 2).U, mats):
            raise MachineryError(f"run() world {grp} {n} {ndiv} is not compatible")
        for sym in ([True, False] if nrun < 2 or thorough else [True]):
            adpt_fac = rng.choice([1, 2])
            info = dict(group=grp, NKdiv=n, adpt_mesh=ndiv, use_irred_kpt=sym, adpt_num_iter=2, adpt_fac=adpt_fac,
                        then=[f"run(restart=True, restart_iteration={i}, adpt_num_iter=1)" for i in restarts])
            d = os.path.join(wd, f"{grp}_{int(sym)}")
            os.makedirs(d, exist_ok=True)
            try:
                good, res = guarded(rep, "run", info, W.run_refinement, grp, n, ndiv, sym, 2, adpt_fac, seed(), d, restarts)
            except W.PrivateGone as ex:
                W.SKIPPED["run() in 3-D"] = str(ex)[:300]
                break
            except W.NonIntegral as ex:
                rep.violation("run:non-integral projection", dict(info, error=str(ex)))
                continue
            if not good:
                continue
            geo, steps, states = res
            nsteps = {h: sum(1 for s in steps if s["hist"] == h and s["ord"]) for h in ["fresh"] + [f"restart:{i}" for i in restarts]}
            if nsteps["fresh"] != 2 or any(v != 1 for h, v in nsteps.items() if h != "fresh"):
                raise MachineryError(f"run() world {info}: expected two refinement steps and one per restart, got {nsteps}")
            for s in steps:
                recs.append(refine_record(grp, geo, sym, s["before"], s["ord"], s["after"], "run" if s["hist"] == "fresh" else "run_restart"))
            gm = mats if sym else ident
            for stt in states:
                cls = {"fresh": "fresh", "restart:0": "restart_going_back", "restart:-1": "restart_latest"}[stt["hist"]]
                hist_counts[cls] += 1
                hist_counts["kstates"] += 1
                if cls != "fresh" or stt["event"] == "Refine":      # (the other lists of a fresh run are the `before` lists of its refine records)
                    recs.append(dict(fn="kstate", grp=grp, n=list(geo.n), nd=list(geo.nd), L=geo.L, sym=sym, kl=[pl(p) for p in stt["kl"]],
                                     source=f"{cls}:{stt['event']}"))
                # the live cells (and their images) tile the zone: refined-away parents are dead while their children live
                if W.box_preserving(gm):
                    hist_counts["image_tiling"] += 1
                    why = geo.images_tile(stt["kl"], gm)
                    if why:
                        rep.violation(f"run:{cls}:image_cells_do_not_tile", dict(info, history=stt["hist"], event=stt["event"], why=why, K_list=stt["kl"][:60],
                                                                                  sum_of_weights=sum(p[2] for p in stt["kl"]), one=geo.WOne))
            rep.case(("rec-run", grp, n, ndiv, sym, adpt_fac, restarts))
            nrun += 1
    shutil.rmtree(wd, ignore_errors=True)
    if "run() in 3-D" not in W.SKIPPED:
        vacuity(rep, "run() histories", hist_counts, ["fresh", "restart_going_back", "restart_latest", "image_tiling"])
    rep.part("run_histories", **hist_counts)
    # ---- KpointBZtetra.divide (ndiv 2 and 3, refine / split, also called as run() calls it) on tetrahedra of real grids
    ntet = 0
    pools = {}
    tries = 0
    while ntet < (120 if thorough else 16) and tries < 20000:
        tries += 1
        metric = rng.choice(["cub", "tet", "ort"])
        if metric not in pools:
            g, syst = real_tetra_grid(metric)
            f = W.gram_scale(metric, syst.recip_lattice)
            with W.silent():
                g.split_tetra_size(dkmax_of(2 * (int(max_len2(metric) * 3) // 8) + 1, f))
            pools[metric] = (tlist(g), syst)
        kl, syst = pools[metric]
        K = rng.choice(kl).copy()
        try:
            p = W.tet_proj(K, S_T, WT_T)
        except W.NonIntegral:
            continue
        ndiv = rng.choice([2, 3])
        refine = rng.random() < 0.5
        as_run = rng.random() < 0.35
        if not splittable(p, ndiv, metric) or not lengths_separated([p], metric):
            continue
        info = dict(metric=metric, parent=p, ndiv=ndiv, refine=refine, called_as_run_does=as_run)
        if as_run:      # run(): K_list[iK].divide(ndiv=adpt_mesh (array), periodic=system.periodic, use_symmetry=...)
            refine = True
            good, ch = guarded(rep, "KpointBZtetra.divide", info, K.divide, ndiv=np.array([ndiv] * 3), periodic=np.array([True] * 3), use_symmetry=True)
        else:
            good, ch = guarded(rep, "KpointBZtetra.divide", info, K.divide, ndiv=ndiv, refine=refine)
        ntet += 1
        if not good:
            continue
        fb = []
        check_split(rep, info, K, p, ch, None, metric, ndiv, refine, fb)
        recs += [r for _, _, r in fb]
        rep.case(("rec-tsplit", metric, p, ndiv, refine))
    # ---- GridTetra / GridTrigonal through the constructor with random thresholds
    for _ in range(24 if thorough else 6):
        metric = rng.choice(["cub", "tet", "ort", "hex", "hex120"])
        f = W.gram_scale(metric, W.tetra_system(metric).recip_lattice)
        tv2 = 2 * rng.randint(start_vol6(metric) // 5, start_vol6(metric) * 2) + 1
        ts2 = 2 * rng.randint(int(max_len2(metric) * 0.3), int(max_len2(metric) * 1.2)) + 1
        info = dict(metric=metric, vmax=vmax_of(tv2), dkmax=dkmax_of(ts2, f))
        good, g = guarded(rep, "GridTetra.__init__", info, tetra_by_constructor, metric, tv2, ts2, f)
        if not good:
            continue
        Ks = tlist(g)
        why = W.tets_float_check(Ks, cell_volume(metric))
        if why:
            rep.violation("GridTetra.__init__:weights_volumes", dict(info, why=why))
            continue
        try:
            out = [W.tet_proj(K, S_T, WT_T) for K in Ks]
        except W.NonIntegral:
            note("GridTetra.__init__:not_on_the_integer_lattice_(float_clauses_only)")
            continue
        recs.append(tgrid_record(metric, tv2, ts2, out))
        rep.case(("rec-tgrid", metric, tv2, ts2))
    return recs


def tl(t):
    return [[list(p) for p in t[0]], t[1], t[2], t[3]]


_START = {}


def start_tets(metric):
    """starting tetrahedra of the real grid, projected"""
    if metric not in _START:
        g, _ = real_tetra_grid(metric)
        _START[metric] = [W.tet_proj(K, S_T, WT_T) for K in tlist(g)]
    return _START[metric]


def start_vol6(metric):
    def vol6(v):
        a = np.array(v, dtype=np.int64)
        return abs(int(round(np.linalg.det((a[1:] - a[0]).astype(float)))))
    return max(vol6(t[0]) for t in start_tets(metric))


def max_len2(metric):
    G = np.array(W.GRAMS[metric])
    return max(len2(t[0], a, b, G) for t in start_tets(metric) for a, b in EDGES)


def splittable(p, ndiv, metric):
    G = np.array(W.GRAMS[metric])
    L = [len2(p[0], a, b, G) for a, b in EDGES]
    a, b = EDGES[L.index(max(L))]
    return all(int(x) % ndiv == 0 for x in (np.array(p[0][b]) - np.array(p[0][a]))) and p[1] % ndiv == 0


def corrupted_records(recs):
    """one corrupted copy per kind of record, with the clause that must reject it"""
    badrecs = []

    def pick(pred):
        for r in recs:
            if pred(r):
                return copy.deepcopy(r)
        return None
    r = pick(lambda r: r["fn"] == "klist" and r["ok"] and len(r["out"]) > 1)
    if r:
        r["out"][-1][3] += 1
        badrecs.append((r, "sum_to_one"))
    r = pick(lambda r: r["fn"] == "klist" and r["ok"] and r["sym"] and 1 < len(r["out"]) < r["n"][0] * r["n"][1] * r["n"][2])
    if r:      # a retained point replaced by another one: an orbit twice, another one lost
        r["out"][-1][:3] = r["out"][0][:3]
        badrecs.append((r, "same_up_to_symmetry"))
    r = pick(lambda r: r["fn"] == "divide" and len(r["out"]) > 1)
    if r:
        r["out"][0][0] = (r["out"][0][0] + 1) % (2 * r["n"][0] * r["nd"][0] ** r["L"])
        badrecs.append((r, "same_up_to_symmetry"))
    r = pick(lambda r: r["fn"] == "exclude" and len(r["out"]) < len(r["inp"]))
    if r:
        r["out"][0][4] -= 1
        badrecs.append((r, "weight_kept"))
    r = pick(lambda r: r["fn"] == "refine" and r["sym"] and len(r["after"]) > len(r["before"]))
    if r:
        r["after"][-1][4] += 1
        badrecs.append((r, "weight_kept"))
    r = pick(lambda r: r["fn"] == "kstate" and len(r["kl"]) > 1)
    if r:
        r["kl"][-1][4] += 1
        badrecs.append((r, "sum_to_one"))
    r = pick(lambda r: r["fn"] == "tsplit")
    if r:
        r["out"][0][1] += 1
        badrecs.append((r, "split_exact"))
    r = pick(lambda r: r["fn"] == "tgrid" and len(r["out"]) > 3)
    if r:
        del r["out"][-1]
        badrecs.append((r, "volume_kept"))
    return badrecs


# ------------------------------------------------------------------------------------------------------------------
def check(pid, tier):
    rep = Report(pid, tier, "model_checking")
    tag = f"c06_{os.getpid()}"
    INFO.clear()
    W.SKIPPED.clear()
    try:
        rc = _check(rep, tier, tag)
    except Exception as ex:
        if rep.violations:      # never lose the violations already collected
            print(f"[C06] the check stopped early ({type(ex).__name__}: {str(ex)[:300]}); reporting the violations collected so far")
            try:
                return rep.finish()
            except Exception:
                pass
        raise
    if rc == 0:      # scratch of this process (names carry the pid); kept for inspection after a violation
        for d in glob.glob(os.path.join(WORK, "tlc", f"*{tag}*")) + glob.glob(os.path.join(WORK, "records", f"{tag}*")) + glob.glob(os.path.join(WORK, f"{tag}*")):
            shutil.rmtree(d, ignore_errors=True)
    return rc


def _check(rep, tier, tag):
    thorough = tier == "thorough"
    if "-Xss" not in os.environ.get("JAVA_TOOL_OPTIONS", ""):      # also for the record validation (ftable passes the environment on)
        os.environ["JAVA_TOOL_OPTIONS"] = (os.environ.get("JAVA_TOOL_OPTIONS", "") + " -Xss64m").strip()
    rng = random.Random(seed() * 7919 + 6)
    rep.rule("TLC enumerates every (group of the catalogue, grid size, use_symmetry), every refinement step (group, grid, periodic mask, "
             "adpt_mesh, one or two refined points), every exclusion order for short K lists and every tetrahedral run (metric, thresholds) "
             "inside the constants; a case = one TLC state (or split) of a seeded sample replayed on the real code with exact integer comparison "
             "up to symmetry, plus seeded random recorded calls, refinement chains and real run() executions validated by TLC; distinct by input tuple")
    rep.assume("k-points, vertices and weights are compared as integers after rounding with verified integrality (tolerance 1e-7, tetrahedra 1e-6)")
    rep.assume("thresholds of split_tetra_volume/size never equal an attained volume/size (odd numerators) in the models and replays that carry the claim")
    rep.assume("edge lengths of the replayed tetrahedra are either exactly tied or separated by > 1e-4 (the code's tie tolerance is 1e-6)")
    rep.assume("exclude_equiv_points: equivalent points share a distance group (the group operations are isometries of the reciprocal lattice) "
               "and the old points are pairwise inequivalent (established by the previous call)")
    nw = 4
    groups_cfg = "SPECIFICATION Spec\nINVARIANT GroupAxioms\nINVARIANT CrystallographicOrder\nINVARIANT OrthogonalAreBox\nCHECK_DEADLOCK FALSE\n"
    if thorough:
        sizes_div = [111, 211, 121, 221, 222, 311, 331, 322, 333]
        jobs = {
            "groups": ("MC_KMeshGroups.tla", groups_cfg, True),
            "grid_loop": ("MC_KMeshGrid.tla", cfg_grid(4, True), False),
            "grid_tab": ("MC_KMeshGridTab.tla", cfg_grid(6, False), True),
            "divide": ("MC_KMeshDivide.tla", cfg_divide(None, sizes_div, [111, 110, 100, 11], [2, 3], 4, None, False, False), True),
            "divide_fullsamples": ("MC_KMeshDivide.tla", cfg_divide(["cub_Oh", "cub_T", "tet_D4h", "tet_S4", "ort_D2h", "ort_C2v", "rho_D3d"], [111, 211, 221, 222], [111, 110], [2, 3], 4,
                                                                    None, True, False), False),
            "excl": ("MC_KMeshExcl.tla", cfg_excl(4, 5, False), False),
            "tetra": ("MC_KMeshTetra.tla", cfg_tetra(["cub", "tet", "ort"], [9, 4, 2, 1], [9, 6, 4, 3, 2], 6, False), True),
            # the trigonal wedges with 4 samples per direction (6 per direction puts samples on face planes: invariant Embedding)
            "tetra_trig": ("MC_KMeshTetra.tla", cfg_tetra(["hex", "hex120"], [9, 4, 2, 1], [9, 6, 4, 3, 2], 4, False), True),
        }
        ngrid, ndivr, nsplit, ntile = 9000, 3000, 1500, 400
    else:
        jobs = {
            "groups": ("MC_KMeshGroups.tla", groups_cfg, True),
            "grid_loop": ("MC_KMeshGrid.tla", cfg_grid(3, True, QUICK_LOOP_NAMES), False),
            "grid_tab": ("MC_KMeshGridTab.tla", cfg_grid(4, False), True),
            "divide": ("MC_KMeshDivide.tla", cfg_divide(QUICK_DIV_NAMES, [111, 211, 221, 222], [111, 110, 100], [2, 3], 3,
                                                        ["cub_Oh", "cub_T", "tet_D4h", "tet_S4", "ort_D2h", "ort_mM2", "rho_D3d"], False, False), True),
            "excl": ("MC_KMeshExcl.tla", cfg_excl(3, 4, False), False),
            "tetra": ("MC_KMeshTetra.tla", cfg_tetra(["cub", "ort", "hex", "hex120"], [9, 2], [9, 4, 2], 4, False), True),
        }
        ngrid, ndivr, nsplit, ntile = 600, 200, 100, 40
    # sensitivity self-tests: plausible wrong variants that TLC must reject
    jobs["divide_v0"] = ("MC_KMeshDivide.tla", cfg_divide(["ort_D2h", "tet_C4v"], [111, 211], [111, 100], [2, 3], 0, [], False, True), False)
    jobs["excl_v0"] = ("MC_KMeshExcl.tla", cfg_excl(2, 3, True), False)
    jobs["tetra_v0"] = ("MC_KMeshTetra.tla", cfg_tetra(["cub"], [2], [9], 4, True), False)
    # thresholds equal to an attained value: does the real loop return?  Termination is NOT part of C06: information only.
    import wannierberri  # noqa: F401  (lazy: costs seconds)
    probes = {(m, w): stall_probe(m, w) for m, w in ([("cub", "size"), ("cub", "volume"), ("ort", "size"), ("ort", "volume")] if thorough else [("cub", "size"), ("ort", "volume")])}
    stalls = [k_ for k_, v in probes.items() if v == "stalls"]
    jobs["tetra_eq"] = ("MC_KMeshTetra.tla", cfg_tetra(["cub", "ort"] if thorough else ["cub"], [8, 4] if thorough else [8], [8, 4] if thorough else [8], 4, False,
                                                      even=True, breakeq=not stalls), False)
    res = run_jobs(jobs, nw, tag)
    st_eq = res.pop("tetra_eq")
    obs = dict(what="split_tetra_size(dkmax) / split_tetra_volume(vmax) with the threshold equal to the largest attained size / volume "
                    "(termination is not part of the C06 statement: reported for information, never as a violation)",
               probes={f"{m}:{w}": v for (m, w), v in probes.items()},
               model="loops as written (break only if max < threshold)" if stalls else "break if max <= threshold",
               tlc_result=(st_eq["violation"][1] if st_eq.get("violation") else "no violation"), tlc_states=st_eq.get("distinct"))
    if stalls:
        obs["explanation"] = ("the loop ends only if max < threshold but splits only tetrahedra with value > threshold: at equality the K list is "
                              "identical in every iteration and the call never returns (TLC: invariant NoStall / Termination of MC_KMeshTetra violated "
                              "for even thresholds)")
        obs["minimal_example"] = "GridTetra(system with real_lattice = eye(3), length = 2.0, NKFFT = 1) does not return"
        obs["minimal_example_stalls"] = constructor_stall_example()
        obs["model_agrees_with_code"] = bool(st_eq.get("violation")) and st_eq["violation"][1] in ("NoStall", "Termination")
    else:
        obs["model_agrees_with_code"] = not st_eq.get("violation")
    rep.part("observation_outside_C06", **obs)
    must_fail(rep, res.pop("divide_v0"), "c06_divide_v0", ("SubcellsTile", "MergeKeepsWeight"))
    must_fail(rep, res.pop("excl_v0"), "c06_excl_v0", ("LoopEqualsDeclarative", "WeightKept", "Lossless"))
    must_fail(rep, res.pop("tetra_v0"), "c06_tetra_v0", ("WeightKept", "WeightByVolume", "SplitsOK"))
    specbad = False
    for name, st in res.items():
        specbad |= bool(ftable.spec_violation(rep, st, "c06_" + name))
        rep.add_tlc("c06_" + name, st)
    if specbad:
        return rep.finish()
    tlc.check_not_vacuous(res["grid_loop"], ["Create", "LoopBody", "LoopEnd", "DoFlatten"], "c06_grid_loop")
    tlc.check_not_vacuous(res["grid_tab"], ["Call"], "c06_grid_tab")
    tlc.check_not_vacuous(res["divide"], ["GetKList"], "c06_divide")   # Refine sits under \E: TLC reports it as a sub-action of Next; replay_divide requires "done" states in the dump
    tlc.check_not_vacuous(res["excl"], ["Call"], "c06_excl")
    tlc.check_not_vacuous(res["tetra"], ["VolRound", "VolEnd", "SizRound", "SizEnd"], "c06_tetra")

    def optional(what, fn, *a):
        """a sub-check that needs an internal name of the package which is gone is skipped, not failed"""
        try:
            fn(*a)
        except W.PrivateGone as ex:
            W.SKIPPED[what] = str(ex)[:300]

    usable = bind_catalogue(rep, res["groups"])
    fallback = []
    if usable is None:
        usable = set()
    else:
        optional("replay of Grid.get_K_list", replay_grid, rep, res["grid_tab"], rng, ngrid, usable)
        optional("replay of refinement steps", replay_divide, rep, res["divide"], rng, ndivr, usable, ntile, fallback)
    optional("replay of tetrahedral grids", replay_tetra, rep, res["tetra"], rng, nsplit, fallback)
    if "tetra_trig" in res:
        tlc.check_not_vacuous(res["tetra_trig"], ["VolRound", "VolEnd", "SizRound", "SizEnd"], "c06_tetra_trig")
        optional("replay of tetrahedral grids", replay_tetra, rep, res["tetra_trig"], rng, nsplit, fallback)

    # ---------------- code -> spec
    recs = []
    if usable:
        optional("recorded calls (partly)", record_calls, rep, rng, thorough, usable, tag, recs)
    nown = len(recs)
    recs += [r for _, _, r in fallback]
    # binding self-test: corrupted copies of recorded calls must be rejected (validated in the same TLC run)
    badrecs = corrupted_records(recs[:nown])
    if len(badrecs) < 5 and not rep.violations and usable and not W.SKIPPED:
        raise MachineryError(f"binding self-test: only {len(badrecs)} kinds of records to corrupt")
    stv, bad = ftable.validate_records("KMeshRec.tla", ftable.REC_CFG, recs + [b for b, _ in badrecs], tag, chunk=1000)
    b2 = {j: bad.pop(len(recs) + j, []) for j in range(len(badrecs))}
    stv["distinct"] -= len(badrecs)          # the corrupted copies are not evidence
    stv["generated"] -= 2 * len(badrecs)
    rep.add_tlc("c06_records", stv)
    rep.add_traces(len(recs))
    fnname = dict(klist="Grid.get_K_list", divide="KpointBZparallel.divide", exclude="exclude_equiv_points", refine="refinement_step", kstate="K_list",
                  tsplit="KpointBZtetra.divide", tgrid="GridTetra.__init__")
    outside = []
    rinfo = {}
    for i, clauses in sorted(bad.items()):
        r = recs[i]
        for c in clauses:
            if c.startswith("info_"):
                rinfo[f"{r['fn']}:{c}"] = rinfo.get(f"{r['fn']}:{c}", 0) + 1
        hard = [c for c in clauses if not c.startswith("info_")]
        if not hard:
            continue
        if "in_model" in hard:
            outside.append((i, hard))
            continue
        if i >= nown:
            site, info, _ = fallback[i - nown]
            rep.violation(f"{site}:property_clauses_on_the_real_list", dict(info, record=r, failing_clauses=hard))
        else:
            src = str(r.get("source", ""))
            site = fnname[r["fn"]] + (":run" if src.startswith("run") else "") + (":run:" + src.split(":")[0] if r["fn"] == "kstate" else "")
            rep.violation(f"{site}:recorded:{hard[0]}", dict(record=r, failing_clauses=hard))
    if outside and not rep.violations:
        raise MachineryError(f"recorded call outside the model: {outside[:3]} {str(recs[outside[0][0]])[:300]}")
    kinds = {}
    for r in recs[:nown]:
        k_ = r["fn"] + (":" + r["source"].split(":")[0] if "source" in r else "")
        kinds[k_] = kinds.get(k_, 0) + 1
    if usable and "recorded calls (partly)" not in W.SKIPPED:
        need = ["klist", "divide", "exclude", "refine:chain", "tsplit", "tgrid"] + ([] if "run() in 3-D" in W.SKIPPED else ["refine:run", "refine:run_restart", "kstate:restart_going_back", "kstate:restart_latest"])
        vacuity(rep, "records", kinds, need)
    rep.part("records", **kinds, fallback_records=len(fallback))
    rep.part("records_info", **rinfo)
    rep.part("conformance_info", **INFO)
    if W.SKIPPED:
        rep.part("skipped_private", **W.SKIPPED)
    for r in recs:
        if r["fn"] == "divide" and len(r["out"]) > 1:
            rep.sample(r)
            break
    if badrecs:
        missed = [(b["fn"], c) for j, (b, c) in enumerate(badrecs) if c not in b2.get(j, [])]
        if missed and not rep.violations:
            raise MachineryError(f"binding self-test failed: corrupted records accepted: {missed} (TLC: {b2})")
        rep.part("binding_selftest", corrupted_records_rejected={str(k_): [c for c in v if not c.startswith("info_")] for k_, v in b2.items()})
    return rep.finish()
