"""C15: degenerate multiplets are never split.

spec  : Bands.tla (declarative), MC_BandsBorders (every input = one state), MC_BandsWindow (select_window_degen as its
        two scanning loops, checked against the declarative meaning by TLC)
bind  : every TLC state is replayed on get_borders / find_degen / get_bands_in_range / get_bands_below_range /
        Data_K.get_bands_in_range_groups / select_window_degen / Tabulator; seeded random calls of the same functions
        (longer arrays, larger values) are recorded and validated by TLC against BandsRec.tla
"""
import random
import numpy as np

from .. import tlc, ftable
from ..common import Report, MachineryError, seed, quiet

PROPS = {
    "C15": dict(level="model_checking",
                technique="TLC exhaustive on Bands.tla (loop-level transcription of select_window_degen vs declarative multiplet semantics; all sorted arrays) + replay of every TLC state on the real functions + TLC validation of recorded calls",
                text="TLC enumerates every sorted integer energy array (<=6 bands), threshold, Kramers flag and window and checks the block/"
                     "window properties on the specification; each enumerated input is executed on the real get_borders, find_degen, "
                     "get_bands_in_range(_groups), get_bands_below_range, select_window_degen and Tabulator and compared exactly; random "
                     "larger inputs are recorded from the real functions and every clause of BandsRec is evaluated on them by TLC.",
                note="energies are integers times 1/8 (exact in binary floating point); Kramers mode is exercised on paired input only (DESIGN.md 7.2)",
                ref="DESIGN.md 3.5"),
}

UNIT = 0.125


def groups_of(code_groups):
    return tuple((int(a), int(b)) for a, b in code_groups)


def call_borders(E, th, kr):
    from wannierberri.grid.tetrahedron import get_borders
    return groups_of(get_borders(np.array(E, dtype=float) * UNIT, th * UNIT, degen_Kramers=kr))


def call_window(E, th, lo, hi, incl):
    from wannierberri.utility import select_window_degen
    r = select_window_degen(np.array(E, dtype=float) * UNIT, thresh=th * UNIT, win_min=lo * UNIT, win_max=hi * UNIT,
                            include_degen=incl, return_indices=True)
    m = select_window_degen(np.array(E, dtype=float) * UNIT, thresh=th * UNIT, win_min=lo * UNIT, win_max=hi * UNIT,
                            include_degen=incl, return_indices=False)
    return sorted(int(x) for x in r), sorted(int(x) for x in np.where(m)[0])


class DuckDataK:
    def __init__(self, Ek):
        self.E_K = np.array(Ek, dtype=float) * UNIT
        self.nk = self.E_K.shape[0]
        self.num_wann = self.E_K.shape[1]

    def get_bands_in_range_groups_ik(self, *a, **kw):
        from wannierberri.data_K.data_K import Data_K
        return Data_K.get_bands_in_range_groups_ik(self, *a, **kw)

    def get_bands_in_range_groups(self, *a, **kw):
        from wannierberri.data_K.data_K import Data_K
        return Data_K.get_bands_in_range_groups(self, *a, **kw)


class BandFormula:
    """formula whose trace over a set of bands is the sum of integer band values"""
    ndim = 0
    transformTR = None
    transformInv = None

    def __init__(self, data_K, vals=None):
        self.vals = vals

    def trace(self, ik, inn, out):
        return float(sum(self.vals[ik][b] for b in inn))


def call_tabulator(Ek, vals, th, kr):
    from wannierberri.calculators.tabulate import Tabulator
    tab = Tabulator(BandFormula, kwargs_formula=dict(vals=vals), degen_thresh=th * UNIT, degen_Kramers=kr)
    res = tab(DuckDataK(Ek))
    return res.data


def check(pid, tier):
    rep = Report(pid, tier, "model_checking")
    thorough = tier == "thorough"
    rng = random.Random(seed() * 7919 + 15)
    from wannierberri.utility import find_degen
    from wannierberri.grid.tetrahedron import get_bands_in_range, get_bands_below_range
    rep.rule("TLC enumerates all sorted integer energy arrays within (NB, EMAX, thresholds, windows); a case = one TLC state replayed "
             "on the real functions (exact comparison), plus seeded random recorded calls validated by TLC; distinct by input tuple")
    rep.assume("energies/thresholds/windows are integer multiples of 1/8, so float comparisons in the code are exact")

    # ---------------- spec: borders
    nb, emax = (7, 4) if thorough else (6, 3)
    cfg = f"SPECIFICATION Spec\nCONSTANTS\n  NB = {nb}\n  EMAX = {emax}\n  THS = {{0, 1, 2}}\n" + \
          "".join(f"INVARIANT {i}\n" for i in ("GroupsPartition", "GroupsInternal", "GroupsBoundary", "GroupsKramers", "InRangeSubset")) + \
          "CHECK_DEADLOCK FALSE\n"
    st = ftable.enumerate_states("MC_BandsBorders.tla", cfg, "c15_borders")
    ftable.spec_violation(rep, st, "c15_borders")
    rep.add_tlc("c15_borders", st)
    nst = 0
    for s in ftable.dump_states(st):
        nst += 1
        E, th, kr = list(s["E"]), s["th"], s["kr"]
        exp = tuple((a, b) for a, b in s["groups"])
        key = ("borders", tuple(E), th, kr, s["emin"], s["emax"])
        rep.case(key, nontrivial=len(set(E)) < len(E) or len(E) > 1)
        got = call_borders(E, th, kr)
        if got != exp:
            rep.violation("get_borders:" + ("kramers" if kr else "plain"), dict(E=E, th=th, kramers=kr, expected=exp, got=got, unit=UNIT))
        if not kr:
            got2 = groups_of(find_degen(np.array(E, dtype=float) * UNIT, th * UNIT))
            if got2 != exp:
                rep.violation("find_degen", dict(E=E, th=th, expected=exp, got=got2))
        expin = tuple((a, b) for a, b in s["inrange"])
        gotin = groups_of(get_bands_in_range(s["emin"] * UNIT, s["emax"] * UNIT, np.array(E, dtype=float) * UNIT, degen_thresh=th * UNIT, degen_Kramers=kr))
        if gotin != expin:
            rep.violation("get_bands_in_range", dict(E=E, th=th, kramers=kr, emin=s["emin"], emax=s["emax"], expected=expin, got=gotin))
        d = DuckDataK([E])
        gk = tuple(sorted(d.get_bands_in_range_groups(s["emin"] * UNIT, s["emax"] * UNIT, degen_thresh=th * UNIT, degen_Kramers=kr)[0].keys()))
        if gk != tuple(sorted(expin)):
            rep.violation("Data_K.get_bands_in_range_groups", dict(E=E, th=th, kramers=kr, expected=expin, got=gk))
        gb = int(get_bands_below_range(s["emin"] * UNIT, np.array(E, dtype=float) * UNIT))
        if gb != s["below"]:
            rep.violation("get_bands_below_range", dict(E=E, emin=s["emin"], expected=s["below"], got=gb))
        if nst <= 2:
            rep.sample(dict(fn="get_borders", E=E, th=th, kramers=kr, groups=exp))
    if nst != st["distinct"]:
        raise MachineryError(f"dump has {nst} states, TLC reported {st['distinct']}")

    # ---------------- spec: window loops
    nbw, emw = (6, 4) if thorough else (5, 3)
    wcfg = lambda whole: (f"SPECIFICATION Spec\nCONSTANTS\n  NB = {nbw}\n  EMAX = {emw}\n  THS = {{1, 2}}\n  WholeMultiplet = {'TRUE' if whole else 'FALSE'}\n"
                          "INVARIANT WindowNeverSplits\nINVARIANT WindowMeaning\nINVARIANT WindowMonotone\nCHECK_DEADLOCK FALSE\n")
    st = ftable.enumerate_states("MC_BandsWindow.tla", wcfg(True), "c15_window")
    ftable.spec_violation(rep, st, "c15_window")
    tlc.check_not_vacuous(st, ["Start", "Up", "Down"], "c15_window")
    rep.add_tlc("c15_window", st)
    # sensitivity: the model of the code before the repair must violate the property
    st0 = tlc.run_tlc("MC_BandsWindow.tla", wcfg(False), "c15_window_v0", timeout=900)
    if not st0.get("violation"):
        raise MachineryError("sensitivity self-test failed: MC_BandsWindow with WholeMultiplet=FALSE should violate WindowNeverSplits")
    rep.part("c15_window_v0", sensitivity_violation=st0["violation"][1])
    nw = 0
    for s in ftable.dump_states(st):
        if s["pc"] != "done":
            continue
        nw += 1
        E = list(s["E"])
        exp = sorted(j for j, v in enumerate(s["inside"]) if v)
        args = dict(E=E, th=s["th"], lo=s["lo"], hi=s["hi"], incl=s["incl"])
        rep.case(("window",) + tuple(sorted((k, tuple(v) if isinstance(v, list) else v) for k, v in args.items())),
                 nontrivial=len(exp) > 0)
        got, gotmask = call_window(**args)
        if got != exp or gotmask != exp:
            cut_size = "pair" if len(E) < 3 else "multiplet"
            rep.violation("select_window_degen:" + ("include" if s["incl"] else "exclude"),
                          dict(args, unit=UNIT, expected=exp, got_indices=got, got_mask=gotmask))
        if nw <= 2:
            rep.sample(dict(fn="select_window_degen", **args, inside=exp))
    if nw == 0:
        raise MachineryError("no finished window case in the dump")

    # ---------------- code -> spec : recorded calls validated by TLC
    recs = []
    nrec = 3000 if thorough else 600
    for _ in range(nrec):
        n = rng.randint(1, 12)
        E = sorted(rng.choice([0, 0, 1, 1, 2, 3, 5, 8]) + rng.randint(0, 3) * rng.randint(0, 4) for _ in range(n))
        th = rng.choice([0, 1, 2, 3])
        r = rng.random()
        if r < 0.3:
            kr = rng.random() < 0.4
            if kr:
                half = E[:max(1, n // 2)]
                E = sorted(half + [e + rng.randint(0, th) for e in half])
                E = [x for p in zip(sorted(half), sorted(half)) for x in p] if rng.random() < 0.5 else E
                if len(E) % 2 or any(E[2 * k + 1] - E[2 * k] > th for k in range(len(E) // 2)):
                    kr = False
            recs.append(dict(fn="borders", E=E, th=th, kr=kr, out=[list(g) for g in call_borders(E, th, kr)]))
        elif r < 0.75:
            lo = rng.randint(-1, max(E) + 1)
            hi = rng.randint(lo, max(E) + 1)
            incl = rng.random() < 0.5
            thw = rng.choice([1, 2, 3])
            got, gotmask = call_window(E, thw, lo, hi, incl)
            if got != gotmask:
                rep.violation("select_window_degen:mask_vs_indices", dict(E=E, th=thw, lo=lo, hi=hi, incl=incl, got=got, mask=gotmask))
            recs.append(dict(fn="window", E=E, th=thw, lo=lo, hi=hi, incl=incl, out=got))
        elif r < 0.85:
            emin = rng.randint(-1, max(E) + 1)
            emax = rng.randint(emin, max(E) + 1)
            out = groups_of(get_bands_in_range(emin * UNIT, emax * UNIT, np.array(E, dtype=float) * UNIT, degen_thresh=th * UNIT))
            recs.append(dict(fn="inrange", E=E, th=th, kr=False, emin=emin, emax=emax, out=[list(g) for g in out]))
        else:
            vals = [27720 * rng.randint(-3, 3) for _ in E]
            data = call_tabulator([E], [vals], th, False)
            v = [x for x in data[0]]
            if any(abs(x - round(x)) > 1e-9 for x in v):
                rep.violation("Tabulator:nonintegral", dict(E=E, vals=vals, th=th, got=[float(x) for x in v]))
                continue
            g = call_borders(E, th, False)
            recs.append(dict(fn="tab", E=E, th=th, groups=[list(x) for x in g], vals=[int(round(x)) for x in v],
                             tr=[sum(vals[a:b]) for a, b in g]))
        rep.case(("rec", recs[-1]["fn"], tuple(E), th, len(recs)))
    stv, bad = ftable.validate_records("BandsRec.tla", ftable.REC_CFG, recs, "c15")
    rep.add_tlc("c15_records", stv)
    rep.add_traces(len(recs))
    for i, clauses in bad.items():
        r = recs[i]
        sub = ""
        if r["fn"] == "window":
            sub = ":include" if r["incl"] else ":exclude"
        fnname = {"borders": "get_borders", "window": "select_window_degen", "inrange": "get_bands_in_range", "tab": "Tabulator"}[r["fn"]]
        rep.violation(f"{fnname}{sub}" if r["fn"] == "window" else f"{fnname}:recorded", dict(record=r, failing_clauses=clauses, unit=UNIT))
    rep.sample(recs[0])
    # binding self-test: a corrupted record must be reported
    import copy
    badrec = copy.deepcopy([r for r in recs if r["fn"] == "borders" and len(r["out"]) > 1][:1])
    if badrec:
        badrec[0]["out"] = badrec[0]["out"][:-1]
        _, b2 = ftable.validate_records("BandsRec.tla", ftable.REC_CFG, badrec, "c15_selftest")
        if 0 not in b2:
            raise MachineryError("binding self-test failed: corrupted get_borders record accepted")
        rep.part("binding_selftest", corrupted_record_rejected=b2[0])
    return rep.finish()
