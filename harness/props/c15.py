"""C15: degenerate multiplets are never split.

spec  : Bands.tla (declarative), MC_BandsBorders (every input = one state), MC_BandsWindow (select_window_degen as its
        two scanning loops, checked against the declarative meaning by TLC; empty / inverted windows included)
bind  : spec -> code: every TLC state is replayed on get_borders, Data_K.get_bands_in_range_groups, get_bands_in_range,
        the Tabulator (two k-points, band subsets, Kramers) and select_window_degen; the frozen / outer window wiring of
        wannierise is observed through a recording wrapper; code -> spec: seeded random calls (longer arrays, negative
        energies, odd thresholds, integer arrays) are recorded and validated by TLC against BandsRec.tla
"""
import copy
import random
import numpy as np

from .. import tlc, ftable
from ..common import Report, MachineryError, seed, quiet
from ._c1314_util import (lib_call, run_parts, PrivateGone, skipped_private, DuckDataKBase, enumerate_states, run_tlc,
                          validate_records, Guard)

PROPS = {
    "C15": dict(level="model_checking",
                technique="TLC exhaustive on Bands.tla (loop-level transcription of select_window_degen vs declarative multiplet semantics; all "
                          "sorted arrays) + replay of every TLC state on the real functions + TLC validation of recorded calls",
                text="TLC enumerates every sorted integer energy array (quick: <=6 bands for the groups, <=5 for the windows; thorough 7 / 6), "
                     "threshold, Kramers flag and window (also the empty default window and an inverted one) and checks the block / window "
                     "properties on the specification. Every enumerated grouping input is executed on get_borders and Data_K."
                     "get_bands_in_range_groups (groups compared as sets), get_bands_in_range (whole groups, all groups strictly inside the "
                     "range, none strictly outside: the open/closed ends of the range are not demanded) and, once per (array, threshold, "
                     "Kramers), on the real Tabulator with a synthetic formula (two k-points, a seeded subset of bands) judged against the "
                     "block averages of the specification's groups; every finished window state on select_window_degen (both return modes, "
                     "the empty window also with the default arguments). wannierise is run on a stub up to its two window selections and "
                     "the recorded masks are validated by TLC (frozen: exclude, outer: include). Random larger inputs (<=16 bands, negative "
                     "energies, thresholds in half units, integer arrays) are recorded from the real functions and every clause of BandsRec "
                     "is evaluated on them by TLC.",
                note="energies are integers times 1/8 (replays) or 1/16 (records), exact in binary floating point. Kramers mode is exercised on "
                     "paired input (DESIGN.md 7.2) with even and odd numbers of bands: the blocks partition all bands, boundaries are even "
                     "except the final one; the behaviour before repair 69ca1f4e (odd final border dropped, last band in no group) is the "
                     "must-fail model variant DropOddFinalBorder. find_degen (used for shells of b-vectors only) and get_bands_below_range (strictness at a tie) "
                     "are compared for information only (parts find_degen_info / below_range_info). Sub-checks that need private names which "
                     "have disappeared are skipped and listed in the part skipped_private.",
                ref="DESIGN.md 3.5"),
}

UNIT = 0.125
UNIT_REC = 0.0625


def groups_of(code_groups):
    return tuple(sorted((int(a), int(b)) for a, b in code_groups))


def private(modname, name):
    """guarded adapter for helper functions that a refactoring may rename"""
    import importlib
    try:
        return getattr(importlib.import_module(modname), name)
    except (ImportError, AttributeError) as ex:
        raise PrivateGone(f"{modname}.{name}: {ex}") from None


def call_borders(E, th, kr, unit=UNIT):
    get_borders = private("wannierberri.grid.tetrahedron", "get_borders")
    return groups_of(get_borders(np.array(E, dtype=float) * unit, th * unit, degen_Kramers=kr))


def call_window(E, th, lo, hi, incl, unit=UNIT, as_int=False, defaults=False):
    """-> (indices, indices of the mask); as_int: integer arrays and integer arguments; defaults: no window arguments at all"""
    from wannierberri.utility import select_window_degen
    arr = np.array(E, dtype=int) if as_int else np.array(E, dtype=float) * unit
    kw = dict(thresh=th if as_int else th * unit, include_degen=incl)
    if not defaults:
        kw.update(win_min=lo if as_int else lo * unit, win_max=hi if as_int else hi * unit)
    r = select_window_degen(arr.copy(), return_indices=True, **kw)
    m = select_window_degen(arr.copy(), return_indices=False, **kw)
    return sorted(int(x) for x in r), sorted(int(x) for x in np.where(m)[0])


class DuckDataK(DuckDataKBase):
    def __init__(self, Ek, unit=UNIT):
        self.E_K = np.array(Ek, dtype=float) * unit
        self.nk = self.E_K.shape[0]
        self.num_wann = self.E_K.shape[1]


def call_datak_groups(Ek, th, kr, emin, emax, unit=UNIT):
    """Data_K.get_bands_in_range_groups at k-point 0 -> sorted groups (keys of the returned mapping)"""
    d = DuckDataK([Ek], unit)
    res = d.get_bands_in_range_groups(emin, emax, degen_thresh=th * unit, degen_Kramers=kr)
    return groups_of(res[0].keys())


class BandFormula:
    """formula whose trace over a set of bands is the sum of integer band values"""
    ndim = 0

    def __init__(self, data_K, vals=None):
        from wannierberri.symmetry.point_symmetry import transform_ident
        self.vals = vals
        self.transformTR = transform_ident
        self.transformInv = transform_ident

    def trace(self, ik, inn, out):
        return float(sum(self.vals[ik][b] for b in inn))


def call_tabulator(Eks, vals, th, kr, ibands=None, unit=UNIT):
    from wannierberri.calculators.tabulate import Tabulator
    tab = Tabulator(BandFormula, kwargs_formula=dict(vals=vals), degen_thresh=th * unit, degen_Kramers=kr,
                    **({} if ibands is None else dict(ibands=list(ibands))))
    with quiet():
        res = tab(DuckDataK(Eks, unit))
    return np.array(res.data, dtype=float)


def py_borders(E, th, kr):
    """Bands.Borders in Python (only for choosing admissible random inputs and expected block averages of records; the
    records themselves are judged by TLC)"""
    b = [0] + [i for i in range(1, len(E)) if E[i] - E[i - 1] > th] + [len(E)]
    if kr:
        b = [i for i in b if i % 2 == 0 or i == len(E)]
    return [(a, c) for a, c in zip(b, b[1:])]


def inrange_problem(E, groups, emin, emax, got):
    """InRangeAdmissible of Bands.tla -> None or a description"""
    gs = set(groups)
    if len(set(got)) != len(got):
        return "a group is listed twice"
    for g in got:
        if g not in gs:
            return f"{g} is not a whole group of the partition"
        if E[g[1] - 1] < emin or E[g[0]] > emax:
            return f"{g} lies outside the range"
    for g in groups:
        if E[g[1] - 1] > emin and E[g[0]] < emax and g not in got:
            return f"{g} overlaps the range but is missing"
    return None


LCM = 27720      # lcm(1..12): block averages of integer multiples are integers


def tab_expected(E, groups, vals, ibands):
    out = []
    for b in ibands:
        a, c = next((g for g in groups if g[0] <= b < g[1]), (None, None))
        if a is None:
            raise MachineryError(f"band {b} is in no group of the specification's partition {groups}")
        out.append(sum(vals[a:c]) // (c - a))
    return out


# ---------------------------------------------------------------------------------------------------------------------
def part_borders(rep, thorough, rng):
    nb, emax = (7, 4) if thorough else (6, 3)
    bcfg = lambda drop, n: (f"SPECIFICATION Spec\nCONSTANTS\n  NB = {n}\n  EMAX = {emax}\n  THS = {{0, 1, 2}}\n  DropOddFinalBorder = {'TRUE' if drop else 'FALSE'}\n" +
                            "".join(f"INVARIANT {i}\n" for i in ("GroupsPartition", "GroupsInternal", "GroupsBoundary", "GroupsKramers", "InRangeSubset", "InRangeRelaxed")) +
                            "CHECK_DEADLOCK FALSE\n")
    st = enumerate_states("MC_BandsBorders.tla", bcfg(False, nb), "c15_borders")
    ftable.spec_violation(rep, st, "c15_borders")
    rep.add_tlc("c15_borders", st)
    # sensitivity: get_borders before the repair (odd final border dropped in Kramers mode) must violate the partition property
    st0 = run_tlc("MC_BandsBorders.tla", bcfg(True, 3), "c15_borders_dropodd", timeout=900)
    if not st0.get("violation"):
        raise MachineryError("sensitivity self-test failed: MC_BandsBorders with DropOddFinalBorder=TRUE should violate GroupsPartition")
    rep.part("c15_borders_dropodd", sensitivity_violation=st0["violation"][1])
    states = sorted(ftable.dump_states(st), key=lambda s: (len(s["E"]), tuple(s["E"]), s["th"], s["kr"], s["emin"], s["emax"]))
    if len(states) != st["distinct"]:
        raise MachineryError(f"dump has {len(states)} states, TLC reported {st['distinct']}")
    info = dict(find_degen_differs=0, find_degen_compared=0, below_differs=0, below_compared=0, in_range_other_ends=0)
    cls = dict(kramers=0, kramers_odd_number_of_bands=0, multi_band_group=0, tab_two_kpoints=0, tab_band_subset=0, tab_kramers=0, tab_subset_inside_block=0, range_edge_tie=0)
    G = Guard(rep)
    guarded = G.call
    done_groups = {}
    prev = {}
    nsample = 0

    for s in states:
        E, th, kr = list(s["E"]), s["th"], s["kr"]
        exp = tuple(sorted((a, b) for a, b in s["groups"]))
        key = ("borders", tuple(E), th, kr, s["emin"], s["emax"])
        rep.case(key, nontrivial=len(E) > 1)
        gkey = (tuple(E), th, kr)
        inputs = dict(E=E, th=th, kramers=kr, unit=UNIT)
        if gkey not in done_groups:
            done_groups[gkey] = True
            cls["kramers"] += kr
            cls["kramers_odd_number_of_bands"] += kr and len(E) % 2 == 1
            cls["multi_band_group"] += any(b - a > 1 for a, b in exp)
            ok, got = guarded("get_borders", "get_borders", inputs, call_borders, E, th, kr)
            if ok and got != exp:
                rep.violation("get_borders:" + ("kramers" if kr else "plain"), dict(inputs, expected=exp, got=got))
            # the groups that calculators and tabulators see: Data_K.get_bands_in_range_groups over the whole energy axis
            ok, got = guarded("datak", "Data_K.get_bands_in_range_groups", inputs, call_datak_groups, E, th, kr, -np.inf, np.inf)
            if ok and got != exp:
                rep.violation("Data_K.get_bands_in_range_groups:all", dict(inputs, expected=exp, got=got))
            if not kr and G.available("find_degen"):
                # information only: find_degen serves the shells of b-vectors, not the band groups
                try:
                    find_degen = private("wannierberri.utility", "find_degen")
                    info["find_degen_compared"] += 1
                    info["find_degen_differs"] += groups_of(find_degen(np.array(E, dtype=float) * UNIT, th * UNIT)) != exp
                except Exception as ex:
                    G.skip("find_degen", ex)
            # Tabulator: this array and the previous one of the same length / threshold / Kramers flag as two k-points
            pk = (len(E), th, kr)
            Eks = [E] + ([prev[pk][0]] if pk in prev else [])
            grs = [exp] + ([prev[pk][1]] if pk in prev else [])
            prev[pk] = (E, exp)
            vals = [[LCM * rng.randint(-3, 3) for _ in E] for _ in Eks]
            ibands = None
            if rng.random() < 0.6:
                ibands = sorted(rng.sample(range(len(E)), rng.randint(1, len(E))))
                if rng.random() < 0.3:
                    rng.shuffle(ibands)
            ib = list(range(len(E))) if ibands is None else ibands
            tinputs = dict(E_per_k=Eks, band_values=vals, th=th, kramers=kr, ibands=ibands, unit=UNIT)
            ok, data = guarded("tabulator", "Tabulator", tinputs, call_tabulator, Eks, vals, th, kr, ibands)
            if ok:
                want = [tab_expected(Ek, g, v, ib) for Ek, g, v in zip(Eks, grs, vals)]
                rep.case(("tab",) + gkey + (tuple(ib), len(Eks)))
                if data.shape != (len(Eks), len(ib)) or np.any(np.abs(data - np.array(want, dtype=float)) > 1e-6):
                    rep.violation("Tabulator:" + ("kramers" if kr else "plain") + (":ibands" if ibands is not None else ""),
                                  dict(tinputs, groups_per_k=grs, expected=want, got=data.tolist()))
                cls["tab_two_kpoints"] += len(Eks) == 2
                cls["tab_band_subset"] += ibands is not None
                cls["tab_kramers"] += kr
                cls["tab_subset_inside_block"] += any(0 < sum(x in ib for x in range(a, b)) < b - a for a, b in exp)
                if nsample < 1:
                    nsample += 1
                    rep.sample(dict(fn="Tabulator", **tinputs, expected=want))
        # groups in a range: whole groups, those strictly overlapping present, none strictly outside
        rinputs = dict(inputs, emin=s["emin"], emax=s["emax"])
        expin = tuple(sorted((a, b) for a, b in s["inrange"]))
        cls["range_edge_tie"] += any(E[b - 1] == s["emin"] or E[a] == s["emax"] for a, b in exp)
        for name, site, fn in (("get_bands_in_range", "get_bands_in_range", call_in_range), ("datak", "Data_K.get_bands_in_range_groups", call_datak_groups)):
            ok, gotin = guarded(name, site, rinputs, fn, E, th, kr, s["emin"] * UNIT, s["emax"] * UNIT)
            if ok:
                why = inrange_problem(E, exp, s["emin"], s["emax"], gotin)
                if why:
                    rep.violation(site, dict(rinputs, groups=exp, got=gotin, why=why, closed_interval_answer=expin))
                elif gotin != expin:
                    info["in_range_other_ends"] += 1
        if G.available("get_bands_below_range"):
            try:
                below = private("wannierberri.grid.tetrahedron", "get_bands_below_range")
                info["below_compared"] += 1
                info["below_differs"] += int(below(s["emin"] * UNIT, np.array(E, dtype=float) * UNIT)) != s["below"]
            except Exception as ex:
                G.skip("get_bands_below_range", ex)
        if len(rep.cov["samples"]) < 2 and len(E) > 2:
            rep.sample(dict(fn="get_borders", E=E, th=th, kramers=kr, groups=exp))
    if not (G.available("get_borders") or G.available("datak")):
        raise MachineryError("neither get_borders nor Data_K.get_bands_in_range_groups can be called: the band groups are not observable")
    for k, v in cls.items():
        if v == 0 and (G.available("tabulator") or not k.startswith("tab_")):
            raise MachineryError(f"vacuous replay class {k}")
    rep.part("c15_borders_replay", states=len(states), distinct_grouping_inputs=len(done_groups), **cls)
    rep.part("find_degen_info", compared=info["find_degen_compared"], differs_from_band_groups=info["find_degen_differs"])
    rep.part("below_range_info", compared=info["below_compared"], differs_from_strictly_below=info["below_differs"],
             in_range_answers_with_other_end_convention=info["in_range_other_ends"])


def call_in_range(E, th, kr, emin, emax, unit=UNIT):
    f = private("wannierberri.grid.tetrahedron", "get_bands_in_range")
    return groups_of(f(emin, emax, np.array(E, dtype=float) * unit, degen_thresh=th * unit, degen_Kramers=kr))


def part_window(rep, thorough, rng):
    nbw, emw = (6, 4) if thorough else (5, 3)
    wcfg = lambda whole: (f"SPECIFICATION Spec\nCONSTANTS\n  NB = {nbw}\n  EMAX = {emw}\n  THS = {{1, 2}}\n  WholeMultiplet = {'TRUE' if whole else 'FALSE'}\n"
                          "INVARIANT WindowNeverSplits\nINVARIANT WindowMeaning\nINVARIANT WindowMonotone\nINVARIANT EmptyWindowEmpty\nCHECK_DEADLOCK FALSE\n")
    st = enumerate_states("MC_BandsWindow.tla", wcfg(True), "c15_window")
    ftable.spec_violation(rep, st, "c15_window")
    # non-vacuity of the loop actions Start / Up / Down: see the classes counted from the dump below (include / exclude
    # states whose result differs from the plain window have gone through Up or Down)
    rep.add_tlc("c15_window", st)
    # sensitivity: the model of the code before the repair must violate the property
    st0 = run_tlc("MC_BandsWindow.tla", wcfg(False), "c15_window_v0", timeout=900)
    if not st0.get("violation"):
        raise MachineryError("sensitivity self-test failed: MC_BandsWindow with WholeMultiplet=FALSE should violate WindowNeverSplits")
    rep.part("c15_window_v0", sensitivity_violation=st0["violation"][1])
    done = [s for s in ftable.dump_states(st) if s["pc"] == "done"]
    done.sort(key=lambda s: (len(s["E"]), tuple(s["E"]), s["th"], s["lo"], s["hi"], s["incl"]))
    cls = dict(empty_default=0, inverted=0, edge_changes_two_or_more_bands=0, include=0, exclude=0)
    for nw, s in enumerate(done):
        E = list(s["E"])
        exp = sorted(j for j, v in enumerate(s["inside"]) if v)
        args = dict(E=E, th=s["th"], lo=s["lo"], hi=s["hi"], incl=s["incl"])
        rep.case(("window",) + tuple(sorted((k, tuple(v) if isinstance(v, list) else v) for k, v in args.items())), nontrivial=len(exp) > 0)
        variants = [dict()]
        if s["lo"] > s["hi"]:
            cls["inverted"] += 1
            if s["lo"] == emw + 1:
                variants.append(dict(defaults=True))          # win_min = +inf, win_max = -inf: the documented "nothing frozen"
                cls["empty_default"] += 1
        cls["include" if s["incl"] else "exclude"] += 1
        inside0 = [j for j, e in enumerate(E) if s["lo"] <= e <= s["hi"]]
        cls["edge_changes_two_or_more_bands"] += len(set(exp) ^ set(inside0)) >= 2
        for var in variants:
            ok, res = lib_call(rep, "select_window_degen", dict(args, unit=UNIT, **var), call_window, **args, **var)
            if not ok:
                continue
            got, gotmask = res
            if got != exp or gotmask != exp:
                rep.violation("select_window_degen:" + ("include" if s["incl"] else "exclude") + (":default_window" if var else ""),
                              dict(args, unit=UNIT, expected=exp, got_indices=got, got_mask=gotmask, **var))
        if nw < 2:
            rep.sample(dict(fn="select_window_degen", **args, inside=exp))
    if not done:
        raise MachineryError("no finished window case in the dump")
    for k, v in cls.items():
        if v == 0:
            raise MachineryError(f"vacuous window class {k}")
    rep.part("c15_window_replay", finished_states=len(done), **cls)


# ---------------------------------------------------------------------------------------------------------------------
class _Stop(Exception):
    pass


def part_wannierise_wiring(rep, rng, recs):
    """wannierise(wandata, froz_min, froz_max, outer_min, outer_max) selects the frozen bands without and the outer-window
    bands with the multiplets cut by a window edge.  The function is run on a stub up to its window selections; the calls
    of select_window_degen made from inside wannierise are recorded (inputs and returned masks) and the masks are judged by
    TLC (records of kind "window").  Relies on internals (the module-level name select_window_degen of wannierise.py, the
    keywords win_min / win_max, the attributes irreducible / mmn.NK / eig.data of the data object): skipped when they change."""
    try:
        import wannierberri.wannierisation.wannierise as wmod
        real = wmod.select_window_degen
        wannierise = wmod.wannierise
    except (ImportError, AttributeError) as ex:
        skipped_private(rep, "wannierise_wiring", ex)
        return
    NK = 4
    UW = 1.0 / 128
    # arrays in units of 1/128 with chains of gaps 0 or 1 unit (closer than the default thresh 0.01 = 1.28 units) that are cut by
    # the upper / lower edge of both windows
    base = [[0, 1, 16, 32, 33, 34, 48, 80], [-1, 0, 0, 16, 31, 32, 33, 64], [0, 0, 1, 2, 32, 33, 33, 34], [-17, -16, 0, 16, 17, 33, 33, 50]]
    eig = [np.array(b, dtype=float) * UW for b in base]
    froz = (rng.choice([0, 1]), rng.choice([32, 33]))
    outer = (rng.choice([-16, -1]), rng.choice([33, 48]))
    calls = []

    def recorder(E, *a, **kw):
        out = real(E, *a, **kw)
        calls.append((np.array(E, dtype=float), a, dict(kw), np.array(out)))
        if len(calls) >= 2 * NK:
            raise _Stop()
        return out

    class Stub:
        irreducible = False
        wannierised = False

        class mmn:
            pass

        class eig:
            pass

        def __getattr__(self, name):
            raise _Stop()        # anything beyond the window selections is outside this sub-check
    Stub.mmn.NK = NK
    Stub.eig.data = {ik: e for ik, e in enumerate(eig)}
    wmod.select_window_degen = recorder
    try:
        with quiet():
            wannierise(Stub(), froz_min=froz[0] * UW, froz_max=froz[1] * UW, outer_min=outer[0] * UW, outer_max=outer[1] * UW,
                       sitesym=False, num_iter=0)
    except _Stop:
        pass
    except Exception as ex:
        skipped_private(rep, "wannierise_wiring", f"stub run stopped with {type(ex).__name__}: {ex}")
        return
    finally:
        wmod.select_window_degen = real
    roles = dict(frozen=[], outer=[])
    for E, a, kw, out in calls:
        if a or "win_min" not in kw or "win_max" not in kw:
            skipped_private(rep, "wannierise_wiring", f"select_window_degen is called with other arguments: {a} {sorted(kw)}")
            return
        lo, hi = kw["win_min"] / UW, kw["win_max"] / UW
        role = "frozen" if (lo, hi) == froz else "outer" if (lo, hi) == outer else None
        th = kw.get("thresh", 1e-2)
        if role is None or not (0 < th < 1) or out.dtype != bool:
            skipped_private(rep, "wannierise_wiring", f"unexpected call window=({lo},{hi}) thresh={th} dtype={out.dtype}")
            return
        ik = next((i for i, e in enumerate(eig) if e.shape == E.shape and np.all(e == E)), None)
        if ik is None:
            skipped_private(rep, "wannierise_wiring", "select_window_degen was called on other energies than eig.data[ik]")
            return
        roles[role].append(ik)
        # integer gaps g (units of 1/128): g * UW < thresh  <=>  g < ceil(thresh / UW)
        recs.append(dict(fn="window", E=base[ik], th=int(np.ceil(th / UW)), lo=int(lo), hi=int(hi), incl=(role == "outer"),
                         out=[int(x) for x in np.where(out)[0]], unit=UW, origin=f"wannierise:{role}_window:ik{ik}"))
        rep.case(("wannierise", role, ik, froz))
    if sorted(roles["frozen"]) != list(range(NK)) or sorted(roles["outer"]) != list(range(NK)):
        skipped_private(rep, "wannierise_wiring", f"window selections seen: {roles}")
        del recs[-len(calls):]
        return
    rep.part("wannierise_wiring", recorded_calls=len(calls), frozen_window=froz, outer_window=outer)


def part_records(rep, thorough, rng, recs):
    nrec = 3000 if thorough else 600
    U = UNIT_REC
    stats = dict(borders=0, kramers=0, kramers_odd=0, window=0, window_inverted=0, window_int_array=0, inrange=0, tab=0, tab_ibands=0, negative=0, long=0, odd_threshold=0)
    for _ in range(nrec):
        n = rng.choice([rng.randint(1, 12), rng.randint(1, 12), rng.randint(13, 16)])
        off = rng.choice([0, 0, -7, -20])
        E = sorted(off + rng.choice([0, 0, 2, 2, 4, 6, 10, 16]) + rng.randint(0, 6) * rng.randint(0, 4) for _ in range(n))
        th = rng.choice([0, 1, 2, 3, 4, 6])
        r = rng.random()
        if r < 0.3:
            kr = rng.random() < 0.4
            if kr:
                half = E[:max(1, n // 2)]
                E = sorted(half + [e + rng.randint(0, th) for e in half])
                E = [x for p in zip(sorted(half), sorted(half)) for x in p] if rng.random() < 0.5 else E
                if rng.random() < 0.4:
                    E = E + [E[-1] + rng.randint(0, 2 * th + 1)]        # an odd number of bands: the highest one has no partner
                if any(E[2 * k + 1] - E[2 * k] > th for k in range(len(E) // 2)):
                    kr = False
            inputs = dict(E=E, th=th, kramers=kr, unit=U)
            try:
                ok, out = lib_call(rep, "get_borders", inputs, call_borders, E, th, kr, U)
                src = "get_borders"
            except PrivateGone:
                ok, out = lib_call(rep, "Data_K.get_bands_in_range_groups", inputs, call_datak_groups, E, th, kr, -np.inf, np.inf, U)
                src = "Data_K.get_bands_in_range_groups"
            if not ok:
                continue
            recs.append(dict(fn="borders", E=E, th=th, kr=kr, out=[list(g) for g in out], origin=src, unit=U))
            stats["kramers"] += kr
            stats["kramers_odd"] += kr and len(E) % 2 == 1
        elif r < 0.72:
            lo = rng.randint(min(E) - 2, max(E) + 2)
            hi = rng.randint(lo, max(E) + 2) if rng.random() < 0.9 else rng.randint(min(E) - 2, lo)
            incl = rng.random() < 0.5
            thw = rng.choice([1, 2, 3, 4, 5])
            as_int = rng.random() < 0.2
            args = dict(E=E, th=thw, lo=lo, hi=hi, incl=incl, unit=U, as_int=as_int)
            ok, res = lib_call(rep, "select_window_degen", args, call_window, **args)
            if not ok:
                continue
            got, gotmask = res
            if got != gotmask:
                rep.violation("select_window_degen:mask_vs_indices", dict(args, got=got, mask=gotmask))
            recs.append(dict(fn="window", E=E, th=thw, lo=lo, hi=hi, incl=incl, out=got, unit=1 if as_int else U, origin="select_window_degen"))
            stats["window_inverted"] += lo > hi
            stats["window_int_array"] += as_int
        elif r < 0.85:
            emin = rng.randint(min(E) - 1, max(E) + 1)
            emax = rng.randint(emin, max(E) + 1)
            inputs = dict(E=E, th=th, kramers=False, emin=emin, emax=emax, unit=U)
            try:
                ok, out = lib_call(rep, "get_bands_in_range", inputs, call_in_range, E, th, False, emin * U, emax * U, U)
                src = "get_bands_in_range"
            except PrivateGone:
                ok, out = lib_call(rep, "Data_K.get_bands_in_range_groups", inputs, call_datak_groups, E, th, False, emin * U, emax * U, U)
                src = "Data_K.get_bands_in_range_groups"
            if not ok:
                continue
            recs.append(dict(fn="inrange", E=E, th=th, kr=False, emin=emin, emax=emax, out=[list(g) for g in out], origin=src, unit=U))
        else:
            if len(E) > 12:
                E = E[:12]                      # block sizes <= 12 keep the averages integral (LCM)
            vals = [LCM * rng.randint(-3, 3) for _ in E]
            ibands = sorted(rng.sample(range(len(E)), rng.randint(1, len(E)))) if rng.random() < 0.5 else None
            ib = list(range(len(E))) if ibands is None else ibands
            tinputs = dict(E=E, band_values=vals, th=th, kramers=False, ibands=ibands, unit=U)
            ok, data = lib_call(rep, "Tabulator", tinputs, call_tabulator, [E], [vals], th, False, ibands, U)
            if not ok:
                continue
            v = [float(x) for x in np.ravel(data)]
            if len(v) != len(ib) or any(abs(x - round(x)) > 1e-6 for x in v):
                rep.violation("Tabulator:nonintegral", dict(tinputs, got=v, note="band values are multiples of lcm(1..12): block averages are integers"))
                continue
            recs.append(dict(fn="tab", E=E, th=th, kr=False, vin=vals, ib=ib, vals=[int(round(x)) for x in v], unit=U, origin="Tabulator"))
            stats["tab_ibands"] += ibands is not None
        stats[recs[-1]["fn"]] += 1
        stats["negative"] += min(E) < 0
        stats["long"] += len(E) > 12
        stats["odd_threshold"] += recs[-1]["th"] % 2 == 1
        rep.case(("rec", recs[-1]["fn"], tuple(E), recs[-1]["th"], len(recs)))
    for k, v in stats.items():
        if v == 0:
            raise MachineryError(f"vacuous record class {k}")
    strip = lambda rs: [{k: v for k, v in r.items() if k not in ("unit", "origin")} for r in rs]     # TLC sees integers only
    stv, bad = validate_records("BandsRec.tla", ftable.REC_CFG, strip(recs), "c15")
    rep.add_tlc("c15_records", stv)
    rep.add_traces(len(recs))
    rep.part("c15_records", **stats)
    for i, clauses in sorted(bad.items()):
        r = recs[i]
        if r["origin"].startswith("wannierise"):
            key = ":".join(r["origin"].split(":")[:2])
        elif r["fn"] == "window":
            key = "select_window_degen:" + ("include" if r["incl"] else "exclude")
        else:
            key = r["origin"] + ":recorded"
        rep.violation(key, dict(record=r, failing_clauses=clauses))
    rep.sample(next((r for r in recs if r["fn"] == "borders"), recs[0]))
    # binding self-test: a corrupted record must be reported
    cand = [r for r in recs if r["fn"] == "borders" and len(r["out"]) > 1][:1]
    if not cand:
        raise MachineryError("no get_borders record with two groups for the binding self-test")
    badrec = copy.deepcopy(cand)
    badrec[0]["out"] = badrec[0]["out"][:-1]
    _, b2 = validate_records("BandsRec.tla", ftable.REC_CFG, strip(badrec), "c15_selftest")
    if 0 not in b2:
        raise MachineryError("binding self-test failed: corrupted get_borders record accepted")
    rep.part("binding_selftest", corrupted_record_rejected=b2[0])


def check(pid, tier):
    rep = Report(pid, tier, "model_checking")
    thorough = tier == "thorough"
    rng = random.Random(seed() * 7919 + 15)
    rep.rule("TLC enumerates all sorted integer energy arrays within (NB, EMAX, thresholds, ranges / windows); a case = one TLC state replayed "
             "on the real functions (exact comparison of sets of groups / selected bands; Tabulator values exact integers), plus the window "
             "masks recorded from inside wannierise and seeded random recorded calls validated by TLC; distinct by input tuple")
    rep.assume("energies/thresholds/windows are integer multiples of 1/8 (records 1/16), so float comparisons in the code are exact")
    rep.assume("Kramers mode: paired input (E[2i], E[2i+1] within the threshold; with an odd number of bands the highest band has no partner)")

    def body():
        part_borders(rep, thorough, rng)
        part_window(rep, thorough, rng)
        recs = []
        part_wannierise_wiring(rep, rng, recs)
        part_records(rep, thorough, rng, recs)
    return run_parts(rep, body)
