"""C32: replay of MC_SysAlgCreate states on PythTB / TBmodels and on wannierberri's import (helper of props/sysalg.py)."""
import random
import warnings
import numpy as np

from .. import ftable
from ..common import MachineryError, seed, quiet
from . import _sysalg_world as W
from . import _sysalg_ops as O

INV = ["PtbImportIsSource", "PtbNoOnsiteHop", "TbmImportLaws", "TbmKeysCanonical", "BuildersAgree"]
UNIT = 0.2           # the bundled builders are compared in units of 0.2 (their default delta)


def cfg(**kw):
    d = dict(LIB='"ptb"', NORB=2, NS=1, MAXSTEPS=2, KDIRS=1, NAMP=1, OverrideDelta="FALSE")
    d.update(kw)
    return ("SPECIFICATION Spec\nCONSTANTS\n" + "".join(f"  {k} = {v}\n" for k, v in d.items()) +
            "".join(f"INVARIANT {i}\n" for i in INV) + "CHECK_DEADLOCK FALSE\n"), d


# ------------------------------------------------------------------ real builders
def blk(b, ns):
    m = W.tla_mat(b) if not isinstance(b, np.ndarray) else b
    return m if ns == 2 else m[0, 0]


CELLS = {False: [[1.0, 0.0], [0.0, 1.0]], True: [[1.0, 0.0], [1.0, 2.0]]}       # orthogonal / skew unit cell (energies do not depend on it)


class Environment(MachineryError):
    """a third-party builder (PythTB / TBmodels) does not behave like the modelled library version: not a statement about wannierberri"""


def ptb_new(norb, ns, pos, skew=False):
    import pythtb
    lat = pythtb.Lattice(lat_vecs=CELLS[bool(skew)], orb_vecs=[[p[0] / W.CU, p[1] / W.CU] for p in pos], periodic_dirs=[0, 1])
    return pythtb.TBModel(lat, spinful=(ns == 2))


def ptb_step(model, st, ns):
    """returns True when the call raised ValueError (the model is then unchanged)"""
    f = st["f"]
    with warnings.catch_warnings():
        warnings.simplefilter("ignore")
        if f == "set_onsite_all":
            vals = [blk(v, ns) for v in st["vals"]]
            model.set_onsite([v if ns == 2 else float(v.real) for v in vals], mode=st["mode"])
        elif f == "set_onsite":
            v = blk(st["val"], ns)
            model.set_onsite(v if ns == 2 else float(v.real), ind_i=st["i"] - 1, mode=st["mode"])
        elif f == "set_hop":
            a = blk(st["amp"], ns)
            try:
                model.set_hop(a if ns == 2 else complex(a), st["i"] - 1, st["j"] - 1, [st["R"][0], st["R"][1]], mode=st["mode"],
                              allow_conjugate_pair=bool(st["acp"]))
            except ValueError:
                return True
        else:
            raise MachineryError(f"unknown ptb step {f}")
    return False


def ptb_state(model, ns):
    """projection of the builder's internal state: site blocks and the hopping table"""
    site = []
    for e in np.asarray(model._site_energies):
        b = np.array(e, dtype=complex).reshape((ns, ns)) if ns == 2 else np.array([[complex(e)]])
        site.append(W._round_gauss(b, "site energy"))
    tab = set()
    for h in model.hoppings:
        R = tuple(int(x) for x in h.get("lattice_vector", [0, 0])) + (0,)
        a = np.array(h["amplitude"], dtype=complex).reshape((ns, ns))
        a = W._round_gauss(a, "hopping amplitude")
        tab.add((h["from_orbital"] + 1, h["to_orbital"] + 1, R, tuple(tuple((int(x.real), int(x.imag)) for x in row) for row in a)))
    return site, tab


def tbm_new(size, pos, onsite, skew=False):
    import tbmodels
    return tbmodels.Model(on_site=[float(x) for x in onsite], dim=2, pos=[[p[0] / W.CU, p[1] / W.CU] for p in pos], size=size,
                          uc=CELLS[bool(skew)])


def tbm_step(model, st):
    if st["f"] == "add_hop":
        model.add_hop(complex(st["amp"][0], st["amp"][1]), st["i"] - 1, st["j"] - 1, [st["R"][0], st["R"][1]])
    elif st["f"] == "add_on_site":
        model.add_on_site([float(v) for v in st["vals"]])
    else:
        raise MachineryError(f"unknown tbm step {st['f']}")


def tbm_state(model):
    out = {}
    for R, m in model.hop.items():
        out[tuple(int(x) for x in R) + (0,)] = W._round_gauss(np.array(m), "tbmodels hop", 2.0)
    return out


def import_real(model, module):
    """the call under test: System_R.from_pythtb / from_tbmodels"""
    from wannierberri.system.system_R import System_R
    with quiet(), warnings.catch_warnings():
        warnings.simplefilter("ignore")
        s = W.under_test(System_R.from_pythtb, model) if module == "ptb" else W.under_test(System_R.from_tbmodels, model)
    return s


def safe_import(rep, model, module, detail):
    """import: an exception of the package is reported as a violation, -> None"""
    site = "from_pythtb" if module == "ptb" else "from_tbmodels"
    try:
        return import_real(model, module)
    except W.UnderTestError as e:
        only_home = module == "ptb" and all("lattice_vector" not in h for h in model.hoppings)
        rep.violation(f"{site}:raises" + (":no_hopping_with_lattice_vector" if only_home else ""), dict(detail, error=str(e)[:300], raised_in=e.site))
    except W.HarnessMisuse as e:
        W.note_skip(site, e)
    return None


KPTS = [(0.0, 0.0, 0.0), (0.25, 0.5, 0.125), (0.137, 0.291, 0.412), (0.5, 0.5, 0.5), (0.61, 0.83, 0.29)]


def source_energies(model, module, dim_k):
    """the source model's own solver on KPTS (first dim_k components)"""
    ks = [list(k[:dim_k]) for k in KPTS]
    if module == "ptb":
        with warnings.catch_warnings():
            warnings.simplefilter("ignore")
            return np.sort(np.array(model.solve_ham(np.array(ks))).reshape(len(ks), -1), axis=-1)
    return np.array([np.sort(model.eigenval(k)) for k in ks])


def energies_vs_source(rep, model, module, system, detail, site, dim_k=2, with_evaluate_k=True):
    """energies of the imported system (Data_K_R on a k-list; one evaluate_k call) vs the source model's own solver"""
    src = source_energies(model, module, dim_k)
    k3 = [tuple(list(k[:dim_k]) + [0.0] * (3 - dim_k)) for k in KPTS]
    ok, ek = W.guarded(rep, f"{site}:energies", detail, W.real_ek, system, [tuple(4 * x for x in k) for k in k3])
    if not ok:
        return 0.0
    got = np.sort(np.array(ek), axis=-1)
    dev = float(np.max(np.abs(got - src))) if got.shape == src.shape else float("inf")
    if dev > 1e-8:
        rep.violation(f"{site}:energies", dict(detail, kpoints=k3, source=src.tolist(), imported=got.tolist(), deviation=dev))
    if with_evaluate_k:
        import wannierberri as wb

        def ev():
            with quiet(), warnings.catch_warnings():
                warnings.simplefilter("ignore")
                return np.sort(np.asarray(wb.evaluate_k(system, k=k3[2], quantities=["energy"])).reshape(-1))
        ok, e1 = W.guarded(rep, f"{site}:evaluate_k", detail, ev)
        if ok:
            d1 = float(np.max(np.abs(e1 - src[2]))) if e1.shape == src[2].shape else float("inf")
            dev = max(dev, d1)
            if d1 > 1e-8:
                rep.violation(f"{site}:evaluate_k", dict(detail, k=k3[2], source=src[2].tolist(), imported=e1.tolist(), deviation=d1))
    return dev


def tla_tab(tab):
    out = set()
    for e in tab:
        d = dict(e)
        out.add((d["i"], d["j"], tuple(d["R"]), tuple(tuple(tuple(g) for g in row) for row in d["amp"])))
    return out


def replay_create(rep, s, lib, norb, ns, tag):
    steps = s["steps"]
    skew = bool(W.stable_hash((tag, steps)) & 1)
    with_ev = W.stable_hash(("ev", tag, steps)) % 8 == 0
    detail = dict(config=tag, steps=O._js(steps), skew_cell=skew)
    rep.case((tag, W.stable_key(steps), W.stable_key(s["m"].get("site") if isinstance(s["m"], dict) else None),
              W.stable_key(s["t"].get("hop2") if "hop2" in s["t"] else None)), nontrivial=bool(steps) or lib == "haldane")
    maxdev = 0.0
    sysP = sysT = None
    if lib in ("ptb", "pair"):
        pos = s["m"]["pos"]
        model = ptb_new(norb, ns, pos, skew)
        raised = False
        for st in steps:
            if lib == "pair":
                if st["f"] == "hop":
                    st2 = dict(f="set_hop", amp=((tuple(st["amp"]),),), i=st["i"], j=st["j"], R=st["R"], mode="add", acp=True)
                else:
                    st2 = dict(f="set_onsite_all", vals=[(((v, 0),),) for v in st["vals"]], mode="add")
                raised = ptb_step(model, st2, ns)
            else:
                raised = ptb_step(model, st, ns)
        if steps and raised != s["raised"]:
            raise Environment(f"pythtb.set_hop refusal differs from the modelled library: {detail}, expected_raises={s['raised']}, got_raises={raised}")
        try:
            site, tab = ptb_state(model, ns)
        except (W.NonIntegral, AttributeError, KeyError) as ex:
            raise Environment(f"pythtb builder state not readable: {ex!r}")
        exp_site = [W.tla_mat(b) for b in s["m"]["site"]]
        if any(not np.array_equal(a, b) for a, b in zip(site, exp_site)) or tab != tla_tab(s["m"]["tab"]):
            raise Environment(f"pythtb builder state differs from the modelled library: {detail}, expected table {sorted(map(repr, tla_tab(s['m']['tab'])))}, "
                              f"got {sorted(map(repr, tab))}")
        sysP = safe_import(rep, model, "ptb", dict(detail, note="the specification defines the imported system for every builder state"))
        if sysP is not None:
            _compare_import(rep, sysP, s["impP"], "from_pythtb", detail)
            maxdev = max(maxdev, energies_vs_source(rep, model, "ptb", sysP, detail, "from_pythtb", with_evaluate_k=with_ev))
    if lib in ("tbm", "pair"):
        t = s["t"]
        # the constructor's on_site is what the first state of the history had at R = 0
        model = tbm_new(norb, t["pos"], s["_onsite0"], skew)
        for st in steps:
            if lib == "pair":
                st = dict(f="add_hop", amp=st["amp"], i=st["i"], j=st["j"], R=st["R"]) if st["f"] == "hop" else dict(f="add_on_site", vals=st["vals"])
            tbm_step(model, st)
        try:
            hop2 = tbm_state(model)
        except (W.NonIntegral, AttributeError, KeyError) as ex:
            raise Environment(f"tbmodels builder state not readable: {ex!r}")
        exp = {tuple(K): W.tla_mat(t["hop2"][K]) for K in t["keys"]}
        # TBmodels may hold keys with zero matrices or lack keys the specification holds with zeros: compare as functions
        keys = set(exp) | set(hop2)
        z = np.zeros((norb, norb), dtype=complex)
        if any(not np.array_equal(exp.get(K, z), hop2.get(K, z)) for K in keys):
            raise Environment(f"tbmodels builder state differs from the modelled library: {detail}")
        sysT = safe_import(rep, model, "tbm", detail)
        if sysT is not None:
            _compare_import(rep, sysT, s["impT"], "from_tbmodels", detail)
            maxdev = max(maxdev, energies_vs_source(rep, model, "tbm", sysT, detail, "from_tbmodels", with_evaluate_k=with_ev))
    if lib == "pair" and sysP is not None and sysT is not None:
        try:
            a, _ = W.project(sysP)
            b, _ = W.project(sysT)
        except W.NonIntegral as ex:
            rep.violation("from_pythtb_vs_from_tbmodels:non-integral", dict(detail, error=str(ex)))
            return maxdev
        d = _diff_fun(a, b)
        if d:
            rep.violation("from_pythtb_vs_from_tbmodels:same_hoppings", dict(detail, differences=d[:5]))
    return maxdev


def _diff_fun(a, b):
    """systems compared as functions of R (the stored R-sets may differ by zero matrices), centres modulo lattice vectors"""
    return W.diff_sys(a, b, centres=True, mod_cell=True)


def _compare_import(rep, system, imp, site, detail):
    """Hamiltonian as a function of R; centres modulo lattice vectors (the statement is about band energies: whether the import
    wraps the positions into the home cell is a representation). The private views of the centres are information only"""
    try:
        got, views = W.project(system)
    except W.NonIntegral as ex:
        rep.violation(f"{site}:non-integral", dict(detail, error=str(ex)))
        return 0.0
    exp = W.sys_from_tla(imp)
    d = W.diff_sys(exp, got, centres=True, mod_cell=True)
    if d:
        rep.violation(f"{site}:projection", dict(detail, differences=d[:6]))
    if not np.array_equal(exp["cen"], got["cen"]):
        O._bump(rep, "import_centres_not_wrapped_like_the_specification", site)
    if W.diff_views(got["cen"], views):
        O._bump(rep, "import_private_views_of_centres_differ", site)
    return 0.0


# ------------------------------------------------------------------ bundled builders
def haldane_case(rep, delta_u, hop1_u, t2_u, imp_exp=None):
    """models.Haldane_ptb / Haldane_tbm with parameters in units of 0.2; t2_u = (re, im) of hop2 exp(i phi)"""
    from wannierberri import models
    delta, hop1 = delta_u * UNIT, hop1_u * UNIT
    hop2 = UNIT * float(np.hypot(*t2_u))
    phi = float(np.arctan2(t2_u[1], t2_u[0])) if hop2 else 0.0
    args = dict(delta=delta, hop1=hop1, hop2=hop2, phi=phi)
    detail = dict(parameters=args, units_of=UNIT)
    rep.case(("haldane", delta_u, hop1_u, tuple(t2_u)))

    def make(fn):
        with warnings.catch_warnings():
            warnings.simplefilter("ignore")
            return fn(**args)
    okp, mp = W.guarded(rep, "models.Haldane_ptb", detail, make, models.Haldane_ptb)
    okt, mt = W.guarded(rep, "models.Haldane_tbm", detail, make, models.Haldane_tbm)
    sp = safe_import(rep, mp, "ptb", detail) if okp else None
    stb = safe_import(rep, mt, "tbm", detail) if okt else None
    out = {}
    for name, s_ in (("ptb", sp), ("tbm", stb)):
        if s_ is None:
            continue
        try:
            out[name], _ = W.project(s_, scale=1.0 / UNIT)
        except W.NonIntegral as ex:
            rep.violation(f"models.Haldane_{name}:non-integral", dict(detail, error=str(ex)))
    if imp_exp is not None:
        for name in out:
            if _diff_fun(W.sys_from_tla(imp_exp[name]), out[name]):          # information: the statement only asks ptb = tbm
                O._bump(rep, "haldane_differs_from_the_specifications_hopping_list", name)
    if len(out) == 2:
        d = _diff_fun(out["ptb"], out["tbm"])
        if d:
            rep.violation("models.Haldane_ptb_vs_Haldane_tbm:same_parameters", dict(detail, differences=d[:4]))
    if sp is not None:
        energies_vs_source(rep, mp, "ptb", sp, detail, "models.Haldane_ptb")
    if stb is not None:
        energies_vs_source(rep, mt, "tbm", stb, detail, "models.Haldane_tbm")


def bundled_and_other_dimensions(rep, rng, thorough):
    """numeric (deciding, 1e-8): every bundled PythTB builder (1-D, 2-D, 3-D, spinful) with default and other parameters, a PythTB model
    with a non-periodic direction, random 1-D / 3-D PythTB and TBmodels models: energies of the import vs the model's own solver"""
    from wannierberri import models
    import pythtb
    import tbmodels
    maxdev, n = 0.0, 0
    cases = [("Chiral", {}), ("Chiral", dict(delta=1.0, hop1=0.5, hop2=0.25, phi=0.7, hopz_right=0.3, hopz_left=0.1, hopz_vert=0.2)),
             ("SSH_ptb", {}), ("SSH_ptb", dict(delta=-0.5, hop1=0.75, hop2=0.4)), ("CuMnAs_2d", {}), ("CuMnAs_2d", dict(nx=1, ny=0, nz=1, hop1=0.5, hop2=0.2, l=0.3, J=0.4, dt=0.1)),
             ("KaneMele_ptb", dict(topological="even")), ("KaneMele_ptb", dict(topological="odd")), ("Chiral_OSD", {}), ("model_1d_pythtb", {}),
             ("model_1d_pythtb", dict(Delta=0.5, spinor_manual=True)), ("Haldane_ptb", dict(delta=-0.3, hop1=0.8, hop2=0.25, phi=1.1))]
    for name, kw in cases:
        detail = dict(builder=name, parameters=kw)

        def make():
            with quiet(), warnings.catch_warnings():
                warnings.simplefilter("ignore")
                return getattr(models, name)(**kw)
        ok, m = W.guarded(rep, f"models.{name}", detail, make)
        if not ok:
            continue
        if type(m).__module__.split(".")[0] != "pythtb":       # a builder may return something else for some parameters (e.g. a system)
            W.note_skip(f"models.{name}{kw}", f"returns {type(m).__name__}")
            continue
        system = safe_import(rep, m, "ptb", detail)
        if system is None:
            continue
        rep.case(("bundled", name, W.stable_key(kw)))
        n += 1
        maxdev = max(maxdev, energies_vs_source(rep, m, "ptb", system, detail, f"from_pythtb:models.{name}", dim_k=int(m.dim_k)))
    # a PythTB model with a non-periodic direction (2-D cell, periodic along the first vector only)
    for it in range(4 if thorough else 2):
        lat = pythtb.Lattice(lat_vecs=CELLS[bool(it % 2)], orb_vecs=[[0.0, 0.0], [0.25, 0.5]], periodic_dirs=[0])
        m = pythtb.TBModel(lat)
        on = [rng.randint(-2, 2), rng.randint(-2, 2)]
        m.set_onsite([float(x) for x in on])
        hops = [(complex(rng.randint(-2, 2), rng.randint(-2, 2)) / 2, rng.randint(0, 1), rng.randint(0, 1), [rng.choice([1, 2]), 0]) for _ in range(3)]
        for amp, i, j, R in hops:
            m.set_hop(amp, i, j, R, mode="add", allow_conjugate_pair=True)
        detail = dict(kind="pythtb periodic_dirs=[0] in a 2-D cell", onsite=on, hoppings=[[[h[0].real, h[0].imag], h[1], h[2], h[3]] for h in hops])
        system = safe_import(rep, m, "ptb", detail)
        if system is None:
            continue
        rep.case(("nonperiodic", it))
        n += 1
        maxdev = max(maxdev, energies_vs_source(rep, m, "ptb", system, detail, "from_pythtb:non_periodic_direction", dim_k=1))
        per = W.private("periodic", lambda: [bool(x) for x in system.periodic])
        if per is not None and per[:2] != [True, False]:
            O._bump(rep, "import_declares_a_non_periodic_direction_periodic", "from_pythtb")
    # random 1-D and 3-D models in both libraries
    for it in range(12 if thorough else 4):
        dim = (1, 3)[it % 2]
        norb = rng.choice([1, 2, 3])
        pos = [[rng.choice([0.0, 0.25, 1.25, -0.5]) for _ in range(dim)] for _ in range(norb)]
        cell = (np.eye(dim) + (np.tril(np.ones((dim, dim)), -1) if it % 4 >= 2 else 0)).tolist()
        onsite = [float(rng.randint(-2, 2)) for _ in range(norb)]
        hops = []
        for _ in range(rng.randint(2, 5)):
            i, j = rng.randint(0, norb - 1), rng.randint(0, norb - 1)
            R = [rng.randint(-1, 2) for _ in range(dim)]
            if i == j and not any(R):
                continue
            hops.append((complex(rng.randint(-3, 3), rng.randint(-3, 3)) / 4, i, j, R))
        detail = dict(dim=dim, cell=cell, positions=pos, onsite=onsite, hoppings=[[[h[0].real, h[0].imag], h[1], h[2], h[3]] for h in hops])
        mp = pythtb.TBModel(pythtb.Lattice(lat_vecs=cell, orb_vecs=pos, periodic_dirs=list(range(dim))))
        mp.set_onsite(onsite)
        mt = tbmodels.Model(on_site=onsite, dim=dim, pos=pos, size=norb, uc=cell)
        for amp, i, j, R in hops:
            mp.set_hop(amp, i, j, R, mode="add", allow_conjugate_pair=True)
            mt.add_hop(amp, i, j, R)
        for module, m in (("ptb", mp), ("tbm", mt)):
            system = safe_import(rep, m, module, detail)
            if system is None:
                continue
            rep.case(("otherdim", module, it))
            n += 1
            maxdev = max(maxdev, energies_vs_source(rep, m, module, system, detail, f"from_{'pythtb' if module == 'ptb' else 'tbmodels'}:{dim}d", dim_k=dim))
    rep.part("numeric_deciding_other_dimensions_and_bundled_builders", cases=n, max_deviation=maxdev, tolerance=1e-8)


def check_c32(rep, thorough):
    rng = random.Random(seed() * 7919 + 32)
    w = O.TLC_WORKERS
    rep.rule("TLC enumerates call histories (<= MAXSTEPS calls from small alphabets of amplitudes, orbitals, lattice vectors, modes) of the PythTB and "
             "TBmodels builders and the parameter grid of the bundled Haldane builders; a case = one TLC state (history) executed on the real library "
             "(orthogonal or skew cell by a hash of the history), the imported system (exact projection as a function of R, centres modulo lattice "
             "vectors) and the energies vs the library's own solver compared; plus seeded random recorded histories validated by TLC; distinct by history")
    rep.assume("symbolic/callable PythTB parameters, TBmodels constructor hoppings (hop=), contains_cc=False and models read from files are outside "
               "(numeric builder calls only); the exact state machines are two-dimensional, other dimensions (1-D, 3-D, a non-periodic direction) and "
               "the other bundled builders are covered by the numeric part only; energies are compared at 5 k-points with 1e-8; that the third-party "
               "builders behave like the modelled versions is a precondition (a difference is a machinery error, not a violation)")
    if thorough:
        runs = [("c32_ptb", dict(LIB='"ptb"', NORB=2, NS=1, MAXSTEPS=2, KDIRS=1, NAMP=2)),
                ("c32_ptb_3steps", dict(LIB='"ptb"', NORB=1, NS=1, MAXSTEPS=3, KDIRS=1, NAMP=1)),
                ("c32_ptb_spinful", dict(LIB='"ptb"', NORB=2, NS=2, MAXSTEPS=2, KDIRS=1, NAMP=1)),
                ("c32_tbm", dict(LIB='"tbm"', NORB=2, NS=1, MAXSTEPS=3, KDIRS=2, NAMP=1)),
                ("c32_pair", dict(LIB='"pair"', NORB=2, NS=1, MAXSTEPS=3, KDIRS=2, NAMP=1)),
                ("c32_haldane", dict(LIB='"haldane"'))]
    else:
        runs = [("c32_ptb", dict(LIB='"ptb"', NORB=1, NS=1, MAXSTEPS=2, KDIRS=1, NAMP=1)),
                ("c32_ptb_spinful", dict(LIB='"ptb"', NORB=1, NS=2, MAXSTEPS=2, KDIRS=1, NAMP=1)),
                ("c32_tbm", dict(LIB='"tbm"', NORB=2, NS=1, MAXSTEPS=2, KDIRS=1, NAMP=1)),
                ("c32_pair", dict(LIB='"pair"', NORB=2, NS=1, MAXSTEPS=2, KDIRS=2, NAMP=1)),
                ("c32_haldane", dict(LIB='"haldane"'))]
    maxdev = 0.0
    for name, kw in runs:
        c, consts = cfg(**kw)
        st = O.enumerate_states("MC_SysAlgCreate.tla", c, name, workers=w)
        st["constants"] = consts
        if ftable.spec_violation(rep, st, name):
            continue
        rep.add_tlc(name, st)
        lib = kw["LIB"].strip('"')
        n, nraised, nsteps = 0, 0, 0
        for s in O.sorted_states(st, lambda s: W.stable_key((s["steps"], s["m"], s["t"]))):
            n += 1
            if lib == "haldane":
                site = [W.tla_mat(b)[0, 0].real for b in s["m"]["site"]]
                tab = {(d["i"], d["j"], tuple(d["R"])): complex(*d["amp"][0][0]) for d in map(dict, s["m"]["tab"])}
                delta_u = int(site[1])
                hop1_u = int(tab[(1, 2, (0, 0, 0))].real)
                t2 = tab[(1, 1, (1, 0, 0))]
                haldane_case(rep, delta_u, hop1_u, (int(t2.real), int(t2.imag)), imp_exp=dict(ptb=s["impP"], tbm=s["impT"]))
                if n == 1:
                    rep.sample(dict(config=name, delta=delta_u * UNIT, hop1=hop1_u * UNIT, t2=[t2.real * UNIT, t2.imag * UNIT]))
                continue
            if lib in ("tbm", "pair"):
                # on_site given to the constructor: the R = 0 diagonal of the semantic Hamiltonian minus what the steps added
                s["_onsite0"] = _onsite0(s, kw["NORB"])
            nraised += bool(s["raised"])
            nsteps += bool(s["steps"])
            maxdev = max(maxdev, replay_create(rep, s, lib, kw["NORB"], kw["NS"], name))
            if n == 3:
                rep.sample(dict(config=name, steps=O._js(s["steps"]), raised=s["raised"]))
        if n != st["distinct"]:
            raise MachineryError(f"{name}: dump has {n} states, TLC reported {st['distinct']}")
        if lib != "haldane" and nsteps == 0:
            raise MachineryError(f"{name}: vacuous, no builder call")
        if name == "c32_ptb" and nraised == 0:
            raise MachineryError("c32_ptb: vacuous, no refused set_hop")
        rep.part(name, replayed=n, refused_calls=nraised)
    c0, _ = cfg(LIB='"haldane"', OverrideDelta="TRUE")
    st0 = O.run_tlc("MC_SysAlgCreate.tla", c0, "c32_haldane_override", workers=2, timeout=900)
    if not st0.get("violation") or st0["violation"][1] != "BuildersAgree":
        raise MachineryError(f"sensitivity self-test failed: the delta override must violate BuildersAgree ({st0.get('violation')}, {str(st0.get('error'))[:200]})")
    rep.part("c32_haldane_override", sensitivity_violation="BuildersAgree")
    # defaults of the bundled builders (delta = 0.2): must agree
    haldane_case(rep, 1, -5, (0, 1))
    rep.part("energies_vs_source_solver", max_deviation=maxdev, tolerance=1e-8)
    bundled_and_other_dimensions(rep, rng, thorough)

    # ---- code -> spec: random histories
    recs = []
    nrec = 300 if thorough else 15
    Rs = [(1, 0, 0), (0, 1, 0), (-1, 1, 0), (0, 0, 0), (2, -1, 0), (-1, 0, 0)]

    def rec_tbm(rng, norb, pos, skew):
        onsite = [rng.randint(-2, 2) for _ in range(norb)]
        model = tbm_new(norb, pos, onsite, skew)
        steps = []
        for _ in range(rng.randint(1, 6)):
            if rng.random() < 0.2:
                st = dict(f="add_on_site", vals=[rng.randint(-2, 2) for _ in range(norb)])
            else:
                st = dict(f="add_hop", amp=[rng.randint(-3, 3), rng.randint(-3, 3)], i=rng.randint(1, norb), j=rng.randint(1, norb), R=list(rng.choice(Rs)))
            tbm_step(model, st)
            steps.append(st)
        hop2 = tbm_state(model)
        keys = sorted(hop2)
        real = safe_import(rep, model, "tbm", dict(steps=steps, size=norb))
        if real is None:
            return None
        imp, _ = W.project(real)
        return dict(fn="tbm", size=norb, pos=pos, onsite=onsite, steps=steps, keys=[list(K) for K in keys],
                    hop2=[W.mat_json(hop2[K]) for K in keys], imp=W.sys_json(imp))
    for i in range(nrec):
        kind = i % 3
        norb = rng.choice([1, 2, 3])
        skew = bool(i % 2)
        pos = [[rng.choice([0, 3, 4, 15, -2]), rng.choice([0, 6, 8]), 0] for _ in range(norb)]
        try:
            if kind == 0:
                ns = rng.choice([1, 1, 2])
                model = ptb_new(norb, ns, pos, skew)
                steps, raised = [], []
                for _ in range(rng.randint(2, 6)):
                    if rng.random() < 0.3:
                        vals = [_rand_block(rng, ns, herm=True) for _ in range(norb)]
                        st = dict(f="set_onsite_all", vals=[W.mat_json(v) for v in vals], mode=rng.choice(["set", "add"]))
                        raised.append(ptb_step(model, dict(st, vals=vals), ns))
                    else:
                        a = _rand_block(rng, ns)
                        st = dict(f="set_hop", amp=W.mat_json(a), i=rng.randint(1, norb), j=rng.randint(1, norb), R=list(rng.choice(Rs)),
                                  mode=rng.choice(["set", "add"]), acp=rng.random() < 0.3)
                        raised.append(ptb_step(model, dict(st, amp=a), ns))
                    steps.append(st)
                site, tab = ptb_state(model, ns)
                real = safe_import(rep, model, "ptb", dict(steps=steps, norb=norb, ns=ns))
                if real is None:
                    continue
                imp, _ = W.project(real)
                recs.append(dict(fn="ptb", norb=norb, ns=ns, pos=pos, steps=steps, raised=raised, site=[W.mat_json(b) for b in site],
                                 tab=[dict(i=e[0], j=e[1], R=list(e[2]), amp=[[list(g) for g in row] for row in e[3]]) for e in sorted(tab)],
                                 imp=W.sys_json(imp)))
            elif kind == 1:
                rec = rec_tbm(rng, norb, pos, skew)
                if rec is None:
                    continue
                recs.append(rec)
            else:
                mp, mt = ptb_new(norb, 1, pos, skew), tbm_new(norb, pos, [0] * norb, skew)
                for _ in range(rng.randint(1, 6)):
                    amp = [rng.randint(-3, 3), rng.randint(-3, 3)]
                    ii, jj, R = rng.randint(1, norb), rng.randint(1, norb), list(rng.choice(Rs))
                    if ii == jj and R == [0, 0, 0]:
                        continue
                    ptb_step(mp, dict(f="set_hop", amp=np.array([[complex(*amp)]]), i=ii, j=jj, R=R, mode="add", acp=True), 1)
                    tbm_step(mt, dict(f="add_hop", amp=amp, i=ii, j=jj, R=R))
                ra, rb = safe_import(rep, mp, "ptb", dict(kind="pair record", index=i)), safe_import(rep, mt, "tbm", dict(kind="pair record", index=i))
                if ra is None or rb is None:
                    continue
                a, _ = W.project(ra)
                b, _ = W.project(rb)
                recs.append(dict(fn="pair", a=W.sys_json(a), b=W.sys_json(b)))
        except W.NonIntegral as ex:
            rep.violation("C32:non-integral", dict(index=i, error=str(ex)))
            continue
        rep.case(("rec", recs[-1]["fn"], i))
    from .sysalg import _validate, _selftest, _flip
    site = dict(ptb="from_pythtb", tbm="from_tbmodels", pair="from_pythtb_vs_from_tbmodels")
    # a difference of the builder's state from the modelled library is not a statement about wannierberri
    _validate(rep, recs, "c32", lambda r: site[r["fn"]], environment=("raises", "builder_state"))
    try:
        r0 = rec_tbm(random.Random(4242), 2, [[0, 0, 0], [15, 6, 0]], False)
    except W.NonIntegral:
        r0 = None
    _selftest(rep, r0, lambda r: _flip(r["imp"]["H"][0][0][0]), "c32", "import_equals_spec")
    return rep.finish()


def _rand_block(rng, ns, herm=False):
    if ns == 1:
        return np.array([[complex(rng.randint(-3, 3), 0 if herm else rng.randint(-2, 2))]])
    m = np.array([[complex(rng.randint(-2, 2), rng.randint(-2, 2)) for _ in range(2)] for _ in range(2)])
    return m + m.conj().T if herm else m


def _onsite0(s, norb):
    """the on_site argument of the TBmodels constructor: the specification's initial states use e * (1..norb), e in {0, 1}; it is
    recovered from the semantic Hamiltonian minus the contributions of the recorded steps"""
    sem0 = W.tla_mat(s["t"]["sem"][(0, 0, 0)])
    diag = [sem0[i, i].real for i in range(norb)]
    for st in s["steps"]:
        if st["f"] in ("add_on_site", "onsite"):
            diag = [d - v for d, v in zip(diag, st["vals"])]
        elif st["f"] in ("add_hop", "hop") and tuple(st["R"]) == (0, 0, 0) and st["i"] == st["j"]:
            diag[st["i"] - 1] -= 2 * st["amp"][0]
    return [int(round(d)) for d in diag]
