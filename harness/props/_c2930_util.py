"""helpers shared by c29.py and c30.py (no property registered here)"""
import os
import re
import shutil
from fractions import Fraction
from math import gcd

import numpy as np

from .. import tlaparse
from ..common import MachineryError, WORK, quiet

ENVIRONMENT_ERRORS = (OSError, MemoryError, TimeoutError, ImportError, RecursionError, KeyboardInterrupt, MachineryError)


# ---------------------------------------------------------------- scratch names (unique per property AND process)
class Scratch:
    """names of TLC runs / record batches / work directories of one check run; everything is removed by cleanup()"""

    def __init__(self, pid):
        self.tag = f"{pid.lower()}_{os.getpid()}"
        self.tlc_names = []
        self.rec_names = []
        self.dirs = []

    def tlc(self, name):
        n = f"{self.tag}_{name}"
        self.tlc_names.append(n)
        return n

    def rec(self, name):
        n = f"{self.tag}_{name}"
        self.rec_names.append(n)
        self.tlc_names.append(f"rec_{n}_0")
        return n

    def workdir(self, name):
        d = os.path.join(WORK, f"{self.tag}_{name}")
        shutil.rmtree(d, ignore_errors=True)
        os.makedirs(d, exist_ok=True)
        self.dirs.append(d)
        return d

    def cleanup(self):
        for n in self.tlc_names:
            shutil.rmtree(os.path.join(WORK, "tlc", n), ignore_errors=True)
        for n in self.rec_names:
            shutil.rmtree(os.path.join(WORK, "records", n), ignore_errors=True)
        for d in self.dirs:
            shutil.rmtree(d, ignore_errors=True)


# ---------------------------------------------------------------- exceptions: library failure or the harness's own misuse
def library_site(ex):
    """"module.function" if the exception was raised inside the wannierberri package, None if it was raised at the
    harness's own call site (unknown keyword, renamed private attribute, ...).  Environment errors are re-raised."""
    if isinstance(ex, ENVIRONMENT_ERRORS):
        raise ex
    from ..main import raised_by_code_under_test
    return raised_by_code_under_test(ex)


def skipped(rep, site, ex):
    """a private name the harness needs is gone / has another signature: the sub-check is skipped, never a VIOLATION"""
    old = rep.parts.get("skipped_private", {})
    ent = old.get(site, dict(count=0, error=f"{type(ex).__name__}: {ex}"[:300]))
    ent["count"] += 1
    rep.part("skipped_private", **{site: ent})


def was_skipped(rep, *sites):
    sk = rep.parts.get("skipped_private", {})
    return any(s in sk for s in sites)


def guarded(rep, site, detail, fn, *a, **kw):
    """call fn; -> (True, value) or (False, None).  An exception raised inside the package becomes the violation
    raises:<site>:<ExcType>; one raised at the harness's call site is recorded under skipped_private."""
    try:
        return True, fn(*a, **kw)
    except Exception as ex:
        if library_site(ex) is not None:
            rep.violation(f"raises:{site}:{type(ex).__name__}", dict(detail, exception=repr(ex)[:400], raised_in=library_site(ex)))
        else:
            skipped(rep, site, ex)
        return False, None


def info(rep, name, key, n=1):
    """information that never decides (internal detail the property statement does not name)"""
    d = rep.parts.get(name, {})
    rep.part(name, **{key: d.get(key, 0) + n})


# ---------------------------------------------------------------- TLC dumps
def states_where(st, marker='pc = "done"', prob=1.0, rng=None, always=None):
    """parsed states of a TLC dump that contain `marker` (cheap text filter before parsing), in an order that does not
    depend on TLC's worker scheduling: the state texts are sorted before anything is drawn.  prob < 1: each state is kept
    with this probability (seeded rng; a fixed stride would be in phase with the enumeration); states containing one
    of the `always` strings are kept in any case (rare classes)"""
    p = st.get("dump_path")
    if not p or not os.path.exists(p):
        raise MachineryError(f"no state dump produced ({st.get('meta')})")
    with open(p) as f:
        text = f.read()
    chunks = sorted(ch for ch in re.split(r"(?m)^State \d+:\s*$", text)[1:] if marker in ch)
    for chunk in chunks:
        if prob >= 1.0 or (always and any(a in chunk for a in always)) or rng.random() < prob:
            yield tlaparse.parse_state_body(chunk)


def lcm(a, b):
    return a // gcd(a, b) * b


def rat(x, maxden=2000, tol=1e-9):
    """the fraction with denominator <= maxden nearest to the float x, None if it is farther than tol"""
    if not np.isfinite(x):
        return None
    fr = Fraction(float(x)).limit_denominator(maxden)
    if abs(float(fr) - float(x)) > tol:
        return None
    return fr


def rat_point(v, maxden=2000):
    """float 3-vector -> reduced [x, y, z, d] with v = (x, y, z)/d, None if a coordinate is not such a rational"""
    fr = [rat(c, maxden) for c in v]
    if any(f is None for f in fr):
        return None
    d = 1
    for f in fr:
        d = lcm(d, f.denominator)
    return [int(f * d) for f in fr] + [d]


def pt_float(p, nd=1):
    return [p[0] / (p[3] * nd), p[1] / (p[3] * nd), p[2] / (p[3] * nd)]


def cmp_points(got, exp, nd=1, tol=1e-9):
    """got: float array (n, 3); exp: sequence of (x, y, z, d). Returns None if got[j] * d * nd is integral (within tol) and
    equal to (x, y, z) for every j, else a short description"""
    got = np.asarray(got, dtype=float)
    if got.shape != (len(exp), 3):
        return f"shape {got.shape} instead of {(len(exp), 3)}"
    for j, p in enumerate(exp):
        v = got[j] * (p[3] * nd)
        r = np.rint(v)
        if not np.all(np.isfinite(v)) or np.max(np.abs(v - r)) > tol:
            return f"point {j}: {got[j].tolist()} is not a multiple of 1/{p[3] * nd}"
        if [int(x) for x in r] != [p[0], p[1], p[2]]:
            return f"point {j}: {got[j].tolist()} * {p[3] * nd} != {list(p[:3])}"
    return None


def diff_mod1(a, b):
    """largest coordinate difference of two k-point arrays modulo reciprocal lattice vectors (inf if shapes differ)"""
    a = np.asarray(a, dtype=float)
    b = np.asarray(b, dtype=float)
    if a.shape != b.shape:
        return float("inf")
    if a.size == 0:
        return 0.0
    d = a - b
    d -= np.round(d)
    return float(np.max(np.abs(d)))


# ---------------------------------------------------------------- tiny models
def random_system(rng, nw=3, generators=None, lattice=None, centres=False, aa=False, real=False):
    """tiny random tight-binding model (complex Hermitian hoppings).
    generators: list of integer 3x3 matrices acting on R (reduced coordinates) under which the hoppings are made
    invariant (H(gR) = H(R)); with generators every H(R) is taken Hermitian (then H(R) = H(-R) is consistent with any
    point group: the model is inversion symmetric as well, time reversal stays broken by the complex entries) and all
    orbitals sit at the origin.  real: real hoppings (time-reversal symmetric spinless model).
    centres: random Wannier centres inside the cell; aa: random position matrix elements AA(R) (Hermitian under
    R -> -R, diagonal of AA(0) = the centres) -- both only without generators."""
    import wannierberri as wb
    r = np.random.RandomState(rng.randrange(1 << 30))
    if generators and (centres or aa):
        raise MachineryError("random_system: centres / AA only for models without imposed point group")
    group = [np.eye(3, dtype=int)]
    if generators:
        gens = [np.array(g, dtype=int) for g in generators]
        changed = True
        while changed:
            changed = False
            for g in list(group):
                for h in gens:
                    m = h @ g
                    if not any(np.array_equal(m, x) for x in group):
                        group.append(m)
                        changed = True
            if len(group) > 96:
                raise MachineryError("group generation does not close")
    reps = [(0, 0, 0), (1, 0, 0), (0, 1, 0), (0, 0, 1), (1, 1, 0), (1, 0, 1)]
    ham = {}
    for R in reps:
        if R in ham:
            continue
        M = r.randn(nw, nw) + (0 if real else 1j) * r.randn(nw, nw)
        if R == (0, 0, 0) or generators:
            M = (M + M.conj().T) / 2
        if R != (0, 0, 0):
            M = M * 0.5
        for g in group:
            gR = tuple(int(x) for x in g @ np.array(R))
            if gR not in ham:
                ham[gR] = M
            mR = tuple(-x for x in gR)
            if mR not in ham:
                ham[mR] = M.conj().T
    for R, M in ham.items():
        mR = tuple(-x for x in R)
        if np.max(np.abs(ham[mR] - M.conj().T)) > 1e-14:
            raise MachineryError("random_system: hoppings are not Hermitian under R -> -R")
    lat = np.array(lattice, dtype=float) if lattice is not None else np.eye(3) + 0.1 * r.randn(3, 3)
    cen = r.rand(nw, 3) if centres else np.zeros((nw, 3))
    mats = {"Ham": {R: {(i, j): M[i, j] for i in range(nw) for j in range(nw)} for R, M in ham.items()}}
    if aa:
        amat = {}
        for R in sorted(ham):
            if R in amat:
                continue
            X = 0.3 * (r.randn(nw, nw, 3) + 1j * r.randn(nw, nw, 3))
            if R == (0, 0, 0):
                X = (X + X.conj().transpose(1, 0, 2)) / 2
                cc = cen @ lat
                for i in range(nw):
                    X[i, i] = cc[i]
            amat[R] = X
            amat[tuple(-x for x in R)] = X.conj().transpose(1, 0, 2) if R != (0, 0, 0) else X
        mats["AA"] = {R: {(i, j): X[i, j] for i in range(nw) for j in range(nw)} for R, X in amat.items()}
    with quiet():
        s = wb.system.System_R.from_sparse(real_lattice=lat, wannier_centers_red=cen, matrices=mats)
    return s


WHICH = ("Energy", "berry", "vel", "mass")


def tab_calculators(which=WHICH, external=False):
    """fresh tabulators: Energy, Berry curvature (rank 1, pseudovector), velocity (rank 1), inverse mass (rank 2)"""
    from wannierberri import calculators as calc
    all_ = {"Energy": lambda: calc.tabulate.Energy(),
            "berry": lambda: calc.tabulate.BerryCurvature(kwargs_formula={"external_terms": bool(external)}),
            "vel": lambda: calc.tabulate.Velocity(kwargs_formula={"external_terms": bool(external)}),
            "mass": lambda: calc.tabulate.InvMass()}
    return {k: all_[k]() for k in which}


def eval_point(system, k, which=WHICH, external=False):
    """the quantities at the single point k (reduced coordinates), evaluated alone: dict name -> array (nb, ...)"""
    import wannierberri as wb
    with quiet():
        res = wb.evaluate_k(system, k=tuple(float(x) for x in k), calculators=tab_calculators(which, external), return_single_as_dict=True)
    return {q: np.array(res[q].data[0]) for q in which}
