"""helpers shared by c29.py and c30.py (no property registered here)"""
import re
from fractions import Fraction
from math import gcd

import numpy as np

from .. import tlaparse
from ..common import MachineryError, quiet


def states_where(st, marker='pc = "done"', prob=1.0, rng=None, always=None):
    """parsed states of a TLC dump that contain `marker` (cheap text filter before parsing); prob < 1: each such state
    is kept with this probability (seeded rng) -- a fixed stride would be in phase with TLC's enumeration order;
    states containing one of the `always` strings are kept in any case (rare classes)"""
    p = st.get("dump_path")
    with open(p) as f:
        text = f.read()
    for chunk in re.split(r"(?m)^State \d+:\s*$", text)[1:]:
        if marker in chunk and (prob >= 1.0 or (always and any(a in chunk for a in always)) or rng.random() < prob):
            yield tlaparse.parse_state_body(chunk)


def lcm(a, b):
    return a // gcd(a, b) * b


def rat(x, maxden=2000, tol=1e-9):
    """the unique fraction with denominator <= maxden within tol of the float x (None if there is none)"""
    fr = Fraction(float(x)).limit_denominator(maxden)
    if abs(float(fr) - float(x)) > tol:
        return None
    return fr


def rat_point(v, maxden=2000):
    """float 3-vector -> reduced [x, y, z, d] with v = (x, y, z)/d, None if a coordinate is not such a rational"""
    fr = [rat(c, maxden) for c in v]
    if any(f is None for f in fr):
        return None
    d = 1
    for f in fr:
        d = lcm(d, f.denominator)
    return [int(f * d) for f in fr] + [d]


def pt_float(p, nd=1):
    return [p[0] / (p[3] * nd), p[1] / (p[3] * nd), p[2] / (p[3] * nd)]


def cmp_points(got, exp, nd=1, tol=1e-9):
    """got: float array (n, 3); exp: sequence of (x, y, z, d). Returns None if got[j] * d * nd is integral (within tol) and
    equal to (x, y, z) for every j, else a short description"""
    got = np.asarray(got, dtype=float)
    if got.shape != (len(exp), 3):
        return f"shape {got.shape} instead of {(len(exp), 3)}"
    for j, p in enumerate(exp):
        v = got[j] * (p[3] * nd)
        r = np.rint(v)
        if np.max(np.abs(v - r)) > tol:
            return f"point {j}: {got[j].tolist()} is not a multiple of 1/{p[3] * nd}"
        if [int(x) for x in r] != [p[0], p[1], p[2]]:
            return f"point {j}: {got[j].tolist()} * {p[3] * nd} != {list(p[:3])}"
    return None


def random_system(rng, nw=3, generators=None, lattice=None):
    """tiny random tight-binding model (complex Hermitian hoppings, all orbitals at the origin).
    generators: list of integer 3x3 matrices acting on R (reduced coordinates) under which the hoppings are made
    invariant (H(gR) = H(R)); with generators every H(R) is taken Hermitian (then H(R) = H(-R) is consistent with any
    point group: the model is inversion symmetric as well, time reversal stays broken by the complex entries)."""
    import wannierberri as wb
    r = np.random.RandomState(rng.randrange(1 << 30))
    group = [np.eye(3, dtype=int)]
    if generators:
        gens = [np.array(g, dtype=int) for g in generators]
        changed = True
        while changed:
            changed = False
            for g in list(group):
                for h in gens:
                    m = h @ g
                    if not any(np.array_equal(m, x) for x in group):
                        group.append(m)
                        changed = True
            if len(group) > 96:
                raise MachineryError("group generation does not close")
    reps = [(0, 0, 0), (1, 0, 0), (0, 1, 0), (0, 0, 1), (1, 1, 0), (1, 0, 1)]
    ham = {}
    for R in reps:
        if R in ham:
            continue
        M = r.randn(nw, nw) + 1j * r.randn(nw, nw)
        if R == (0, 0, 0) or generators:
            M = (M + M.conj().T) / 2
        if R != (0, 0, 0):
            M = M * 0.5
        for g in group:
            gR = tuple(int(x) for x in g @ np.array(R))
            if gR not in ham:
                ham[gR] = M
            mR = tuple(-x for x in gR)
            if mR not in ham:
                ham[mR] = M.conj().T
    for R, M in ham.items():
        mR = tuple(-x for x in R)
        if np.max(np.abs(ham[mR] - M.conj().T)) > 1e-14:
            raise MachineryError("random_system: hoppings are not Hermitian under R -> -R")
    mats = {R: {(i, j): M[i, j] for i in range(nw) for j in range(nw)} for R, M in ham.items()}
    lat = np.array(lattice, dtype=float) if lattice is not None else np.eye(3) + 0.1 * r.randn(3, 3)
    cen = np.zeros((nw, 3))
    with quiet():
        s = wb.system.System_R.from_sparse(real_lattice=lat, wannier_centers_red=cen, matrices={"Ham": mats})
    return s


def tab_calculators(which=("Energy", "berry", "vel")):
    from wannierberri import calculators as calc
    all_ = {"Energy": lambda: calc.tabulate.Energy(),
            "berry": lambda: calc.tabulate.BerryCurvature(kwargs_formula={"external_terms": False}),
            "vel": lambda: calc.tabulate.Velocity(kwargs_formula={"external_terms": False})}
    return {k: all_[k]() for k in which}


def eval_point(system, k, which=("Energy", "berry", "vel")):
    """the quantities at the single point k (reduced coordinates), evaluated alone: dict name -> array (nb, ...)"""
    import wannierberri as wb
    with quiet():
        res = wb.evaluate_k(system, k=tuple(float(x) for x in k), calculators=tab_calculators(which), return_single_as_dict=True)
    return {q: np.array(res[q].data[0]) for q in which}
