"""Seeded random abstract systems and recorded calls of the real code (code -> spec records) for props/sysalg.py."""
import itertools
import warnings
import numpy as np

from ..common import quiet
from . import _sysalg_world as W


def rand_gauss(rng, amp):
    return complex(rng.randint(-amp, amp), rng.randint(-amp, amp))


def rand_sys(rng, nw=None, rmax=1, amp=3, scale=1, cen_choices=(0, 3, 4, 6, 9), with_x=None, dirs=2, nhop=None):
    """random Hermitian abstract system with Gaussian-integer amplitudes (multiples of `scale`)"""
    nw = nw or rng.choice([1, 2, 2, 3])
    allR = [R for R in itertools.product(*[range(-rmax, rmax + 1) if c < dirs else [0] for c in range(3)])
            if R > (0, 0, 0)]
    rng.shuffle(allR)
    pos = allR[:rng.randint(1, min(len(allR), 3))]
    rs = sorted(set([(0, 0, 0)] + pos + [tuple(-x for x in R) for R in pos]))
    H = {R: np.zeros((nw, nw), dtype=complex) for R in rs}
    X = {R: np.zeros((nw, nw), dtype=complex) for R in rs}
    for M in (H, X):
        for R in pos:
            mR = tuple(-x for x in R)
            for a in range(nw):
                for b in range(nw):
                    if rng.random() < 0.6:
                        v = scale * rand_gauss(rng, amp)
                        M[R][a, b] = v
                        M[mR][b, a] = np.conj(v)
        for a in range(nw):
            M[(0, 0, 0)][a, a] = scale * rng.randint(-amp, amp)
            for b in range(a + 1, nw):
                v = scale * rand_gauss(rng, amp)
                M[(0, 0, 0)][a, b] = v
                M[(0, 0, 0)][b, a] = np.conj(v)
    # centres: groups of co-centred functions
    cen = np.zeros((nw, 3), dtype=int)
    a = 0
    while a < nw:
        g = rng.randint(1, nw - a)
        c = [rng.choice(cen_choices), rng.choice(cen_choices), 0]
        cen[a:a + g] = c
        a += g
    hasx = rng.random() < 0.5 if with_x is None else with_x
    if not hasx:
        X = {R: np.zeros((nw, nw), dtype=complex) for R in rs}
    return dict(nw=nw, cen=cen, rs=rs, H=H, hasX=hasx, X=X, spinor=False)


def rand_same_rs(rng, a, amp=3):
    """another random Hermitian system on the same R-set and centres"""
    nw = a["nw"]
    b = dict(nw=nw, cen=a["cen"].copy(), rs=list(a["rs"]), hasX=False, spinor=False,
             H={R: np.zeros((nw, nw), dtype=complex) for R in a["rs"]}, X={R: np.zeros((nw, nw), dtype=complex) for R in a["rs"]})
    for R in a["rs"]:
        mR = tuple(-x for x in R)
        if R > mR:
            m = np.array([[rand_gauss(rng, amp) for _ in range(nw)] for _ in range(nw)])
            b["H"][R], b["H"][mR] = m, m.conj().T
        elif R == mR:
            m = np.array([[rand_gauss(rng, amp) for _ in range(nw)] for _ in range(nw)])
            b["H"][R] = np.triu(m, 1) + np.triu(m, 1).conj().T + np.diag(np.diag(m).real)
    return b


def rand_phase_perm(rng, a):
    """exact unitary among co-centred functions"""
    nw = a["nw"]
    groups = {}
    for i in range(nw):
        groups.setdefault(tuple(a["cen"][i]), []).append(i)
    U = np.zeros((nw, nw), dtype=complex)
    for idx in groups.values():
        tgt = idx[:]
        rng.shuffle(tgt)
        for i, j in zip(idx, tgt):
            U[i, j] = (1j) ** rng.randint(0, 3)
    return U


def rand_soc_data(rng, nw, amp=2):
    pos = [(1, 0, 0)] if rng.random() < 0.6 else []
    rsS = sorted(set([(0, 0, 0)] + pos + [tuple(-x for x in R) for R in pos]))
    D = {st: {R: np.zeros((nw, nw, 3), dtype=complex) for R in rsS} for st in ("00", "11", "01")}
    for st in ("00", "11"):
        for R in [(0, 0, 0)] + pos:
            mR = tuple(-x for x in R)
            for m in range(nw):
                for n in range(nw):
                    for c in range(3):
                        if rng.random() < 0.4:
                            if R == (0, 0, 0) and m == n:
                                D[st][R][m, n, c] = rng.randint(-amp, amp)
                            elif R == (0, 0, 0) and m > n:
                                continue
                            else:
                                v = rand_gauss(rng, amp)
                                D[st][R][m, n, c] = v
                                D[st][mR][n, m, c] = np.conj(v)
    for R in rsS:
        for m in range(nw):
            for n in range(nw):
                for c in range(3):
                    if rng.random() < 0.4:
                        D["01"][R][m, n, c] = rand_gauss(rng, amp)
    return rsS, D


PAULI = np.array([[[0, 1], [1, 0]], [[0, -1j], [1j, 0]], [[1, 0], [0, -1]]], dtype=complex)


def exact_pauli_rot(m, n):
    from wannierberri.w90files.soc import SOC
    P = SOC.get_pauli_rotated(theta=m * np.pi / 2, phi=n * np.pi / 2)      # [i, j, c]
    return np.transpose(W._round_gauss(P, "pauli_rotated"), (2, 0, 1))


# ------------------------------------------------------------------ recorded calls
def rec_reorder(rng, a):
    p = list(range(a["nw"]))
    rng.shuffle(p)
    s = W.build(a)
    with quiet():
        s.reorder(p)
    out, views = W.project(s)
    return dict(fn="reorder", sys=W.sys_json(a), p=[x + 1 for x in p], out=W.sys_json(out)), views, out


def rec_rotate(rng, a):
    U = rand_phase_perm(rng, a)
    s = W.op_rotate(W.build(a), U)
    out, views = W.project(s)
    return dict(fn="rotate", sys=W.sys_json(a), U=W.mat_json(U), out=W.sys_json(out)), views, out


def rec_doublespin(rng, a):
    s = W.build(a)
    with quiet(), warnings.catch_warnings():
        warnings.simplefilter("ignore")
        s.double_spin()
    out, views = W.project(s)
    ss = W._round_gauss(np.array(s.get_R_mat("SS"))[s.rvec.iR0], "SS")
    return dict(fn="doublespin", sys=W.sys_json(a), out=W.sys_json(out),
                ss=[W.mat_json(ss[:, :, c]) for c in range(3)]), views, out


def make_real_soc(up, dn, socdata=None, m=0, n=0, al=1):
    soc = W.make_soc(W.build(up), W.build(dn))
    a = dict(up=up, dn=dn, hassoc=False, rsS=[(0, 0, 0)],
             D={st: {(0, 0, 0): np.zeros((up["nw"], up["nw"], 3), dtype=complex)} for st in ("00", "11", "01")},
             P=PAULI.copy(), al=0)
    if socdata is not None:
        rsS, D = socdata
        a.update(hassoc=True, rsS=rsS, D=D, al=al, P=exact_pauli_rot(m, n))
        W.set_soc(soc, a, m, n)
    return soc, a


def rec_soc_hk(rng, up, dn, socdata, m, n, al, ks):
    soc, a = make_real_soc(up, dn, socdata, m, n, al)
    hk = W._round_gauss(W.real_hk(soc, ks), "Data_K_soc.HH_K")
    rec = dict(fn="soc_hk", soc=W.soc_json(a), ks=[list(k) for k in ks], hk=[W.mat_json(h) for h in hk], hsoc=[])
    if a["hassoc"]:
        hs = W._round_gauss(soc.get_R_mat("Ham_SOC"), "Ham_SOC")
        rs = [tuple(int(x) for x in R) for R in soc.rvec.iRvec]
        rec["hsoc"] = [W.mat_json(hs[rs.index(R)]) for R in a["rsS"]]
    return rec, soc, a


def rec_toplain(soc, a):
    with quiet(), warnings.catch_warnings():
        warnings.simplefilter("ignore")
        plain = soc.get_system_R()
    out, views = W.project(plain)
    out["spinor"] = True
    return dict(fn="toplain", soc=W.soc_json(a), out=W.sys_json(out)), views, out, plain


def rec_interp(rng, s0, s1, a, den):
    from wannierberri.system.interpolate import SystemInterpolator
    with quiet(), warnings.catch_warnings():
        warnings.simplefilter("ignore")
        res = SystemInterpolator(W.build(s0), W.build(s1)).interpolate(a / den)
    out, views = W.project(res)
    return dict(fn="interp", s0=W.sys_json(s0), s1=W.sys_json(s1), a=a, den=den, out=W.sys_json(out)), views, out
