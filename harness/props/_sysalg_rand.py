"""Seeded random abstract systems and recorded calls of the real code (code -> spec records) for props/sysalg.py."""
import itertools
import warnings
import numpy as np

from ..common import quiet
from . import _sysalg_world as W


def rand_gauss(rng, amp):
    return complex(rng.randint(-amp, amp), rng.randint(-amp, amp))


def rand_sys(rng, nw=None, rmax=1, amp=3, scale=1, cen_choices=(0, 3, 4, 6, 9), with_x=None, dirs=2, nhop=None):
    """random Hermitian abstract system with Gaussian-integer amplitudes (multiples of `scale`)"""
    nw = nw or rng.choice([1, 2, 2, 3])
    allR = [R for R in itertools.product(*[range(-rmax, rmax + 1) if c < dirs else [0] for c in range(3)])
            if R > (0, 0, 0)]
    rng.shuffle(allR)
    pos = allR[:rng.randint(1, min(len(allR), 3))]
    rs = sorted(set([(0, 0, 0)] + pos + [tuple(-x for x in R) for R in pos]))
    H = {R: np.zeros((nw, nw), dtype=complex) for R in rs}
    X = {R: np.zeros((nw, nw), dtype=complex) for R in rs}
    for M in (H, X):
        for R in pos:
            mR = tuple(-x for x in R)
            for a in range(nw):
                for b in range(nw):
                    if rng.random() < 0.6:
                        v = scale * rand_gauss(rng, amp)
                        M[R][a, b] = v
                        M[mR][b, a] = np.conj(v)
        for a in range(nw):
            M[(0, 0, 0)][a, a] = scale * rng.randint(-amp, amp)
            for b in range(a + 1, nw):
                v = scale * rand_gauss(rng, amp)
                M[(0, 0, 0)][a, b] = v
                M[(0, 0, 0)][b, a] = np.conj(v)
    # centres: groups of co-centred functions
    cen = np.zeros((nw, 3), dtype=int)
    a = 0
    while a < nw:
        g = rng.randint(1, nw - a)
        c = [rng.choice(cen_choices), rng.choice(cen_choices), 0]
        cen[a:a + g] = c
        a += g
    hasx = rng.random() < 0.5 if with_x is None else with_x
    if not hasx:
        X = {R: np.zeros((nw, nw), dtype=complex) for R in rs}
    return dict(nw=nw, cen=cen, rs=rs, H=H, hasX=hasx, X=X, spinor=False)


def rand_same_rs(rng, a, amp=3):
    """another random Hermitian system on the same R-set and centres"""
    nw = a["nw"]
    b = dict(nw=nw, cen=a["cen"].copy(), rs=list(a["rs"]), hasX=False, spinor=False,
             H={R: np.zeros((nw, nw), dtype=complex) for R in a["rs"]}, X={R: np.zeros((nw, nw), dtype=complex) for R in a["rs"]})
    for R in a["rs"]:
        mR = tuple(-x for x in R)
        if R > mR:
            m = np.array([[rand_gauss(rng, amp) for _ in range(nw)] for _ in range(nw)])
            b["H"][R], b["H"][mR] = m, m.conj().T
        elif R == mR:
            m = np.array([[rand_gauss(rng, amp) for _ in range(nw)] for _ in range(nw)])
            b["H"][R] = np.triu(m, 1) + np.triu(m, 1).conj().T + np.diag(np.diag(m).real)
    return b


def rand_phase_perm(rng, a):
    """exact unitary among co-centred functions"""
    nw = a["nw"]
    groups = {}
    for i in range(nw):
        groups.setdefault(tuple(a["cen"][i]), []).append(i)
    U = np.zeros((nw, nw), dtype=complex)
    for idx in groups.values():
        tgt = idx[:]
        rng.shuffle(tgt)
        for i, j in zip(idx, tgt):
            U[i, j] = (1j) ** rng.randint(0, 3)
    return U


def rand_soc_data(rng, nw, amp=2):
    pos = [(1, 0, 0)] if rng.random() < 0.6 else []
    rsS = sorted(set([(0, 0, 0)] + pos + [tuple(-x for x in R) for R in pos]))
    D = {st: {R: np.zeros((nw, nw, 3), dtype=complex) for R in rsS} for st in ("00", "11", "01")}
    for st in ("00", "11"):
        for R in [(0, 0, 0)] + pos:
            mR = tuple(-x for x in R)
            for m in range(nw):
                for n in range(nw):
                    for c in range(3):
                        if rng.random() < 0.4:
                            if R == (0, 0, 0) and m == n:
                                D[st][R][m, n, c] = rng.randint(-amp, amp)
                            elif R == (0, 0, 0) and m > n:
                                continue
                            else:
                                v = rand_gauss(rng, amp)
                                D[st][R][m, n, c] = v
                                D[st][mR][n, m, c] = np.conj(v)
    for R in rsS:
        for m in range(nw):
            for n in range(nw):
                for c in range(3):
                    if rng.random() < 0.4:
                        D["01"][R][m, n, c] = rand_gauss(rng, amp)
    return rsS, D


PAULI = np.array([[[0, 1], [1, 0]], [[0, -1j], [1j, 0]], [[1, 0], [0, -1]]], dtype=complex)


class PauliNotExact(W.NonIntegral):
    """the code's rotated Pauli matrices for an angle in multiples of pi/2 are not Gaussian integers: a valid other choice
    cannot be written into an exact record (it is then checked numerically)"""


def exact_pauli_rot(m, n):
    """the CODE's rotated Pauli matrices as P[c, s, t], exact"""
    try:
        return W._round_gauss(W.code_pauli(m, n), "pauli_rotated")
    except W.NonIntegral as ex:
        raise PauliNotExact(str(ex))


def _bkw(var):
    return {} if var is None else dict(periodic=var["periodic"], lattice=var["lattice"])


# ------------------------------------------------------------------ recorded calls (only the public call runs through under_test)
def rec_reorder(rng, a, p=None, var=None):
    if p is None:
        p = list(range(a["nw"]))
        rng.shuffle(p)
    s = W.build(a, **_bkw(var))
    with quiet():
        W.under_test(s.reorder, p)
    out, views = W.project(s)
    return dict(fn="reorder", sys=W.sys_json(a), p=[x + 1 for x in p], out=W.sys_json(out)), views, out


def rec_rotate(rng, a, var=None):
    U = rand_phase_perm(rng, a)
    s = W.op_rotate(W.build(a, **_bkw(var)), U)
    out, views = W.project(s)
    return dict(fn="rotate", sys=W.sys_json(a), U=W.mat_json(U), out=W.sys_json(out)), views, out


def with_named(rng, a, amp=3):
    """the abstract system with every named real-space matrix the package and the specification know (random Gaussian integers)"""
    names = W.named_names()
    nw = a["nw"]
    M = {}
    for n in names:
        nc = 3 ** W.SPEC_RANKS[n]
        M[n] = {R: [np.array([[rand_gauss(rng, amp) for _ in range(nw)] for _ in range(nw)]) for _ in range(nc)] for R in a["rs"]}
    return dict(a, M=M), names


def rec_named(rng, a, what, var=None, p=None):
    """reorder / rotation of a system that carries all named matrices: every one of them is read back with get_R_mat"""
    a, names = with_named(rng, a)
    s = W.build(a, **_bkw(var))
    if what == "reorder":
        if p is None:
            p = list(range(a["nw"]))
            while p == sorted(p) and a["nw"] > 1:
                rng.shuffle(p)
        with quiet():
            W.under_test(s.reorder, p)
        extra = dict(fn="reorder_named", p=[x + 1 for x in p])
    else:
        U = rand_phase_perm(rng, a)
        W.op_rotate(s, U)
        extra = dict(fn="rotate_named", U=W.mat_json(U))
    out, views = W.project(s)
    missing = [n for n in names if n not in out["M"]]
    if missing:
        raise W.NonIntegral(f"the matrices {missing} are gone after the operation")
    rec = dict(extra, sys=W.sys_json(a), names=names, mats=W.named_json(a, names), out=W.sys_json(out), outmats=W.named_json(out, names))
    return rec, views, out


def rec_doublespin(rng, a, var=None):
    from . import _sysalg_ops as O
    s = W.build(a, **_bkw(var))
    with quiet(), warnings.catch_warnings():
        warnings.simplefilter("ignore")
        W.under_test(s.double_spin)
        ok = O.normalise_double_spin(s)
    out, views = W.project(s)
    ss0 = O.ss_at_R0(s)
    ss = W._round_gauss(ss0 if ss0 is not None else O.interlaced_ss(2 * a["nw"]), "SS")
    rec = dict(fn="doublespin", sys=W.sys_json(a), out=W.sys_json(out), ss=[W.mat_json(ss[:, :, c]) for c in range(3)])
    return rec, views, out, ok


def make_real_soc(up, dn, socdata=None, m=0, n=0, al=1, nspin=2, var=None, degrees=False):
    """real SystemSOC and its abstract description. nspin = 1: SystemSOC(up) (dn is ignored, the abstract system has dn = up and
    all spin blocks of the SOC data taken from the 0,0 block)"""
    if nspin == 1:
        dn = up
    soc = W.make_soc(W.build(up, **_bkw(var)), None if nspin == 1 else W.build(dn, **_bkw(var)))
    a = dict(up=up, dn=dn, hassoc=False, rsS=[(0, 0, 0)],
             D={st: {(0, 0, 0): np.zeros((up["nw"], up["nw"], 3), dtype=complex)} for st in ("00", "11", "01")},
             P=PAULI.copy(), al=0)
    ret = (None, None)
    if socdata is not None:
        rsS, D = socdata
        if nspin == 1:
            D = W.nspin1_D(D)
        a.update(hassoc=True, rsS=rsS, D=D, al=al, P=exact_pauli_rot(m, n))
        ret = W.set_soc(soc, a, m, n, nspin=nspin, degrees=degrees)
    a["ret"] = ret
    return soc, a


def rec_soc_hk(rng, up, dn, socdata, m, n, al, ks, nspin=2, var=None, degrees=False):
    soc, a = make_real_soc(up, dn, socdata, m, n, al, nspin=nspin, var=var, degrees=degrees)
    hk = W._round_gauss(W.under_test(W.real_hk, soc, ks), "Data_K_soc.HH_K")
    rec = dict(fn="soc_hk", soc=W.soc_json(a), ks=[list(k) for k in ks], hk=[W.mat_json(h) for h in hk], hsoc=[], nspin=nspin)
    if a["hassoc"] and a["ret"][0] is not None:
        hs = W._round_gauss(a["ret"][0], "Ham_SOC")
        rs = [tuple(int(x) for x in R) for R in soc.rvec.iRvec]
        rec["hsoc"] = [W.mat_json(hs[rs.index(R)]) for R in a["rsS"]]
    elif a["hassoc"]:
        rec["hsoc"] = [W.mat_json(W.abs_ham_soc(a)[R]) for R in a["rsS"]]       # not reachable: the clause is then trivially true
    return rec, soc, a


def rec_toplain(soc, a):
    with quiet(), warnings.catch_warnings():
        warnings.simplefilter("ignore")
        plain = W.under_test(soc.get_system_R)
    out, views = W.project(plain)
    return dict(fn="toplain", soc=W.soc_json(a), out=W.sys_json(out)), views, out, plain


def rec_interp(rng, s0, s1, a, den, var=None, use_pointgroup=1, reuse=False, shuffle=False):
    from wannierberri.system.interpolate import SystemInterpolator
    from . import _sysalg_ops as O
    with quiet(), warnings.catch_warnings():
        warnings.simplefilter("ignore")
        r0, r1 = W.build(s0, **_bkw(var)), W.build(s1, **_bkw(var))
        if shuffle:
            W.shuffle_R(r1)
        itp = W.under_test(SystemInterpolator, r0, r1, use_pointgroup=use_pointgroup) if use_pointgroup != 1 else W.under_test(SystemInterpolator, r0, r1)
        if reuse:
            O._mutate(W.under_test(itp.interpolate, a / den))
        res = W.under_test(itp.interpolate, a / den)
    out, views = W.project(res)
    return dict(fn="interp", s0=W.sys_json(s0), s1=W.sys_json(s1), a=a, den=den, out=W.sys_json(out)), views, out


def scaled_soc_data(rng, nw, scale):
    rsS, D = rand_soc_data(rng, nw)
    return rsS, {st: {R: D[st][R] * scale for R in rsS} for st in D}


def rec_interp_soc(rng, a, den, ks, nw=None, var=None, nspins=(2, 2)):
    """SystemInterpolatorSOC between two spin-orbit systems with SOC terms (all data multiples of den): H(k) of Data_K_soc.
    nspins: the numbers of spin channels of the two systems; a system with one channel (SystemSOC(up)) is described abstractly with
    down = up and all SOC blocks from the 0,0 block, so that in a mixed pair it contributes its single channel to both channels of the result"""
    from wannierberri.system.interpolate import SystemInterpolatorSOC
    nw = nw or rng.choice([1, 2])
    socs = []
    for nspin in nspins:
        up, dn = rand_sys(rng, nw=nw, with_x=False, scale=den), rand_sys(rng, nw=nw, with_x=False, scale=den)
        socs.append(make_real_soc(up, dn, scaled_soc_data(rng, nw, den), rng.randint(0, 3), rng.randint(0, 3), rng.choice([1, 2, -1]), nspin=nspin, var=var))
    (r0, a0), (r1, a1) = socs
    with quiet(), warnings.catch_warnings():
        warnings.simplefilter("ignore")
        itp = W.under_test(SystemInterpolatorSOC, r0, r1)
        res = W.under_test(itp.interpolate, a / den)
        hk = W._round_gauss(W.under_test(W.real_hk, res, ks), "Data_K_soc.HH_K of the interpolated system")
    for x in (a0, a1):
        x.pop("ret", None)
    rec = dict(fn="interp_soc", soc0=W.soc_json(a0), soc1=W.soc_json(a1), a=a, den=den, ks=[list(k) for k in ks], hk=[W.mat_json(h) for h in hk],
               nspins=list(nspins))
    return rec, res, (a0, a1)
