"""C16: result objects behave as vectors and survive saving.

spec  : ResultAlg.tla (operators named like the methods of wannierberri/result/*.py + the store state machine, the laws
        as invariants), MC_ResultAlg.tla (families of EnergyResult / KBandResult / ResultDict / VoidResult objects with
        integer data, all operation sequences up to MaxOps)
bind  : spec -> code: every behaviour of the bounded model (operation sequence) is executed on the real classes and
        the whole store (data, shapes, energies, rank, transforms, comment) and the written .npz files are compared with
        the specification after every operation; thorough adds longer behaviours from `tlc -simulate`
        code -> spec: results of the real operators on random objects (larger shapes, rank <= 3, complex data, random
        scalars / point operations) are recorded and every clause of ResultAlgRec is evaluated on them by TLC
"""
import os
import copy
import glob
import random
import shutil

import numpy as np

from .. import tlc, ftable
from ..common import Report, MachineryError, seed, workdir
from . import _resultalg as RA

PROPS = {
    "C16": dict(level="model_checking",
                technique="TLC exhaustive on ResultAlg.tla (store of result objects, every operator sequence up to MaxOps, vector-space / Void / "
                          "transform / save-load laws as invariants) + replay of every TLC behaviour on the real classes with comparison of the "
                          "whole store after each operation + TLC validation of recorded operator results (ResultAlgRec.tla)",
                text="TLC applies Add, Sub, add(), MulScalar, DivScalar, Void on either side, Transform(g) for g in {1, I, T, C4z, Mx, T*Mx}, "
                     "SaveNpz/LoadNpz in every order to stores of EnergyResult, KBandResult, ResultDict and VoidResult objects with integer "
                     "(also complex) data and checks commutativity, associativity, a-a=0, distributivity, 1*a=a, Void neutrality, additivity "
                     "of Transform and Load(Save(r))=r on all stored objects; each behaviour is run on the real classes and every object "
                     "compared exactly after every step; random real operator results are validated clause by clause by TLC.",
                note="documented meanings only (DESIGN.md 7.2): K-resolved `+` is the direct sum over k-points, `/` a copy; results with an "
                     "undeclared (None) transform are outside (named predicates Savable / TransformDefined); integer data, so all float "
                     "operations of the implementation are exact (integrality of every projected value is verified to 1e-9)",
                ref="DESIGN.md 3.6"),
}

INVS = ["NoRaise", "LawAddCommutes", "LawAddAssociative", "LawSubSelf", "LawSubAdd", "LawElementWise", "LawScalar", "LawDiv",
        "LawVoidNeutral", "LawTransformLinear", "LawTransformOrder", "LawSaveLoad"]
ALL_SYMS = ("Identity", "Inversion", "TimeReversal", "C4z", "Mx", "TRMx")
OPS = ["Add", "Sub", "AddInPlace", "Mul", "Div", "AddVoidRight", "AddVoidLeft", "SubVoidRight", "SubVoidLeft", "Transform", "SaveNpz",
       "LoadNpz", "SaveVoid"]
REC_CFG = ("SPECIFICATION RecSpec\nCONSTANTS\n  Wrong = {}\n  InitStores <- RecSeq\n  Scalars <- RecNone\n  Divisors <- RecNone\n"
           "  Syms <- RecSeq\n  ActSyms <- RecNone\n  MaxOps = 0\nINVARIANT Report\nCHECK_DEADLOCK FALSE\n")


CLAUSE_FIELDS = dict(add_equals_spec=("ab", "ba"), add_commutes=("ab", "ba"), add_associative=("ab_c", "a_bc"), sub_equals_spec=("a_minus_b",),
                     sub_self_zero=("a_minus_a",), mul_equals_spec=("sa", "sb", "as"), mul_distributes=("s_ab", "sa_sb"), mul_associative=("t_sa",),
                     mul_one=("one_a",), div_equals_spec=("sa_div_s",), div_meaning=("sa_div_s", "sa"), void_right_neutral=("a_void",),
                     void_left_neutral=("void_a",), void_sub_right=("a_sub_void",), void_sub_left=("void_sub_a",), add_in_place=("a_iadd_b",),
                     transform_equals_spec=("Ta", "Tb"), transform_additive=("Tab", "Ta_Tb", "Ta", "Tb"), transform_homogeneous=("Tsa", "Ta"),
                     transform_keeps_meta=("Ta",), file_equals_spec=(), load_equals_spec=("loaded",), round_trip=("loaded",))
CLAUSE_METHOD = dict(add_equals_spec="__add__", add_commutes="__add__", add_associative="__add__", sub_equals_spec="__sub__", sub_self_zero="__sub__",
                     mul_equals_spec="__mul__", mul_distributes="__mul__", mul_associative="__mul__", mul_one="__mul__", div_equals_spec="__truediv__",
                     div_meaning="__truediv__", void_right_neutral="__add__", void_left_neutral="__add__", void_sub_right="__sub__",
                     void_sub_left="__sub__", add_in_place="add", transform_equals_spec="transform", transform_additive="transform",
                     transform_homogeneous="transform", transform_keeps_meta="transform", file_equals_spec="save", load_equals_spec="from_npz",
                     round_trip="from_npz")


def qset(names):
    return "{" + ", ".join(f'"{n}"' for n in names) + "}"


def mc_cfg(fams, maxops, wrong=(), pairs="PairsA", act=("C4z", "TRMx"), scal="ScalarsA", invs=INVS):
    return ("SPECIFICATION Spec\nCONSTANTS\n"
            f"  Wrong = {qset(wrong)}\n  FamIds = {{{', '.join(str(f) for f in fams)}}}\n  PatPairs <- {pairs}\n"
            f"  SymSel = {qset(ALL_SYMS)}\n  ActSyms = {qset(act)}\n  InitStores <- MCInitStores\n  Syms <- MCSyms\n"
            f"  Scalars <- {scal}\n  Divisors = {{2}}\n  MaxOps = {maxops}\n"
            + "".join(f"INVARIANT {i}\n" for i in invs) + "CHECK_DEADLOCK FALSE\n")


def hkey(hist):
    return tuple((e["op"], e["i"], e["j"], e["s"], e["g"]) for e in hist)


class Info:
    """replay information of a failing step (built only when needed)"""

    def __init__(self, init_store, done, k, a_spec, b_spec, cplx):
        self.a = (init_store, list(done), k, a_spec, b_spec, cplx)

    def __call__(self):
        init_store, done, k, a_spec, b_spec, cplx = self.a
        return dict(initial_store=RA.jsonable(init_store), operations=done, failing_step=k + 1,
                    operands=[RA.sig(x) for x in (a_spec, b_spec) if x], complex_data=cplx,
                    how="build the initial objects (harness/props/_resultalg.py make_obj) and apply the operations (apply_op)")


class Replayer:
    """runs behaviours of the C16 state machine on the real classes"""

    def __init__(self, rep, scratch):
        self.rep = rep
        self.scratch = scratch
        self.found = {}          # violation key -> [count, first detail]
        self.ops = {}            # op -> number of executed steps
        self.nbeh = 0

    def violation(self, key, detail):
        if key in self.found:
            self.found[key][0] += 1
        else:
            self.found[key] = [1, detail]

    def flush(self):
        for key, (n, det) in sorted(self.found.items()):
            det = dict(det, occurrences=n)
            self.rep.violation(key, det)

    def behaviour(self, init_store, steps, tag):
        """steps: list of (event, expected state after it). Compares after every step."""
        cplx = RA.is_complex_store(init_store)
        objs = [RA.make_obj(o, cplx) for o in init_store]
        files = []
        self.nbeh += 1
        done = []
        for k, (ev, st) in enumerate(steps):
            op = ev["op"]
            self.ops[op] = self.ops.get(op, 0) + 1
            done.append({f: ev[f] for f in ("op", "i", "j", "s", "g", "out")})
            pre = steps[k - 1][1]["store"] if k else init_store
            a_spec = pre[ev["i"] - 1] if op not in ("LoadNpz", "SaveVoid") else None
            b_spec = pre[ev["j"] - 1] if ev["j"] else None
            kinds = (a_spec["kind"] if a_spec else "") + ("," + b_spec["kind"] if b_spec else "")
            self.rep.case((tag, hkey(done)))
            info = Info(init_store, done, k, a_spec, b_spec, cplx)
            raised = None
            res = None
            try:
                res = RA.apply_op(ev, objs, files, k, self.scratch)
            except Exception as ex:  # the specification defines a result for every operation it generates
                raised = ex
                self.violation(f"raises:{RA.where_raised(ex)}:{type(ex).__name__}",
                               dict(info(), expected="a result (see expected_store)", got=f"{type(ex).__name__}: {ex}",
                                    expected_store=RA.jsonable([RA.expected(o) for o in st["store"]])))
            out = ev["out"]
            creates = op not in ("AddInPlace", "SaveNpz", "SaveVoid") and out != 0
            if creates:
                if out != len(objs) + 1:
                    raise MachineryError(f"hist entry {ev} does not append to a store of {len(objs)} objects")
                objs.append(res if raised is None else RA.make_obj(st["store"][out - 1], cplx))
            elif out == 0 and raised is None:
                # x + Void, Void + x, x - Void : has to equal x (it is not kept)
                self.compare(op, kinds, "result", RA.expected(st["store"][ev["i"] - 1]), res, info)
            if op == "AddInPlace" and raised is not None:
                objs[ev["i"] - 1] = RA.make_obj(st["store"][ev["i"] - 1], cplx)
            if op in ("SaveNpz", "SaveVoid"):
                if raised is not None:
                    files.append(None)
                else:
                    try:
                        got = RA.read_npz(files[-1])
                    except RA.NonIntegral as ex:
                        got = dict(type=str(ex))
                    exp = RA.expected_file(st["files"][-1])
                    if got != exp:
                        self.violation(f"wrong file:{RA.CLASS.get(kinds[:1], 'VoidResult')}.save", dict(info(), expected=RA.jsonable(exp), got=RA.jsonable(got),
                                                                  differing=[f for f in exp if exp[f] != got.get(f)]))
            if op == "LoadNpz" and files[ev["i"] - 1] is None:
                pass
            # the whole store after the step
            if len(objs) != len(st["store"]):
                raise MachineryError(f"store sizes differ after {ev}: {len(objs)} real, {len(st['store'])} spec")
            for idx, o in enumerate(st["store"]):
                if not self.compare(op, kinds, f"store[{idx + 1}]", RA.expected(o), objs[idx], info):
                    objs[idx] = RA.make_obj(o, cplx)        # repair, so that later steps are judged on their own
        if self.nbeh in (1, 500) and steps:
            self.rep.sample(dict(behaviour=[f"{e['op']}(i={e['i']}, j={e['j']}, s={e['s']}, g={e['g']}) -> {e['out']}" for e, _ in steps],
                                 initial_store=[RA.sig(o) for o in init_store],
                                 final_store=RA.jsonable([RA.expected(o) for o in steps[-1][1]["store"]])))

    def compare(self, op, kinds, what, exp, real, info):
        try:
            got = RA.project(real)
        except RA.NonIntegral as ex:
            self.violation(f"non-integral projection:{RA.CLASS.get(kinds[:1], '?')}.{RA.METHOD[op]}", dict(info(), object=what, got=str(ex)))
            return False
        bad = RA.diff_fields(exp, got)
        if bad:
            cls = "data" if any(b.endswith("data") or b.endswith("nk") or b.endswith("shape") for b in bad) else bad[0].split(".")[-1]
            self.violation(f"wrong {cls}:{RA.CLASS.get(kinds[:1], 'EnergyResult')}.{RA.METHOD[op]}", dict(info(), object=what, differing_fields=bad, expected=RA.jsonable(exp),
                                                             got=RA.jsonable(got)))
            return False
        return True


def run_model(rep, name, cfg, replayer, workers, maxops, require_actions=True):
    st = ftable.enumerate_states("MC_ResultAlg.tla", cfg, name, workers=workers, timeout=3000)
    ftable.spec_violation(rep, st, name)
    if st.get("violation"):
        return st
    rep.add_tlc(name, st)
    RA.check_sym_table(st["output"])
    states = RA.fast_parse_dump(st["dump_path"])
    if len(states) != st["distinct"]:
        raise MachineryError(f"{name}: dump has {len(states)} states, TLC reported {st['distinct']}")
    table = {(s["start"], hkey(s["hist"])): s for s in states}
    if require_actions:
        seen_ops = {e["op"] for s in states for e in s["hist"]}
        missing = [a for a in OPS if a not in seen_ops]
        if missing:
            raise MachineryError(f"vacuous model {name}: operations never taken: {missing}")
    nleaf = 0
    for s in states:
        if len(s["hist"]) != maxops:
            continue
        nleaf += 1
        h = s["hist"]
        steps = []
        for k in range(len(h)):
            pre = table.get((s["start"], hkey(h[:k + 1])))
            if pre is None:
                raise MachineryError(f"{name}: prefix state missing in the dump")
            steps.append((h[k], pre))
        replayer.behaviour(table[(s["start"], ())]["store"], steps, (name, s["start"]))
    if nleaf == 0:
        raise MachineryError(f"{name}: no behaviour of length {maxops}")
    rep.part(name, behaviours_replayed=nleaf)
    os.remove(st["dump_path"])
    return st


def run_simulation(rep, name, cfg, replayer, num, depth, workers):
    wd = workdir("c16_sim")
    sw = min(workers, 4)                 # TLC writes `num` behaviours per worker
    st = tlc.run_tlc("MC_ResultAlg.tla", cfg, name, workers=sw, simulate=f"file={wd}/beh,num={max(1, num // sw)}", depth=depth, seed=seed() + 16,
                     coverage=False, timeout=3000)
    if st.get("violation"):
        ftable.spec_violation(rep, st, name)
        return
    if st.get("error"):
        raise MachineryError(f"TLC simulation failed ({name}): {st['error'][:400]}")
    files = sorted(glob.glob(f"{wd}/beh*"))
    n = 0
    for f in files:
        beh = RA.parse_simulate(f)
        if len(beh) < 2:
            continue
        init = beh[0][1]["store"]
        steps = [(s["hist"][-1], s) for _, s in beh[1:]]
        replayer.behaviour(init, steps, (name, os.path.basename(f)))
        n += 1
    if n == 0:
        raise MachineryError(f"{name}: no simulated behaviour was produced")
    rep.part(name, mode="simulate", behaviours_replayed=n, depth=depth, generated=st.get("generated"))
    shutil.rmtree(wd, ignore_errors=True)


# ----------------------------------------------------------------------------- code -> spec
T_CAT = {0: [dict(factor=1, conj=False, tr=(), sw=()), dict(factor=-1, conj=False, tr=(), sw=()), dict(factor=-1, conj=True, tr=(), sw=()),
             dict(factor=1, conj=True, tr=(), sw=())],
         2: [dict(factor=1, conj=False, tr=(1, 0), sw=()), dict(factor=-1, conj=False, tr=(1, 0), sw=()), dict(factor=1, conj=False, tr=(), sw=(-2, -1)),
             dict(factor=-1, conj=True, tr=(), sw=(-1, -2))],
         3: [dict(factor=-1, conj=False, tr=(0, 2, 1), sw=()), dict(factor=-1, conj=False, tr=(1, 0, 2), sw=()), dict(factor=1, conj=False, tr=(2, 0, 1), sw=()),
             dict(factor=1, conj=True, tr=(1, 0), sw=())]}


def rand_family(rng, kind=None):
    kind = kind or rng.choice("EEKK")
    rank = rng.choice([0, 1, 1, 2, 2, 3])
    cat = [t for r, ts in T_CAT.items() if r <= rank for t in ts]
    fam = dict(kind=kind, rank=rank, tTR=rng.choice(cat), tInv=rng.choice(cat))
    if kind == "E":
        ne = rng.choice([1, 1, 2, 2, 3])           # ResultAlg!EnergyShapeOK: at least one energy axis
        fam["shape"] = tuple(rng.randint(1, 3) for _ in range(ne))
        fam["en"] = tuple(tuple(sorted(rng.sample(range(-5, 9), n))) for n in fam["shape"])
    else:
        fam["nb"] = rng.randint(1, 3)
    return fam


def rand_obj(rng, fam, cplx, tag):
    n3 = 3 ** fam["rank"]
    if fam["kind"] == "E":
        size = int(np.prod(fam["shape"])) * n3 if fam["shape"] else n3
        data = tuple((rng.randint(-9, 9), rng.randint(-9, 9) if cplx else 0) for _ in range(size))
        return dict(kind="E", shape=fam["shape"], rank=fam["rank"], data=data, en=fam["en"], tTR=fam["tTR"], tInv=fam["tInv"],
                    comment=rng.choice(["", "x", "yy", "zz", "some text " + tag]), titles=())
    chunks = tuple(rng.randint(1, 2) for _ in range(rng.choice([1, 1, 2])))
    size = sum(chunks) * fam["nb"] * n3
    data = tuple((rng.randint(-9, 9), rng.randint(-9, 9) if cplx else 0) for _ in range(size))
    return dict(kind="K", nb=fam["nb"], rank=fam["rank"], chunks=chunks, data=data, tTR=fam["tTR"], tInv=fam["tInv"])


def rand_triple(rng):
    """three spec-form objects that fit pairwise + complex flag"""
    cplx = rng.random() < 0.4
    r = rng.random()
    if r < 0.7:
        fam = rand_family(rng)
        return [rand_obj(rng, fam, cplx, t) for t in "abc"], cplx
    # dictionaries, possibly with Void entries
    fams = {k: rand_family(rng) for k in ("x", "y")[:rng.randint(1, 2)]}
    objs = []
    for t in "abc":
        objs.append(dict(kind="D", items={k: (dict(kind="V") if rng.random() < 0.2 else rand_obj(rng, f, cplx, t)) for k, f in fams.items()}))
    return objs, cplx


def same_shape(a, b):
    if a["kind"] != b["kind"]:
        return False
    if a["kind"] == "K":
        return sum(a["chunks"]) == sum(b["chunks"])
    if a["kind"] == "D":
        return all(x["kind"] == "V" or y["kind"] == "V" or same_shape(x, y) for x, y in ((a["items"][k], b["items"][k]) for k in a["items"]))
    return True


def guarded(f):
    """real operator result as a JSON record object; an exception becomes {kind: X}"""
    try:
        return RA.rec_obj(RA.project(f()))
    except RA.NonIntegral as ex:
        return dict(kind="X", why=str(ex)[:80])
    except Exception as ex:
        return dict(kind="X", why=f"{type(ex).__name__} in {RA.where_raised(ex)}")


def spec_rec(o):
    e = RA.expected(o)
    if e["kind"] == "E" and not e["titles"]:
        n = len(e["shape"])
        e["titles"] = tuple((["Efermi", "Omega"] + ["???"] * n)[:n])
    if e["kind"] == "D":
        e["items"] = {k: spec_rec_proj(v) for k, v in o["items"].items()}
    return RA.rec_obj(e)


def spec_rec_proj(o):
    e = RA.expected(o)
    if e["kind"] == "E" and not e["titles"]:
        n = len(e["shape"])
        e["titles"] = tuple((["Efermi", "Omega"] + ["???"] * n)[:n])
    return e


def record_alg(rng):
    EnergyResult, KBandResult, ResultDict, VoidResult, ps = RA.wb()
    (sa, sb, sc), cplx = rand_triple(rng)
    s = rng.choice([-3, -1, 2, 2, 3, 4, 5])
    t = rng.choice([-2, -1, 2, 3])
    mk = lambda o: RA.make_obj(o, cplx)
    V = VoidResult
    rec = dict(fn="alg", a=spec_rec(sa), b=spec_rec(sb), c=spec_rec(sc), s=s, t=t, cplx=cplx,
               ab=guarded(lambda: mk(sa) + mk(sb)), ba=guarded(lambda: mk(sb) + mk(sa)),
               ab_c=guarded(lambda: (mk(sa) + mk(sb)) + mk(sc)), a_bc=guarded(lambda: mk(sa) + (mk(sb) + mk(sc))),
               a_minus_a=guarded(lambda: (lambda x: x - x)(mk(sa))),
               sa=guarded(lambda: s * mk(sa)), sb=guarded(lambda: float(s) * mk(sb)), **{"as": guarded(lambda: mk(sa) * s)},
               s_ab=guarded(lambda: s * (mk(sa) + mk(sb))), sa_sb=guarded(lambda: s * mk(sa) + s * mk(sb)),
               t_sa=guarded(lambda: t * (s * mk(sa))), one_a=guarded(lambda: 1 * mk(sa)),
               sa_div_s=guarded(lambda: (mk(sa) * s) / s),
               a_void=guarded(lambda: mk(sa) + V()), void_a=guarded(lambda: V() + mk(sa)),
               a_sub_void=guarded(lambda: mk(sa) - V()), void_sub_a=guarded(lambda: V() - mk(sa)))
    if same_shape(sa, sb):
        rec["a_minus_b"] = guarded(lambda: mk(sa) - mk(sb))
        if sa["kind"] in "EK":
            def iadd():
                x = mk(sa)
                x.add(mk(sb))
                return x
            rec["a_iadd_b"] = guarded(iadd)
    return rec, (sa, sb, sc)


def rand_sym(rng):
    """a point operation with integer matrix: signed permutation (proper or improper), with or without time reversal"""
    ps = RA.wb()[4]
    perm = rng.sample(range(3), 3)
    R = np.zeros((3, 3))
    for r_, c_ in enumerate(perm):
        R[r_, c_] = rng.choice([-1, 1])
    TR = rng.random() < 0.4
    g = ps.PointSymmetry(R, TR=TR)
    return g, dict(R=[[int(round(x)) for x in row] for row in g.R], TR=bool(g.TR), Inv=bool(g.Inv))


def record_sym(rng):
    (sa, sb, _), cplx = rand_triple(rng)
    g, grec = rand_sym(rng)
    s = rng.choice([-2, -1, 2, 3])
    mk = lambda o: RA.make_obj(o, cplx)
    rec = dict(fn="sym", a=spec_rec(sa), b=spec_rec(sb), g=grec, s=s, cplx=cplx,
               Ta=guarded(lambda: mk(sa).transform(g)), Tb=guarded(lambda: mk(sb).transform(g)),
               Tab=guarded(lambda: (mk(sa) + mk(sb)).transform(g)), Ta_Tb=guarded(lambda: mk(sa).transform(g) + mk(sb).transform(g)),
               Tsa=guarded(lambda: (s * mk(sa)).transform(g)))
    return rec, (sa, sb)


def record_save(rng, scratch, n):
    EnergyResult, KBandResult, ResultDict, VoidResult, ps = RA.wb()
    cplx = rng.random() < 0.4
    if rng.random() < 0.1:
        so, real = dict(kind="V"), VoidResult()
    else:
        so = rand_obj(rng, rand_family(rng, "E"), cplx, "saved")
        real = RA.make_obj(so, cplx)
    name = os.path.join(scratch, f"rec_{n}")
    rec = dict(fn="save", a=spec_rec(so), cplx=cplx)
    try:
        real.save(name)
        f = RA.read_npz(name + ".npz")
        if f["type"] == "EnergyResult":
            f = dict(f, E_titles=list(f["E_titles"]), data=[list(x) for x in f["data"]], dshape=list(f["dshape"]),
                     Energies=[list(e) for e in f["Energies"]],
                     transformTR={k: (list(v) if isinstance(v, tuple) else v) for k, v in f["transformTR"].items()},
                     transformInv={k: (list(v) if isinstance(v, tuple) else v) for k, v in f["transformInv"].items()})
        rec["file"] = f
        rec["loaded"] = guarded(lambda: EnergyResult.from_npz(name + ".npz"))
    except Exception as ex:
        return None, f"{type(ex).__name__} in {RA.where_raised(ex)}: {ex}", so
    finally:
        if os.path.exists(name + ".npz"):
            os.remove(name + ".npz")
    return rec, None, so


def check(pid, tier):
    rep = Report(pid, tier, "model_checking")
    thorough = tier == "thorough"
    rng = random.Random(seed() * 7919 + 16)
    workers = int(os.environ.get("VERIF_TLC_WORKERS", "16"))
    scratch = workdir("c16")
    rep.rule("a case = one step of one TLC behaviour (operation sequence from a two-object initial store of one family) executed on "
             "the real classes with the whole store compared exactly, distinct by (initial store, operation prefix); plus seeded "
             "random recorded operator results validated by TLC")
    rep.assume("tensor data are small integers (float / complex arrays), scalars are integers given as int or float, divisors are 2: "
               "all arithmetic of the implementation is exact; every projected value is verified to be integral within 1e-9")
    rep.assume("K-resolved results: `+` is the direct sum over k-points (commutative up to the k order), `/` is a copy; "
               "results with a None transform are not saved / transformed (named predicates Savable, TransformDefined)")
    RA.wb()
    replayer = Replayer(rep, scratch)

    # ---------------- spec -> code : exhaustive bounded model, every behaviour replayed
    fams = list(range(1, 13))
    if thorough:
        run_model(rep, "c16_mc", mc_cfg(fams, 2, pairs="PairsB", act=("Inversion", "TimeReversal", "C4z", "TRMx")), replayer, workers, 2)
        # three operations: TLC only (the behaviours of this depth are sampled by the simulation below)
        st3 = tlc.run_tlc("MC_ResultAlg.tla", mc_cfg([6, 10], 3, act=("TRMx",)), "c16_mc3", workers=workers, timeout=3000, coverage=False)
        if st3.get("timeout") or (st3.get("error") and not st3.get("violation")):
            raise MachineryError(f"TLC failed on c16_mc3: {st3.get('error')}")
        if not ftable.spec_violation(rep, st3, "c16_mc3"):
            rep.add_tlc("c16_mc3", st3)
        run_simulation(rep, "c16_sim", mc_cfg(fams, 5, pairs="PairsC", act=ALL_SYMS, scal="ScalarsB"), replayer, 1500, 6, workers)
    else:
        run_model(rep, "c16_mc1", mc_cfg(fams, 1, act=ALL_SYMS), replayer, workers, 1, require_actions=False)
        run_model(rep, "c16_mc", mc_cfg([2, 7, 10, 12], 2), replayer, workers, 2)
        run_simulation(rep, "c16_sim", mc_cfg(fams, 4, pairs="PairsB", act=ALL_SYMS), replayer, 120, 5, workers)
    missing = [a for a in OPS if replayer.ops.get(a, 0) == 0]
    if missing:
        raise MachineryError(f"operations never replayed on the real classes: {missing}")
    rep.part("replay", behaviours=replayer.nbeh, steps_per_operation=replayer.ops)

    # ---------------- sensitivity: plausible wrong implementations must be rejected by TLC
    sens = {}
    for wrong, famsel in (("kvoid", [6]), ("dictvoid", [10]), ("dictsub", [9]), ("kaddzip", [12])):
        st0 = tlc.run_tlc("MC_ResultAlg.tla", mc_cfg(famsel, 2, wrong=(wrong,)), f"c16_wrong_{wrong}", workers=4, timeout=900)
        if not st0.get("violation"):
            raise MachineryError(f"sensitivity self-test failed: MC_ResultAlg with Wrong={{{wrong}}} should violate an invariant "
                                 f"({st0.get('error') or 'no violation'})")
        sens[wrong] = st0["violation"][1]
    rep.part("sensitivity", rejected=sens)

    # ---------------- code -> spec : recorded operator results validated by TLC
    recs, meta = [], []
    nrec = 900 if thorough else 100
    unsavable = None
    for n in range(nrec):
        r = rng.random()
        if r < 0.5:
            rec, src = record_alg(rng)
        elif r < 0.8:
            rec, src = record_sym(rng)
        else:
            rec, err, src = record_save(rng, scratch, n)
            if rec is None:
                exc, where = err.split(":")[0].split(" in ")
                replayer.violation(f"raises:{where}:{exc}", dict(object=RA.jsonable(src), operation="save", got=err))
                continue
        recs.append(rec)
        meta.append(src)
        rep.case(("rec", n, rec["fn"]))
    stv, bad = ftable.validate_records("ResultAlgRec.tla", REC_CFG, recs, "c16")
    rep.add_tlc("c16_records", stv)
    rep.add_traces(len(recs))
    kinds_seen = {}
    for r in recs:
        kinds_seen[r["fn"] + ":" + r["a"]["kind"]] = kinds_seen.get(r["fn"] + ":" + r["a"]["kind"], 0) + 1
    for need in ("alg:E", "alg:K", "alg:D", "sym:E", "sym:K", "save:E"):
        if not kinds_seen.get(need):
            raise MachineryError(f"no recorded case of class {need}")
    rep.part("records", per_class=kinds_seen)
    for idx, clauses in bad.items():
        r = recs[idx]
        for cl in clauses:
            # root cause: an involved real operator raised, or its result differs from the specified one
            why = sorted({r[f]["why"] for f in CLAUSE_FIELDS.get(cl, ()) if f in r and r[f].get("kind") == "X"}
                         | {v["why"] for f in CLAUSE_FIELDS.get(cl, ()) if f in r and r[f].get("kind") == "D"
                            for v in r[f]["items"].values() if v.get("kind") == "X"})
            if why:
                exc, where = why[0].split(" in ") if " in " in why[0] else (why[0], "?")
                key = f"raises:{where}:{exc}"
            else:
                key = f"wrong data:{RA.CLASS[r['a']['kind']]}.{CLAUSE_METHOD.get(cl, cl)}"
            replayer.violation(key, dict(record=r, failing_clause=cl, how="recorded outputs of the real operators (fields of `record`) "
                                                                          "evaluated by TLC with ResultAlgRec.tla"))
    rep.sample({k: (v if k in ("fn", "s", "t", "g") else "...") for k, v in recs[0].items()})

    # binding self-test: a corrupted record must be rejected
    cor = copy.deepcopy([r for r in recs if r["fn"] == "alg" and r["ab"]["kind"] in ("E", "K") and idx_ok(r)][:1])
    if not cor:
        raise MachineryError("no record available for the binding self-test")
    cor[0]["ab"]["data"][0][0] += 1
    _, b2 = ftable.validate_records("ResultAlgRec.tla", REC_CFG, cor, "c16_selftest")
    if 0 not in b2 or "add_equals_spec" not in b2[0]:
        raise MachineryError("binding self-test failed: corrupted Add record accepted")
    rep.part("binding_selftest", corrupted_record_rejected=b2[0])

    # observation (not demanded by the adopted reading): a result whose transforms were never declared cannot be saved
    try:
        EnergyResult = RA.wb()[0]
        EnergyResult([np.arange(2.)], np.zeros(2)).save(os.path.join(scratch, "undeclared"))
        rep.part("observations", save_with_undeclared_transform="works")
    except Exception as ex:
        rep.part("observations", save_with_undeclared_transform=f"raises {type(ex).__name__}: {ex} (outside the specified domain: Savable)")

    try:
        ps = RA.wb()[4]
        z = RA.wb()[0]([], np.array(1.0), transformTR=ps.Transform(), transformInv=ps.Transform(factor=-1))
        z.transform(ps.Inversion)
        rep.part("observations", transform_without_energy_axes_rank0="works")
    except Exception as ex:
        rep.part("observations", transform_without_energy_axes_rank0=f"raises {type(ex).__name__}: {ex} (outside the specified domain: EnergyShapeOK)")

    replayer.flush()
    shutil.rmtree(scratch, ignore_errors=True)
    return rep.finish()


def idx_ok(r):
    return len(r["ab"].get("data", [])) > 0
