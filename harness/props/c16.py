"""C16: result objects behave as vectors and survive saving.

spec  : ResultAlg.tla (operators named like the methods of wannierberri/result/*.py + the store state machine, the laws
        as invariants), MC_ResultAlg.tla (families of EnergyResult / KBandResult / ResultDict / VoidResult objects with
        integer data, all operation sequences up to MaxOps)
bind  : spec -> code: the behaviours of the bounded model (operation sequences) are executed on the real classes and the
        whole store (data, shapes, energies, rank, transforms) is compared with the specification after every operation;
        a reloaded result is compared with the real object that was saved (energies, data, rank, transforms, comment,
        titles); thorough adds longer behaviours from `tlc -simulate`
        code -> spec: results of the real operators on random objects (larger shapes, rank <= 3, complex data, random
        scalars / point operations / arrays for mul_array) are recorded and every clause of ResultAlgRec is evaluated on
        them by TLC
        numeric_only (deciding): binary save / load of random float64 / complex128 results is bit-exact

What is NOT demanded (not in the property statement): which comment a sum / product carries, the layout of the .npz file
(reported as information), the text stored for a saved VoidResult, whether `K / s` is the documented copy or the
element-wise quotient, how a K-resolved result is chunked internally.
"""
import os
import copy
import glob
import random
import shutil
from concurrent.futures import ThreadPoolExecutor

import numpy as np

from .. import tlc, ftable
from ..common import Report, MachineryError, seed, workdir, WORK
from . import _resultalg as RA

PROPS = {
    "C16": dict(level="model_checking",
                technique="TLC exhaustive on ResultAlg.tla (store of result objects, every operator sequence up to MaxOps, vector-space / Void / "
                          "transform / mul_array / save-load laws as invariants of the model) + replay of the TLC behaviours on the real classes "
                          "with comparison of the whole store after each operation + TLC validation of recorded operator results "
                          "(ResultAlgRec.tla) + bit-exact binary round trip of random float results (numeric, deciding)",
                text="TLC applies Add, Sub, add() (also with the void result / None), MulScalar, DivScalar, mul_array, Void / 0 / None on either side, Transform(g) for g in "
                     "{1, I, T, C4z, Mx, T*Mx}, SaveNpz/LoadNpz to stores of EnergyResult, KBandResult, ResultDict and VoidResult objects with "
                     "integer (also complex) data and checks, on the model, commutativity, associativity, a-a=0, distributivity, 1*a=a, Void "
                     "neutrality, additivity of Transform and Load(Save(r))=r on all stored objects. quick: every one-operation behaviour of "
                     "14 families, every two-operation behaviour of 3 families, every save/load behaviour of the 5 energy-resolved families "
                     "and ~60 simulated behaviours of 4 operations are run on the real classes, every object compared exactly after every "
                     "step; thorough: two operations for all families and three start patterns, 1500 simulated behaviours of 5 operations; "
                     "its three-operation model (c16_mc3) is checked by TLC only and not replayed. The laws on the REAL classes are "
                     "evaluated by TLC on recorded results of one random triple per record (not on all tuples).",
                note="documented meanings only (DESIGN.md 7.2): K-resolved `+` is the direct sum over k-points, `/` a copy (the element-wise "
                     "quotient is accepted too); named exclusions: Savable / TransformDefined (results with an undeclared (None) transform), "
                     "EnergyShapeOK (no energy axis), ZeroNeutralDefined (0 / None next to a VoidResult); scalars are given as int, float, "
                     "np.int64, np.float32, np.float64; integer data, so all float operations of the implementation are exact "
                     "(integrality of every projected value is verified to 1e-9); comments / titles are compared only for reloaded results",
                ref="DESIGN.md 3.6"),
}

INVS = ["NoRaise", "LawAddCommutes", "LawAddAssociative", "LawSubSelf", "LawSubAdd", "LawElementWise", "LawScalar", "LawDiv",
        "LawVoidNeutral", "LawTransformLinear", "LawTransformOrder", "LawSaveLoad", "LawMulArray"]
ALL_SYMS = ("Identity", "Inversion", "TimeReversal", "C4z", "Mx", "TRMx")
OPS = ["Add", "Sub", "AddInPlace", "Mul", "Div", "AddVoidRight", "AddVoidLeft", "SubVoidRight", "SubVoidLeft", "Transform", "SaveNpz",
       "LoadNpz", "SaveVoid", "AddZeroLeft", "AddNoneRight", "MulArray", "AddInPlaceVoid"]
NO_OPERAND = ("LoadNpz", "SaveVoid")
COMPARE_ONLY = ("AddVoidRight", "AddVoidLeft", "SubVoidRight", "AddZeroLeft", "AddNoneRight")
REC_CFG = ("SPECIFICATION RecSpec\nCONSTANTS\n  Wrong = {}\n  InitStores <- RecSeq\n  Scalars <- RecNone\n  Divisors <- RecNone\n"
           "  Syms <- RecSeq\n  ActSyms <- RecNone\n  MaxOps = 0\nINVARIANT Report\nCHECK_DEADLOCK FALSE\n")
REC_CHUNK = 150           # records per TLC run (each run has its own timeout)
TLC_TIMEOUT = 3000

CLAUSE_FIELDS = dict(add_equals_spec=("ab", "ba"), add_commutes=("ab", "ba"), add_associative=("ab_c", "a_bc"), sub_equals_spec=("a_minus_b",),
                     sub_self_zero=("a_minus_a",), mul_equals_spec=("sa", "sb", "as"), mul_distributes=("s_ab", "sa_sb"), mul_associative=("t_sa",),
                     mul_one=("one_a",), div_equals_spec=("sa_div_s",), div_meaning=("sa_div_s", "sa"), void_right_neutral=("a_void",),
                     void_left_neutral=("void_a",), void_sub_right=("a_sub_void",), void_sub_left=("void_sub_a",), add_in_place=("a_iadd_b",),
                     zero_left_neutral=("zero_a",), none_right_neutral=("a_none",), add_in_place_void=("a_iadd_void", "a_iadd_none"),
                     mul_numpy_scalars=("a_npi", "a_npf", "half_2a"),
                     transform_equals_spec=("Ta", "Tb"), transform_additive=("Tab", "Ta_Tb", "Ta", "Tb"), transform_homogeneous=("Tsa", "Ta"),
                     transform_keeps_meta=("Ta",), file_equals_spec=(), load_equals_spec=("loaded",), round_trip=("loaded",),
                     marr_equals_spec=("av",), marr_additive=("abv", "av", "bv"), marr_homogeneous=("sav",), marr_keeps_meta=("av",))
CLAUSE_METHOD = dict(add_equals_spec="__add__", add_commutes="__add__", add_associative="__add__", sub_equals_spec="__sub__", sub_self_zero="__sub__",
                     mul_equals_spec="__mul__", mul_distributes="__mul__", mul_associative="__mul__", mul_one="__mul__", div_equals_spec="__truediv__",
                     div_meaning="__truediv__", void_right_neutral="__add__", void_left_neutral="__add__", void_sub_right="__sub__",
                     void_sub_left="__sub__", add_in_place="add", zero_left_neutral="__radd__", none_right_neutral="__add__",
                     add_in_place_void="add", mul_numpy_scalars="__mul__",
                     transform_equals_spec="transform", transform_additive="transform",
                     transform_homogeneous="transform", transform_keeps_meta="transform", file_equals_spec="save", load_equals_spec="from_npz",
                     round_trip="from_npz", marr_equals_spec="mul_array", marr_additive="mul_array", marr_homogeneous="mul_array",
                     marr_keeps_meta="mul_array")
ADVISORY_CLAUSES = ("file_equals_spec", "load_equals_spec")       # the layout of the .npz file is not part of the property


def qset(names):
    return "{" + ", ".join(f'"{n}"' for n in names) + "}"


def mc_cfg(fams, maxops, wrong=(), pairs="PairsA", act=("C4z", "TRMx"), scal="ScalarsA", invs=INVS, spec="Spec", symsel=ALL_SYMS):
    return (f"SPECIFICATION {spec}\nCONSTANTS\n"
            f"  Wrong = {qset(wrong)}\n  FamIds = {{{', '.join(str(f) for f in fams)}}}\n  PatPairs <- {pairs}\n"
            f"  SymSel = {qset(symsel)}\n  ActSyms = {qset(act)}\n  InitStores <- MCInitStores\n  Syms <- MCSyms\n"
            f"  Scalars <- {scal}\n  Divisors = {{2}}\n  MaxOps = {maxops}\n"
            + "".join(f"INVARIANT {i}\n" for i in invs) + "CHECK_DEADLOCK FALSE\n")


def hkey(hist):
    return tuple((e["op"], e["i"], e["j"], e["s"], e["g"]) for e in hist)


class Runs:
    """names of TLC runs / scratch directories, unique per property and process (several checks may run at once)"""

    def __init__(self, pid):
        self.tag = f"{pid.lower()}p{os.getpid()}"
        self.used = []

    def name(self, part):
        n = f"{part}_{self.tag}"
        self.used.append(n)
        return n

    def cleanup(self):
        for n in self.used:
            for d in (os.path.join(WORK, "tlc", n), os.path.join(WORK, "records", n), os.path.join(WORK, n)):
                shutil.rmtree(d, ignore_errors=True)
            for d in glob.glob(os.path.join(WORK, "tlc", f"rec_{n}_*")):
                shutil.rmtree(d, ignore_errors=True)


class Info:
    """replay information of a failing step (built only when needed)"""

    def __init__(self, init_store, done, k, a_spec, b_spec, cplx):
        self.a = (init_store, list(done), k, a_spec, b_spec, cplx)

    def __call__(self):
        init_store, done, k, a_spec, b_spec, cplx = self.a
        return dict(initial_store=RA.jsonable(init_store), operations=RA.jsonable(done), failing_step=k + 1,
                    operands=[RA.sig(x) for x in (a_spec, b_spec) if x], complex_data=cplx,
                    how="build the initial objects (harness/props/_resultalg.py make_obj) and apply the operations (apply_op)")


class Replayer:
    """runs behaviours of the C16 state machine on the real classes"""

    def __init__(self, rep, scratch):
        self.rep = rep
        self.scratch = scratch
        self.found = {}          # violation key -> [count, first detail]
        self.ops = {}            # op -> number of executed steps
        self.nbeh = 0
        self.layout = dict(files_compared=0, layout_as_specified=0, first_difference=None)
        self.kdiv = dict(copy=0, quotient=0)

    def violation(self, key, detail):
        if key in self.found:
            self.found[key][0] += 1
        else:
            self.found[key] = [1, detail]

    def flush(self):
        for key, (n, det) in sorted(self.found.items()):
            det = dict(det, occurrences=n)
            self.rep.violation(key, det)
        self.found = {}

    # ---- K / s : the documented copy and the element-wise quotient are both accepted
    def accept_kdiv(self, res, operand, s, spec_res, cplx):
        """returns the object to keep in the store: the real result, or - when its k-resolved parts hold operand / s -
        an object rebuilt from the specification (which says `copy`), so that the later steps are judged on their own"""
        EnergyResult, KBandResult, ResultDict, VoidResult, ps = RA.wb()

        def quotient(r, a):
            try:
                got, ref = RA.k_full(r), RA.k_full(a)
            except Exception:
                return False
            return got.shape == ref.shape and not np.array_equal(got, ref) and np.abs(got * s - ref).max() <= RA.TOL_INT

        try:
            if spec_res["kind"] == "K" and isinstance(res, KBandResult):
                if quotient(res, operand):
                    self.kdiv["quotient"] += 1
                    return RA.make_obj(spec_res, cplx)
                self.kdiv["copy"] += 1
            elif spec_res["kind"] == "D" and isinstance(res, ResultDict):
                for key, o in spec_res["items"].items():
                    if o["kind"] == "K" and isinstance(res.results.get(key), KBandResult):
                        if quotient(res.results[key], operand.results[key]):
                            self.kdiv["quotient"] += 1
                            res.results[key] = RA.make_obj(o, cplx)
                        else:
                            self.kdiv["copy"] += 1
        except Exception:
            pass                     # whatever is odd about the result is found by the comparison that follows
        return res

    def behaviour(self, init_store, steps, tag):
        """steps: list of (event, expected state after it). Compares after every step."""
        cplx = RA.is_complex_store(init_store)
        objs = [RA.make_obj(o, cplx) for o in init_store]
        files = []               # path of the real file, or None when save() raised
        saved = []               # projection of the real object at the time it was saved (None for a VoidResult)
        self.nbeh += 1
        done = []
        for k, (ev, st) in enumerate(steps):
            op = ev["op"]
            self.ops[op] = self.ops.get(op, 0) + 1
            done.append({f: ev.get(f, ()) for f in ("op", "i", "j", "s", "g", "out", "v")})
            pre = steps[k - 1][1]["store"] if k else init_store
            a_spec = pre[ev["i"] - 1] if op not in NO_OPERAND else None
            b_spec = pre[ev["j"] - 1] if ev["j"] else None
            kinds = (a_spec["kind"] if a_spec else "") + ("," + b_spec["kind"] if b_spec else "")
            self.rep.case((tag, hkey(done)))
            info = Info(init_store, done, k, a_spec, b_spec, cplx)
            out = ev["out"]
            raised = None
            res = None
            skip_load = op == "LoadNpz" and files[ev["i"] - 1] is None        # its save() already was reported
            if not skip_load:
                try:
                    res = RA.apply_op(ev, objs, files, k, self.scratch)
                except MachineryError:
                    raise
                except Exception as ex:  # the specification defines a result for every operation it generates
                    raised = ex
                    self.violation(f"raises:{RA.where_raised(ex)}:{type(ex).__name__}",
                                   dict(info(), expected="a result (see expected_store)", got=f"{type(ex).__name__}: {ex}",
                                        expected_store=RA.jsonable([RA.expected(o) for o in st["store"]])))
            if op == "Div" and raised is None:
                res = self.accept_kdiv(res, objs[ev["i"] - 1], ev["s"], st["store"][out - 1], cplx)
            creates = op not in ("AddInPlace", "AddInPlaceVoid", "SaveNpz", "SaveVoid") and out != 0
            if creates:
                if out != len(objs) + 1:
                    raise MachineryError(f"hist entry {ev} does not append to a store of {len(objs)} objects")
                objs.append(res if (raised is None and not skip_load) else RA.make_obj(st["store"][out - 1], cplx))
            elif out == 0 and raised is None:
                # x + Void, Void + x, x - Void, 0 + x, x + None : has to equal x (it is not kept)
                self.compare(op, kinds, "result", RA.expected(st["store"][ev["i"] - 1]), res, info)
            if op in ("AddInPlace", "AddInPlaceVoid") and raised is not None:
                objs[ev["i"] - 1] = RA.make_obj(st["store"][ev["i"] - 1], cplx)
            if op in ("SaveNpz", "SaveVoid"):
                if raised is not None:
                    files.append(None)
                    saved.append(None)
                else:
                    try:
                        saved.append(RA.project(objs[ev["i"] - 1]) if op == "SaveNpz" else None)
                    except Exception:
                        saved.append(None)
                    # the layout of the file: information only
                    got = RA.read_npz(files[-1])
                    exp = RA.expected_file(st["files"][-1])
                    self.layout["files_compared"] += 1
                    if got == exp:
                        self.layout["layout_as_specified"] += 1
                    elif self.layout["first_difference"] is None:
                        self.layout["first_difference"] = dict(differing=[f for f in exp if exp[f] != got.get(f)],
                                                               found_fields=sorted(got))
            # the whole store after the step
            if len(objs) != len(st["store"]):
                raise MachineryError(f"store sizes differ after {ev}: {len(objs)} real, {len(st['store'])} spec")
            for idx, o in enumerate(st["store"]):
                exp = RA.expected(o)
                ignore = RA.META
                if op == "LoadNpz" and idx == out - 1 and not skip_load and raised is None:
                    # the reloaded result: comment and titles as well, those of the REAL object that was saved
                    src = saved[ev["i"] - 1]
                    if src is not None and exp["kind"] == "E" and src.get("kind") == "E":
                        exp = dict(exp, comment=src["comment"], titles=src["titles"])
                        ignore = ()
                if not self.compare(op, kinds, f"store[{idx + 1}]", exp, objs[idx], info, ignore):
                    objs[idx] = RA.make_obj(o, cplx)        # repair, so that later steps are judged on their own
        if self.nbeh in (1, 500) and steps:
            self.rep.sample(dict(behaviour=[f"{e['op']}(i={e['i']}, j={e['j']}, s={e['s']}, g={e['g']}) -> {e['out']}" for e, _ in steps],
                                 initial_store=[RA.sig(o) for o in init_store],
                                 final_store=RA.jsonable([RA.expected(o) for o in steps[-1][1]["store"]])))

    def compare(self, op, kinds, what, exp, real, info, ignore=RA.META):
        cls = RA.CLASS.get(kinds[:1], "EnergyResult" if op == "LoadNpz" else "?")
        try:
            got = RA.project(real)
        except RA.NonIntegral as ex:
            self.violation(f"non-integral projection:{cls}.{RA.METHOD[op]}", dict(info(), object=what, got=str(ex)))
            return False
        except MachineryError:
            raise
        except Exception as ex:
            # e.g. ragged chunks, a transform that is not a Transform, data that is no array
            self.violation(f"unprojectable result:{cls}.{RA.METHOD[op]}", dict(info(), object=what, type=type(real).__name__,
                                                                              got=f"{type(ex).__name__}: {ex}"))
            return False
        bad = RA.diff_fields(exp, got, ignore=ignore)
        if bad:
            c = "data" if any(b.endswith("data") or b.endswith("nk") or b.endswith("shape") for b in bad) else bad[0].split(".")[-1]
            self.violation(f"wrong {c}:{cls}.{RA.METHOD[op]}", dict(info(), object=what, differing_fields=bad, expected=RA.jsonable(exp),
                                                                    got=RA.jsonable(got)))
            return False
        return True


def run_model(rep, part, run, cfg, replayer, workers, maxops, require=None):
    st = ftable.enumerate_states("MC_ResultAlg.tla", cfg, run, workers=workers, timeout=TLC_TIMEOUT)
    ftable.spec_violation(rep, st, part)
    if st.get("violation"):
        return st
    rep.add_tlc(part, st)
    RA.check_sym_table(st["output"])
    states = RA.fast_parse_dump(st["dump_path"])
    if len(states) != st["distinct"]:
        raise MachineryError(f"{part}: dump has {len(states)} states, TLC reported {st['distinct']}")
    states.sort(key=lambda s: (s["start"], hkey(s["hist"])))          # the order of a dump depends on the worker threads
    table = {(s["start"], hkey(s["hist"])): s for s in states}
    if require:
        seen_ops = {e["op"] for s in states for e in s["hist"]}
        missing = [a for a in require if a not in seen_ops]
        if missing:
            raise MachineryError(f"vacuous model {part}: operations never taken: {missing}")
    nleaf = 0
    for s in states:
        if len(s["hist"]) != maxops:
            continue
        nleaf += 1
        h = s["hist"]
        steps = []
        for k in range(len(h)):
            pre = table.get((s["start"], hkey(h[:k + 1])))
            if pre is None:
                raise MachineryError(f"{part}: prefix state missing in the dump")
            steps.append((h[k], pre))
        replayer.behaviour(table[(s["start"], ())]["store"], steps, (part, s["start"]))
    if nleaf == 0:
        raise MachineryError(f"{part}: no behaviour of length {maxops}")
    rep.part(part, behaviours_replayed=nleaf)
    os.remove(st["dump_path"])
    return st


def run_simulation(rep, part, runs, cfg, replayer, num, depth, workers):
    run = runs.name(part)
    wd = workdir(run)
    sw = min(workers, 4)                 # TLC writes `num` behaviours per worker
    st = tlc.run_tlc("MC_ResultAlg.tla", cfg, run, workers=sw, simulate=f"file={wd}/beh,num={max(1, num // sw)}", depth=depth, seed=seed() + 16,
                     coverage=False, timeout=TLC_TIMEOUT)
    if st.get("violation"):
        ftable.spec_violation(rep, st, part)
        return
    if st.get("timeout") or st.get("error"):
        raise MachineryError(f"TLC simulation failed ({part}): {(st.get('error') or 'timeout')[:400]}")
    files = sorted(glob.glob(f"{wd}/beh*"))
    n = 0
    for f in files:
        beh = RA.parse_simulate(f)
        if len(beh) < 2:
            continue
        init = beh[0][1]["store"]
        steps = [(s["hist"][-1], s) for _, s in beh[1:]]
        replayer.behaviour(init, steps, (part, os.path.basename(f)))
        n += 1
    if n == 0:
        raise MachineryError(f"{part}: no simulated behaviour was produced")
    rep.part(part, mode="simulate", behaviours_replayed=n, depth=depth, generated=st.get("generated"))
    shutil.rmtree(wd, ignore_errors=True)


# ----------------------------------------------------------------------------- code -> spec
T_CAT = {0: [dict(factor=1, conj=False, tr=(), sw=()), dict(factor=-1, conj=False, tr=(), sw=()), dict(factor=-1, conj=True, tr=(), sw=()),
             dict(factor=1, conj=True, tr=(), sw=())],
         2: [dict(factor=1, conj=False, tr=(1, 0), sw=()), dict(factor=-1, conj=False, tr=(1, 0), sw=()), dict(factor=1, conj=False, tr=(), sw=(-2, -1)),
             dict(factor=-1, conj=True, tr=(), sw=(-1, -2))],
         3: [dict(factor=-1, conj=False, tr=(0, 2, 1), sw=()), dict(factor=-1, conj=False, tr=(1, 0, 2), sw=()), dict(factor=1, conj=False, tr=(2, 0, 1), sw=()),
             dict(factor=1, conj=True, tr=(1, 0), sw=())]}


def rand_family(rng, kind=None):
    kind = kind or rng.choice("EEKK")
    rank = rng.choice([0, 1, 1, 2, 2, 3])
    cat = [t for r, ts in T_CAT.items() if r <= rank for t in ts]
    fam = dict(kind=kind, rank=rank, tTR=rng.choice(cat), tInv=rng.choice(cat))
    if kind == "E":
        ne = rng.choice([1, 1, 2, 2, 3])           # ResultAlg!EnergyShapeOK: at least one energy axis
        fam["shape"] = tuple(rng.randint(1, 3) for _ in range(ne))
        fam["en"] = tuple(tuple(sorted(rng.sample(range(-5, 9), n))) for n in fam["shape"])
    else:
        fam["nb"] = rng.randint(1, 3)
    return fam


def rand_obj(rng, fam, cplx, tag):
    n3 = 3 ** fam["rank"]
    if fam["kind"] == "E":
        size = int(np.prod(fam["shape"])) * n3 if fam["shape"] else n3
        data = tuple((rng.randint(-9, 9), rng.randint(-9, 9) if cplx else 0) for _ in range(size))
        return dict(kind="E", shape=fam["shape"], rank=fam["rank"], data=data, en=fam["en"], tTR=fam["tTR"], tInv=fam["tInv"],
                    comment=rng.choice(["", "x", "yy", "zz", "some text " + tag]), titles=())
    chunks = tuple(rng.randint(1, 2) for _ in range(rng.choice([1, 1, 2])))
    size = sum(chunks) * fam["nb"] * n3
    data = tuple((rng.randint(-9, 9), rng.randint(-9, 9) if cplx else 0) for _ in range(size))
    return dict(kind="K", nb=fam["nb"], rank=fam["rank"], chunks=chunks, data=data, tTR=fam["tTR"], tInv=fam["tInv"])


def rand_triple(rng):
    """three spec-form objects that fit pairwise + complex flag"""
    cplx = rng.random() < 0.4
    r = rng.random()
    if r < 0.7:
        fam = rand_family(rng)
        return [rand_obj(rng, fam, cplx, t) for t in "abc"], cplx
    # dictionaries, possibly with Void entries
    fams = {k: rand_family(rng) for k in ("x", "y")[:rng.randint(1, 2)]}
    objs = []
    for t in "abc":
        objs.append(dict(kind="D", items={k: (dict(kind="V") if rng.random() < 0.2 else rand_obj(rng, f, cplx, t)) for k, f in fams.items()}))
    return objs, cplx


def same_shape(a, b):
    if a["kind"] != b["kind"]:
        return False
    if a["kind"] == "K":
        return sum(a["chunks"]) == sum(b["chunks"])
    if a["kind"] == "D":
        return all(x["kind"] == "V" or y["kind"] == "V" or same_shape(x, y) for x, y in ((a["items"][k], b["items"][k]) for k in a["items"]))
    return True


def guarded(f):
    """real operator result as a JSON record object; an exception becomes {kind: X}"""
    try:
        return RA.rec_obj(RA.project(f()))
    except RA.NonIntegral as ex:
        return dict(kind="X", why=str(ex)[:80].replace(" in ", " within "))
    except MachineryError as ex:
        return dict(kind="X", why=("unprojectable result: " + str(ex))[:80].replace(" in ", " within "))
    except Exception as ex:
        return dict(kind="X", why=f"{type(ex).__name__} in {RA.where_raised(ex)}")


def spec_rec(o):
    e = RA.expected(o)
    if e["kind"] == "E" and not e["titles"]:
        n = len(e["shape"])
        e["titles"] = tuple((["Efermi", "Omega"] + ["???"] * n)[:n])
    if e["kind"] == "D":
        e["items"] = {k: spec_rec_proj(v) for k, v in o["items"].items()}
    return RA.rec_obj(e)


def spec_rec_proj(o):
    e = RA.expected(o)
    if e["kind"] == "E" and not e["titles"]:
        n = len(e["shape"])
        e["titles"] = tuple((["Efermi", "Omega"] + ["???"] * n)[:n])
    return e


def record_alg(rng):
    EnergyResult, KBandResult, ResultDict, VoidResult, ps = RA.wb()
    (sa, sb, sc), cplx = rand_triple(rng)
    s = rng.choice([-3, -1, 2, 2, 3, 4, 5])
    t = rng.choice([-2, -1, 2, 3])
    mk = lambda o: RA.make_obj(o, cplx)
    V = VoidResult
    rec = dict(fn="alg", a=spec_rec(sa), b=spec_rec(sb), c=spec_rec(sc), s=s, t=t, cplx=cplx,
               ab=guarded(lambda: mk(sa) + mk(sb)), ba=guarded(lambda: mk(sb) + mk(sa)),
               ab_c=guarded(lambda: (mk(sa) + mk(sb)) + mk(sc)), a_bc=guarded(lambda: mk(sa) + (mk(sb) + mk(sc))),
               a_minus_a=guarded(lambda: (lambda x: x - x)(mk(sa))),
               sa=guarded(lambda: s * mk(sa)), sb=guarded(lambda: float(s) * mk(sb)), **{"as": guarded(lambda: mk(sa) * s)},
               s_ab=guarded(lambda: s * (mk(sa) + mk(sb))), sa_sb=guarded(lambda: s * mk(sa) + s * mk(sb)),
               t_sa=guarded(lambda: t * (s * mk(sa))), one_a=guarded(lambda: 1 * mk(sa)),
               sa_div_s=guarded(lambda: (mk(sa) * s) / s),
               a_void=guarded(lambda: mk(sa) + V()), void_a=guarded(lambda: V() + mk(sa)),
               a_sub_void=guarded(lambda: mk(sa) - V()), void_sub_a=guarded(lambda: V() - mk(sa)),
               zero_a=guarded(lambda: sum([mk(sa)])), a_none=guarded(lambda: mk(sa) + None),
               a_npi=guarded(lambda: mk(sa) * np.int64(s)), a_npf=guarded(lambda: mk(sa) * np.float32(s)),
               half_2a=guarded(lambda: (mk(sa) * 2) * np.float64(0.5)))
    if sa["kind"] in "EK":
        def iadd_neutral(other):
            x = mk(sa)
            x.add(other)
            return x
        rec["a_iadd_void"] = guarded(lambda: iadd_neutral(V()))
        rec["a_iadd_none"] = guarded(lambda: iadd_neutral(None))
    if same_shape(sa, sb):
        rec["a_minus_b"] = guarded(lambda: mk(sa) - mk(sb))
        if sa["kind"] in "EK":
            def iadd():
                x = mk(sa)
                x.add(mk(sb))
                return x
            rec["a_iadd_b"] = guarded(iadd)
    return rec, (sa, sb, sc)


def record_marr(rng):
    """mul_array with a one-dimensional integer array along one axis (E: energy / tensor axes, K: band / tensor axes)"""
    cplx = rng.random() < 0.4
    fam = rand_family(rng)
    sa, sb = rand_obj(rng, fam, cplx, "a"), rand_obj(rng, fam, cplx, "b")
    shape = (tuple(fam["shape"]) if fam["kind"] == "E" else (fam["nb"],)) + (3,) * fam["rank"]
    ax = rng.randint(1, len(shape))
    v = [rng.choice([-3, -2, -1, 1, 2, 3, 0]) for _ in range(shape[ax - 1])]
    s = rng.choice([-2, -1, 2, 3])
    none_axes = ax == 1 and rng.random() < 0.4          # axes=None: the leading axes of the array
    va = np.array(v, dtype=float)
    mk = lambda o: RA.make_obj(o, cplx)
    call = (lambda r: r.mul_array(va)) if none_axes else (lambda r: r.mul_array(va, axes=ax - 1))
    rec = dict(fn="marr", a=spec_rec(sa), b=spec_rec(sb), v=v, ax=0 if none_axes else ax, s=s, cplx=cplx,
               av=guarded(lambda: call(mk(sa))), bv=guarded(lambda: call(mk(sb))), abv=guarded(lambda: call(mk(sa) + mk(sb))),
               sav=guarded(lambda: call(s * mk(sa))))
    return rec, (sa, sb)


def rand_sym(rng):
    """a point operation with integer matrix: signed permutation (proper or improper), with or without time reversal"""
    ps = RA.wb()[4]
    perm = rng.sample(range(3), 3)
    R = np.zeros((3, 3))
    for r_, c_ in enumerate(perm):
        R[r_, c_] = rng.choice([-1, 1])
    TR = rng.random() < 0.4
    g = ps.PointSymmetry(R, TR=TR)
    inv = bool(np.linalg.det(R) < 0)
    proper = R * (-1 if inv else 1)
    return g, dict(R=[[int(round(x)) for x in row] for row in proper], TR=bool(TR), Inv=inv)


def record_sym(rng):
    (sa, sb, _), cplx = rand_triple(rng)
    g, grec = rand_sym(rng)
    s = rng.choice([-2, -1, 2, 3])
    mk = lambda o: RA.make_obj(o, cplx)
    # the law T(a + b) = T(a) + T(b) is about the SAME a and b on both sides: half of the records evaluate every term on one
    # pair of real objects (in a seeded order), the other half on fresh copies
    if rng.random() < 0.5:
        ra, rb = mk(sa), mk(sb)
        A, B = (lambda: ra), (lambda: rb)
    else:
        A, B = (lambda: mk(sa)), (lambda: mk(sb))
    terms = dict(Ta=lambda: A().transform(g), Tb=lambda: B().transform(g), Tab=lambda: (A() + B()).transform(g),
                 Ta_Tb=lambda: A().transform(g) + B().transform(g), Tsa=lambda: (s * A()).transform(g))
    order = list(terms)
    rng.shuffle(order)
    vals = {k: guarded(terms[k]) for k in order}
    rec = dict(fn="sym", a=spec_rec(sa), b=spec_rec(sb), g=grec, s=s, cplx=cplx, **vals)
    return rec, (sa, sb)


def record_save(rng, scratch, n):
    """-> (record, error text of a raising save()/from_npz() or None, source object)"""
    EnergyResult, KBandResult, ResultDict, VoidResult, ps = RA.wb()
    cplx = rng.random() < 0.4
    if rng.random() < 0.1:
        so, real = dict(kind="V"), VoidResult()
    else:
        so = rand_obj(rng, rand_family(rng, "E"), cplx, "saved")
        real = RA.make_obj(so, cplx)
    name = os.path.join(scratch, f"rec_{n}")
    rec = dict(fn="save", a=spec_rec(so), cplx=cplx)
    try:
        try:
            real.save(name)
        except MachineryError:
            raise
        except Exception as ex:
            return None, f"{type(ex).__name__} in {RA.where_raised(ex)}: {ex}", so
        f = RA.read_npz(name + ".npz")              # never raises; information only
        if RA.file_is_readable(f):
            if f["type"] == "EnergyResult":
                f = dict(f, E_titles=list(f["E_titles"]), data=[list(x) for x in f["data"]], dshape=list(f["dshape"]),
                         Energies=[list(e) for e in f["Energies"]],
                         transformTR={k: (list(v) if isinstance(v, tuple) else v) for k, v in f["transformTR"].items()},
                         transformInv={k: (list(v) if isinstance(v, tuple) else v) for k, v in f["transformInv"].items()})
            rec["file"] = f
        rec["loaded"] = guarded(lambda: EnergyResult.from_npz(name + ".npz"))
    finally:
        if os.path.exists(name + ".npz"):
            os.remove(name + ".npz")
    return rec, None, so


def numeric_roundtrip(rep, replayer, rng, scratch, n):
    """binary save / load of float results: np.savez stores the arrays as they are, so energies and data come back
    bit for bit (np.array_equal), rank, transforms and comment unchanged.  Deciding (exact comparison)."""
    EnergyResult, KBandResult, ResultDict, VoidResult, ps = RA.wb()
    nprng = np.random.default_rng(seed() * 7919 + 1616)
    done = 0
    for trial in range(n):
        rank = rng.choice([0, 0, 1, 2])
        shape = tuple(rng.randint(1, 4) for _ in range(rng.choice([1, 2, 2, 3])))
        full = shape + (3,) * rank
        scale = 10.0 ** rng.uniform(-9, 9)
        data = nprng.standard_normal(full) * scale
        cplx = rng.random() < 0.5
        if cplx:
            data = data + 1j * nprng.standard_normal(full) * scale * 10.0 ** rng.uniform(-6, 2)
        energies = [np.sort(nprng.uniform(-13.7, 21.3, size=m)) for m in shape]
        cat = [t for r, ts in T_CAT.items() if r <= rank for t in ts]
        tTR, tInv = rng.choice(cat), rng.choice(cat)
        comment = rng.choice(["", "AHC, Fermi sea", "two\nlines", "sigma_xy (S/cm) 1e-3", "x" * 200])
        name = os.path.join(scratch, f"num_{trial}")
        detail = dict(numeric_only=True, energy_shape=shape, rank=rank, dtype=str(data.dtype), scale=scale, comment=comment,
                      transformTR=RA.jsonable(tTR), transformInv=RA.jsonable(tInv),
                      how="EnergyResult(Energies, data, transformTR, transformInv, rank, comment).save(name); EnergyResult.from_npz(name + '.npz')")
        rep.case(("roundtrip", trial))
        try:
            src = EnergyResult([e.copy() for e in energies], data.copy(), transformTR=RA.make_transform(tTR), transformInv=RA.make_transform(tInv),
                               rank=rank, comment=comment)
            src.save(name)
            back = EnergyResult.from_npz(name + ".npz")
        except MachineryError:
            raise
        except Exception as ex:
            replayer.violation(f"raises:{RA.where_raised(ex)}:{type(ex).__name__}", dict(detail, got=f"{type(ex).__name__}: {ex}"))
            continue
        finally:
            if os.path.exists(name + ".npz"):
                os.remove(name + ".npz")
        bad = []
        try:
            if not isinstance(back, EnergyResult):
                bad.append("class")
            else:
                bd = np.asarray(back.data)
                if bd.shape != data.shape or not np.array_equal(bd, data):
                    bad.append("data")
                be = list(back.Energies)
                if len(be) != len(energies) or not all(np.array_equal(np.asarray(x), y) for x, y in zip(be, energies)):
                    bad.append("energies")
                if int(back.rank) != rank:
                    bad.append("rank")
                if str(back.comment) != comment:
                    bad.append("comment")
                if RA.proj_transform(back.transformTR) != RA.norm_t(tTR) or RA.proj_transform(back.transformInv) != RA.norm_t(tInv):
                    bad.append("transform")
        except Exception as ex:
            bad.append(f"unreadable ({type(ex).__name__}: {ex})")
        if bad:
            dev = None
            try:
                dev = float(np.abs(np.asarray(back.data) - data).max() / scale)
            except Exception:
                pass
            replayer.violation(f"round trip not exact:EnergyResult.from_npz:{bad[0].split(' ')[0]}", dict(detail, differing=bad, relative_deviation_of_data=dev))
        done += 1
    rep.part("numeric_only", what="binary save / load of random float64 / complex128 results with non-integer energies: bit-exact (np.array_equal)",
             cases=n, completed=done, deciding=True)


def observations(rep, scratch):
    """behaviour outside the specified domain: reported, never a violation"""
    EnergyResult, KBandResult, ResultDict, VoidResult, ps = RA.wb()
    t = ps.Transform()

    def tell(name, f):
        try:
            rep.part("observations", **{name: f()})
        except Exception as ex:
            rep.part("observations", **{name: f"raises {type(ex).__name__}: {ex}"})

    mkE = lambda: EnergyResult([np.arange(2.)], np.ones(2), transformTR=t, transformInv=t)
    mkK = lambda: KBandResult(np.ones((2, 1)), transformTR=t, transformInv=t)
    tell("save_with_undeclared_transform", lambda: (EnergyResult([np.arange(2.)], np.zeros(2)).save(os.path.join(scratch, "undeclared")), "works")[1])
    tell("transform_without_energy_axes_rank0",
         lambda: (EnergyResult([], np.array(1.0), transformTR=t, transformInv=ps.Transform(factor=-1)).transform(ps.Inversion), "works")[1])
    # (add() with a VoidResult / None argument and scaling by numpy scalars are deciding cases since fd26d321)
    tell("mul_array_comment", lambda: f"EnergyResult(comment='abc').mul_array(..).comment = {EnergyResult([np.arange(2.)], np.ones(2), transformTR=t, transformInv=t, comment='abc').mul_array(np.ones(2)).comment!r}")
    tell("void_plus_zero", lambda: f"VoidResult() + 0 -> {type(VoidResult() + 0).__name__}")


def run_sensitivity(rep, runs, workers):
    """plausible wrong implementations must be rejected by TLC (the four runs are independent: run them side by side)"""
    cases = (("kvoid", [6]), ("dictvoid", [10]), ("dictsub", [9]), ("kaddzip", [12]))

    def one(c):
        wrong, famsel = c
        return wrong, tlc.run_tlc("MC_ResultAlg.tla", mc_cfg(famsel, 2, wrong=(wrong,), act=("C4z",), symsel=("C4z",)), runs.name(f"c16_wrong_{wrong}"),
                                  workers=1, timeout=TLC_TIMEOUT, coverage=False)
    with ThreadPoolExecutor(max_workers=min(4, max(1, workers))) as ex:
        res = list(ex.map(one, cases))
    sens = {}
    for wrong, st0 in res:
        if st0.get("timeout"):
            raise MachineryError(f"sensitivity run Wrong={{{wrong}}} timed out")
        if not st0.get("violation"):
            raise MachineryError(f"sensitivity self-test failed: MC_ResultAlg with Wrong={{{wrong}}} should violate an invariant "
                                 f"({st0.get('error') or 'no violation'})")
        sens[wrong] = st0["violation"][1]
    rep.part("sensitivity", rejected=sens)


def check(pid, tier):
    rep = Report(pid, tier, "model_checking")
    runs = Runs(pid)
    scratch = workdir(runs.name("c16"))
    replayer = Replayer(rep, scratch)
    try:
        rc = _check(rep, replayer, runs, scratch, tier)
    except Exception:
        # never lose what was found before the machinery (or the package) failed
        replayer.flush()
        if rep.violations:
            try:
                rep.finish()
            except Exception:
                pass
        raise
    finally:
        shutil.rmtree(scratch, ignore_errors=True)
    if rc == 0:
        runs.cleanup()
    return rc


def _check(rep, replayer, runs, scratch, tier):
    global TLC_TIMEOUT
    thorough = tier == "thorough"
    TLC_TIMEOUT = 7200 if thorough else 3000          # a timeout is a MachineryError (exit 2), never a violation
    rng = random.Random(seed() * 7919 + 16)
    workers = int(os.environ.get("VERIF_TLC_WORKERS", "4"))
    rep.rule("a case = one step of one TLC behaviour (operation sequence from a two-object initial store of one family) executed on "
             "the real classes with the whole store compared exactly, distinct by (initial store, operation prefix); plus seeded "
             "random recorded operator results validated by TLC; plus seeded random float results saved and reloaded")
    rep.assume("tensor data are small integers (float / complex arrays), scalars are integers given as int or float, divisors are 2: "
               "all arithmetic of the implementation is exact; every projected value is verified to be integral within 1e-9")
    rep.assume("K-resolved results: `+` is the direct sum over k-points (commutative up to the k order), `/` is a copy or the quotient; "
               "results with a None transform are not saved / transformed (named predicates Savable, TransformDefined); 0 and None are "
               "neutral next to every result but a VoidResult (ZeroNeutralDefined)")
    rep.assume("not compared: the comment / titles of sums, products, transformed results (only a reloaded result has to carry the "
               "comment and titles of the saved one); the layout of the .npz file (information in parts.npz_layout)")
    RA.wb()

    # ---------------- spec -> code : exhaustive bounded model, behaviours replayed
    fams = list(range(1, 15))
    if thorough:
        run_model(rep, "c16_mc", runs.name("c16_mc"), mc_cfg(fams, 2, pairs="PairsB", act=("Inversion", "TimeReversal", "C4z", "TRMx")), replayer,
                  workers, 2, require=OPS)
        # three operations: TLC only (behaviours of this depth are sampled by the simulation below); not counted as replayed
        st3 = tlc.run_tlc("MC_ResultAlg.tla", mc_cfg([6, 10], 3, act=("TRMx",)), runs.name("c16_mc3"), workers=workers, timeout=TLC_TIMEOUT, coverage=False)
        if st3.get("timeout") or (st3.get("error") and not st3.get("violation")):
            raise MachineryError(f"TLC failed on c16_mc3: {st3.get('error')}")
        if not ftable.spec_violation(rep, st3, "c16_mc3"):
            rep.part("c16_mc3_tlc_only", distinct=st3.get("distinct"), generated=st3.get("generated"), replayed=False)
        run_simulation(rep, "c16_sim", runs, mc_cfg(fams, 5, pairs="PairsC", act=ALL_SYMS, scal="ScalarsB"), replayer, 1500, 6, workers)
    else:
        run_model(rep, "c16_mc1", runs.name("c16_mc1"), mc_cfg(fams, 1, act=ALL_SYMS), replayer, workers, 1)
        run_model(rep, "c16_mc", runs.name("c16_mc"), mc_cfg([2, 10, 12], 2), replayer, workers, 2,
                  require=[o for o in OPS if o != "LoadNpz"])
        # persistence of every energy-resolved family (real / complex, rank 0..2, one and two energy axes)
        run_model(rep, "c16_io", runs.name("c16_io"), mc_cfg([1, 2, 3, 4, 5], 2, spec="SpecIO", invs=["NoRaise", "LawSaveLoad"], act=("C4z",),
                                                             symsel=("C4z",)), replayer, workers, 2, require=["SaveNpz", "LoadNpz", "SaveVoid"])
        run_simulation(rep, "c16_sim", runs, mc_cfg(fams, 4, pairs="PairsB", act=ALL_SYMS), replayer, 60, 5, workers)
    missing = [a for a in OPS if replayer.ops.get(a, 0) == 0]
    if missing:
        raise MachineryError(f"operations never replayed on the real classes: {missing}")
    rep.part("replay", behaviours=replayer.nbeh, steps_per_operation=replayer.ops)
    rep.part("npz_layout", **replayer.layout)
    rep.part("k_resolved_division", **replayer.kdiv)
    replayer.flush()

    # ---------------- numeric (deciding): bit-exact binary round trip of float results
    numeric_roundtrip(rep, replayer, rng, scratch, 150 if thorough else 40)
    replayer.flush()

    # ---------------- sensitivity: plausible wrong implementations must be rejected by TLC
    run_sensitivity(rep, runs, workers)

    # ---------------- code -> spec : recorded operator results validated by TLC
    recs, meta = [], []
    nrec = 900 if thorough else 100
    for n in range(nrec):
        r = rng.random()
        if r < 0.42:
            rec, src = record_alg(rng)
        elif r < 0.67:
            rec, src = record_sym(rng)
        elif r < 0.82:
            rec, src = record_marr(rng)
        else:
            rec, err, src = record_save(rng, scratch, n)
            if rec is None:
                exc, where = err.split(":")[0].split(" in ")[:2]
                replayer.violation(f"raises:{where}:{exc}", dict(object=RA.jsonable(src), operation="save", got=err))
                continue
        recs.append(rec)
        meta.append(src)
        rep.case(("rec", n, rec["fn"]))
    replayer.flush()
    stv, bad = ftable.validate_records("ResultAlgRec.tla", REC_CFG, recs, runs.name("c16"), chunk=REC_CHUNK, timeout=TLC_TIMEOUT)
    rep.add_tlc("c16_records", stv)
    rep.add_traces(len(recs))
    kinds_seen = {}
    for r in recs:
        kinds_seen[r["fn"] + ":" + r["a"]["kind"]] = kinds_seen.get(r["fn"] + ":" + r["a"]["kind"], 0) + 1
    for need in ("alg:E", "alg:K", "alg:D", "sym:E", "sym:K", "save:E", "marr:E", "marr:K"):
        if not kinds_seen.get(need):
            raise MachineryError(f"no recorded case of class {need}")
    rep.part("records", per_class=kinds_seen)
    advisory = {}
    for idx, clauses in bad.items():
        r = recs[idx]
        for cl in clauses:
            if cl in ADVISORY_CLAUSES:
                advisory[cl] = advisory.get(cl, 0) + 1
                continue
            # root cause: an involved real operator raised, or its result differs from the specified one
            why = sorted({r[f]["why"] for f in CLAUSE_FIELDS.get(cl, ()) if f in r and r[f].get("kind") == "X"}
                         | {v["why"] for f in CLAUSE_FIELDS.get(cl, ()) if f in r and r[f].get("kind") == "D"
                            for v in r[f]["items"].values() if v.get("kind") == "X"})
            if why:
                exc, where = why[0].split(" in ")[:2] if " in " in why[0] else (why[0], "?")
                key = f"raises:{where}:{exc}"
            else:
                key = f"wrong data:{RA.CLASS[r['a']['kind']]}.{CLAUSE_METHOD.get(cl, cl)}"
            replayer.violation(key, dict(record=r, failing_clause=cl, how="recorded outputs of the real operators (fields of `record`) "
                                                                          "evaluated by TLC with ResultAlgRec.tla"))
    rep.part("npz_layout", records_with_unreadable_layout=sum(1 for r in recs if r["fn"] == "save" and "file" not in r),
             advisory_clauses_failed=advisory)
    rep.sample({k: (v if k in ("fn", "s", "t", "g", "v", "ax") else "...") for k, v in recs[0].items()})
    replayer.flush()

    # binding self-test: corrupted records (one per record class that carries data) must be rejected
    def first(fn, field):
        for r in recs:
            if r["fn"] == fn and r.get(field, {}).get("kind") in ("E", "K") and len(r[field].get("data", [])) > 0:
                c = copy.deepcopy(r)
                c[field]["data"][0][0] += 1
                return c
        raise MachineryError(f"no {fn} record available for the binding self-test")
    cor = [first("alg", "ab"), first("sym", "Ta"), first("save", "loaded"), first("marr", "av")]
    want = ["add_equals_spec", "transform_equals_spec", "round_trip", "marr_equals_spec"]
    _, b2 = ftable.validate_records("ResultAlgRec.tla", REC_CFG, cor, runs.name("c16_selftest"), timeout=TLC_TIMEOUT)
    for n, w in enumerate(want):
        if w not in b2.get(n, []):
            raise MachineryError(f"binding self-test failed: corrupted {cor[n]['fn']} record accepted (clause {w})")
    rep.part("binding_selftest", corrupted_records_rejected={cor[n]["fn"]: b2[n] for n in range(len(cor))})

    observations(rep, scratch)
    if RA.SKIPPED_PRIVATE:
        rep.part("skipped_private", names=sorted(RA.SKIPPED_PRIVATE))
    replayer.flush()
    return rep.finish()
