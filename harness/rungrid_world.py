"""Drives the real wannierberri.run() on tiny exact systems and records ndjson-able traces of abstract events.

Geometry (matches spec/RunGrid.tla): D periodic directions (1 or 2) with N K-points each, refinement mesh NDIV, integer
coordinates modulo U = 2*N*NDIV**LMAX, integer weights in units of 1/WTOT.  The per-K "result" is a one-hot vector
(slot = function of the K-point cell), so the data of the running integral is the coefficient vector.

Failure classes (kept apart, see World.run / World.sink):
 * the package raises                      -> World.errors (the check reports  raises:<module.function>:<Type>)
 * a projected value is not on the lattice -> World.problems (NonIntegral; the check reports  projection:nonintegral)
 * a private name the projection reads is gone (renamed attribute, hook field, keyword of run())
                                           -> World.private_gone (the check degrades: skipped_private)
 * anything else going wrong in harness code -> MachineryError
"""
import os
import re
import sys
import glob as _glob
import types
import pickle
import random
import traceback
import numpy as np

from .common import quiet, MachineryError

os.environ.setdefault("WANNIERBERRI_VERIF_TRACE", "1")

import wannierberri as wb  # noqa: E402
from wannierberri import run_grid as RG  # noqa: E402
from wannierberri.result import EnergyResult  # noqa: E402
from wannierberri.symmetry.point_symmetry import transform_ident  # noqa: E402

try:  # ray ships closures with cloudpickle; the double does the same when it is there
    import cloudpickle as _cp
except Exception:  # pragma: no cover
    _cp = pickle

GROUPS = {
    "none": dict(gens=[], mats=[(1, 0, 0, 1)]),
    "inv": dict(gens=["Inversion"], mats=[(1, 0, 0, 1), (-1, 0, 0, -1)]),
    "c4": dict(gens=["C4z"], mats=[(1, 0, 0, 1), (0, -1, 1, 0), (-1, 0, 0, -1), (0, 1, -1, 0)]),
    "mx": dict(gens=["Mx"], mats=[(1, 0, 0, 1), (-1, 0, 0, 1)]),
    "c4v": dict(gens=["C4z", "Mx"], mats=[(1, 0, 0, 1), (0, -1, 1, 0), (-1, 0, 0, -1), (0, 1, -1, 0),
                                          (-1, 0, 0, 1), (1, 0, 0, -1), (0, 1, 1, 0), (0, -1, -1, 0)]),
    # hexagonal lattice (matrices in reduced reciprocal coordinates; cells are not mapped onto cells)
    "h3": dict(gens=["C3z"], hex=True, mats=[(1, 0, 0, 1), (-1, -1, 1, 0), (0, 1, -1, -1)]),
    "h6": dict(gens=["C6z"], hex=True, mats=[]),
    "h3m": dict(gens=["C3z", "Mx"], hex=True, mats=[]),
}
GROUP_TLA = {"none": "GNone", "inv": "GInv1", "c4": "GC4", "mx": "GMx", "c4v": "GC4v", "h3": "GH3", "h6": "GH6", "h3m": "GH3m"}

FACTOR_FILE = re.compile(r"factors_iter-(\d+)\.npy$")


class NonIntegral(Exception):
    """a K coordinate / weight / coefficient of the implementation is not on the integer lattice of the geometry"""


class PrivateGone(Exception):
    """a private attribute / hook field / keyword that the projection relies on does not exist any more"""


_GEO_TABLE = {}


def _geo_lookup(uid):
    return _GEO_TABLE[uid]


class Geometry:
    """D, N, NDIV, LMAX, group as in RunGrid.tla.  `fresh()` gives the instance a World works with: result slots are
    handed out on first use (compact result vectors); that instance is pickled by reference, so the copies of the
    calculator made by the pass-by-value ray double share the slot table (the double runs in this process)."""

    def __init__(self, D, N, NDIV, LMAX, group):
        self.D, self.N, self.NDIV, self.LMAX, self.group = D, N, NDIV, LMAX, group
        self.U = 2 * N * NDIV ** LMAX
        self.W0 = NDIV ** (D * LMAX)
        self.WTOT = N ** D * self.W0
        self.capacity = 512
        self.nslots = None
        self.registry = None
        self.uid = None

    def use_registry(self, capacity):
        self.capacity = capacity
        return self

    def fresh(self):
        g = Geometry(self.D, self.N, self.NDIV, self.LMAX, self.group)
        g.capacity = g.nslots = self.capacity
        g.registry = {}
        g.uid = len(_GEO_TABLE) + 1
        _GEO_TABLE[g.uid] = g
        return g

    def release(self):
        _GEO_TABLE.pop(self.uid, None)

    def __reduce__(self):
        if self.uid is not None and self.uid in _GEO_TABLE:
            return (_geo_lookup, (self.uid,))
        return (Geometry, (self.D, self.N, self.NDIV, self.LMAX, self.group))

    def key(self):
        return (self.D, self.N, self.NDIV, self.LMAX, self.group)

    def cell_of(self, K):
        """K (reduced coords in units where the K-grid cell is 1, as KpointBZ.K) -> integer coordinate tuple"""
        c = []
        for d in range(2):
            x = K[d] * self.U
            xi = int(round(x))
            if abs(x - xi) > 1e-6:
                raise NonIntegral(f"K coordinate {K} is not on the integer lattice U={self.U}")
            c.append(xi % self.U if d < self.D else xi)
        return tuple(c)

    def slot(self, cell, lev):
        if lev > self.LMAX + 1 or lev < 0:
            raise NonIntegral(f"refinement level {lev} outside 0..LMAX+1={self.LMAX + 1}")
        s = self.registry.setdefault((tuple(cell), int(lev)), len(self.registry))
        if s >= self.nslots:
            raise MachineryError(f"slot table of the one-hot world too small ({self.nslots})")
        return s

    def weight(self, f):
        x = f * self.WTOT
        xi = int(round(x))
        if abs(x - xi) > 1e-7:
            raise NonIntegral(f"weight {f} is not a multiple of 1/{self.WTOT}")
        return xi


def make_system(geo):
    lat = np.eye(3)
    if GROUPS[geo.group].get("hex"):
        lat = np.array([[1, 0, 0], [-0.5, np.sqrt(3) / 2, 0], [0, 0, 1.]])
    with quiet():
        syst = wb.system.System_R.from_sparse(real_lattice=lat, wannier_centers_red=np.zeros((1, 3)),
                                              matrices={'Ham': {(0, 0, 0): {(0, 0): 1.0}, (1, 0, 0): {(0, 0): 0.5}, (-1, 0, 0): {(0, 0): 0.5}}})
        syst.periodic = np.array([True, geo.D == 2, False])
        syst.set_pointgroup(GROUPS[geo.group]["gens"])
    return syst


class FakeDataK:
    """stands in for Data_K: only carries the K-point to the calculators"""

    def __init__(self, system, dK=None, grid=None, Kpoint=None, **kw):
        self.Kpoint = Kpoint
        self.system = system


class Priority:
    """magnitude of the one-hot result of the K-point (cell, level): decides which points run() refines.
    mode 'table': `table[(cell, lev)]` (default 1), 'random': log-uniform in 1..1e6, 'deep': grows with the level.
    Every value is multiplied by 1 + 1e-3*u with u pseudo-random in (cell, lev, salt), so that no two K-points tie in the
    refinement criterion (which of two tied points numpy.argsort prefers depends on the length of the list: not a
    property of run())."""

    def __init__(self, mode="table", table=None, salt=0):
        self.mode, self.table, self.salt = mode, dict(table or {}), salt
        self.cache = {}

    def __call__(self, cell, lev):
        k = (tuple(int(x) for x in cell), int(lev))
        v = self.cache.get(k)
        if v is None:
            r = random.Random(hash((k[0], k[1], self.salt)))
            if self.mode == "table":
                base = float(self.table.get(k, 1.0))
            elif self.mode == "random":
                base = 10.0 ** r.uniform(0, 6)
            elif self.mode == "deep":   # deep-first: children outrank everything older
                base = float(r.choice([1, 2, 3, 5, 7])) * 1.0e3 ** k[1]
            else:
                raise ValueError(self.mode)
            v = self.cache[k] = base * (1.0 + 1.0e-3 * r.random())
        return v


class OneHot:
    """calculator: EnergyResult whose data is `priority` at rows 2*slot, 2*slot+1 (x1, x2) of the K-point's cell"""
    comment = "one-hot synthetic calculator"
    allow_path = False
    allow_grid = True

    def __init__(self, geo, priority=None):
        self.geo = geo
        self.pri = priority if callable(priority) else Priority("table", priority)
        self.E = np.arange(2 * geo.nslots, dtype=float)

    def __call__(self, data_K):
        Kp = data_K.Kpoint
        cell = self.geo.cell_of(Kp.K)
        lev = Kp.refinement_level
        s = self.geo.slot(cell, lev)
        d = np.zeros(2 * self.geo.nslots)
        p = self.pri(cell, lev)
        d[2 * s] = p
        d[2 * s + 1] = 2 * p
        return EnergyResult([self.E], d, transformTR=transform_ident, transformInv=transform_ident, rank=0,
                            save_mode="bin")


# ---------------------------------------------------------------------------------------------------------
# schedule-controlled ray double


def _by_value(obj):
    return _cp.loads(_cp.dumps(obj))


class FakeRef:
    """stands for ray.ObjectRef of a task"""

    def __init__(self, serial, thunk, by_value):
        self.serial = serial
        self.idx = None       # position in the batch (set by the first wait() that sees the ref)
        self.thunk = thunk
        self.by_value = by_value
        self.value = None
        self.computed = False

    def compute(self):
        if not self.computed:
            v = self.thunk()
            self.value = _by_value(v) if self.by_value else v
            self.computed = True
            self.thunk = None
        return self.value


class PutRef:
    """stands for the ObjectRef returned by ray.put: the value is shipped (pickled) once; tasks see a copy"""

    def __init__(self, v, by_value):
        self.blob = _cp.dumps(v) if by_value else None
        self.v = v
        self.copy = None

    def resolve(self):
        if self.blob is None:
            return self.v
        if self.copy is None:
            self.copy = _cp.loads(self.blob)
        return self.copy

    def compute(self):
        return _by_value(self.v) if self.blob is not None else self.v


class FakeRay(types.ModuleType):
    """Implements the subset of the ray API used by process()/run().  `schedule` decides, at each wait() call, which
    tasks have completed and which ready subset is returned (within the documented contract of ray.wait):
    schedule(n_tasks, done_so_far(set of idx), num_returns, n_wait_calls, n_batch) -> (newly_completed list, ready list).
    An answer that does not fit the actual call (other num_returns, other number of tasks: the collection loop of the
    implementation need not be the one the schedule was written for) is replaced by FIFO completion (`fallbacks`).

    Like ray, the double passes by value: arguments of a task and its result go through (cloud)pickle, top-level
    arguments that are refs (ray.put / other tasks) are resolved, nested ones are not.

    A batch is the list of refs handed to the first wait() after new .remote() calls; task numbers (events `Complete`)
    are positions in that list."""

    def __init__(self, ncpu, schedule, emit, by_value=True):
        super().__init__("ray")
        self.ncpu = ncpu
        self.schedule = schedule
        self.emit = emit
        self.by_value = by_value
        self.done = set()
        self.nwait = 0
        self.nbatch = -1
        self.nserial = 0
        self.fresh = []
        self.fallbacks = 0
        self.ObjectRef = FakeRef

    # -- cluster
    def is_initialized(self, *a, **kw):
        return True

    def init(self, *a, **kw):
        return None

    def shutdown(self, *a, **kw):
        return None

    def cluster_resources(self, *a, **kw):
        return {"CPU": float(self.ncpu)}

    def available_resources(self, *a, **kw):
        return {"CPU": float(self.ncpu)}

    def put(self, v, *a, **kw):
        return PutRef(v, self.by_value)

    def cancel(self, *a, **kw):
        return None

    # -- tasks
    def _resolve(self, x):
        if isinstance(x, PutRef):
            return x.resolve()
        if isinstance(x, FakeRef):
            return x.compute()
        return _by_value(x) if self.by_value else x

    def remote(self, *dargs, **dkw):
        fr = self

        def wrap(f):
            class Remote:
                def remote(self_, *a, **kw):
                    a2 = [fr._resolve(x) for x in a]
                    kw2 = {k: fr._resolve(v) for k, v in kw.items()}
                    ref = FakeRef(fr.nserial, lambda: f(*a2, **kw2), fr.by_value)
                    fr.nserial += 1
                    fr.fresh.append(ref)
                    return ref

                def options(self_, *a, **kw):
                    return self_
            return Remote()
        if len(dargs) == 1 and callable(dargs[0]) and not dkw:
            return wrap(dargs[0])
        return wrap           # decorator form  ray.remote(num_cpus=...)

    def new_batch(self):      # kept for callers that know where a batch starts; wait() finds out by itself
        pass

    def _start_batch(self, refs):
        self.fresh = []
        self.nwait = 0
        self.nbatch += 1
        self.done = set()
        for i, r in enumerate(refs):
            r.idx = i

    def wait(self, refs, num_returns=1, timeout=None, **kw):
        refs = list(refs)
        if any(r.idx is None for r in refs):
            self._start_batch(refs)
        n = len(refs)
        pos = {r.idx: r for r in refs}
        done_here = {t for t in self.done if t in pos}
        num_returns = max(0, min(int(num_returns), n))
        try:
            newly, ready = self.schedule(n, set(done_here), num_returns, self.nwait, self.nbatch)
            newly, ready = [int(t) for t in newly], [int(t) for t in ready]
            ok = (len(set(newly)) == len(newly) and all(t in pos and t not in done_here for t in newly)
                  and set(ready) <= (done_here | set(newly)) and len(set(ready)) == len(ready) <= num_returns
                  and (len(ready) == num_returns or set(ready) == (done_here | set(newly))))
        except (IndexError, KeyError, ValueError):
            ok = False
        if not ok:
            self.fallbacks += 1
            newly, ready = fifo_schedule(sorted(pos), done_here, num_returns)
        self.nwait += 1
        for t in newly:
            self.done.add(t)
            self.emit("Complete", dict(t=t))
        rs = set(ready)
        return [r for r in refs if r.idx in rs], [r for r in refs if r.idx not in rs]

    def get(self, x, *a, **kw):
        if isinstance(x, (list, tuple)):
            return [r.compute() for r in x]
        return x.compute()


# ---------------------------------------------------------------------------------------------------------
# directory listing shims


def factor_iters(files):
    """iteration numbers of a list of factor files (None when some name is not a factor file)"""
    out = []
    for f in files:
        m = FACTOR_FILE.search(os.path.basename(str(f)))
        if not m:
            return None
        out.append(int(m.group(1)))
    return out


class ListingOrder:
    """dictates the order of a directory listing: a permutation of the real (sorted) listing, the same permutation
    every time the same listing is asked for"""

    def __init__(self, order_fn=None):
        self.order_fn = order_fn
        self.memo = {}
        self.consulted = 0          # listings with at least two entries that were dictated
        self.last_factor_listing = None

    def __call__(self, names):
        names = sorted(names)
        key = tuple(names)
        if key not in self.memo:
            out = list(names)
            if self.order_fn is not None:
                try:
                    out = list(self.order_fn(list(names)))
                except Exception:
                    out = list(reversed(names))
                if sorted(out) != names:
                    out = list(reversed(names))
            self.memo[key] = out
        out = self.memo[key]
        if len(names) > 1 and self.order_fn is not None:
            self.consulted += 1
        its = factor_iters(out)
        if its:
            self.last_factor_listing = its
        return list(out)


class GlobShim:
    """replaces run_grid.glob (the module, or the function after `from glob import glob`)"""

    def __init__(self, order):
        self.order = order

    def glob(self, pattern, *a, **kw):
        return self.order(_glob.glob(pattern, *a, **kw))

    __call__ = glob

    def iglob(self, pattern, *a, **kw):
        return iter(self.glob(pattern, *a, **kw))

    def __getattr__(self, name):
        return getattr(_glob, name)


class OsShim:
    """replaces run_grid.os: listdir / scandir in the dictated order, everything else is the real os"""

    def __init__(self, order):
        self.order = order

    def listdir(self, path="."):
        return self.order(os.listdir(path))

    def scandir(self, path="."):
        ents = {e.name: e for e in os.scandir(path)}
        return iter([ents[n] for n in self.order(list(ents))])

    def __getattr__(self, name):
        return getattr(os, name)


def listing_fn(listing):
    """order function for ListingOrder: the factor files in the order `listing` (iteration numbers), if that is a
    permutation of the iterations on disk; other files reversed"""
    def fn(files):
        its = factor_iters(files)
        if its is not None and sorted(its) == sorted(listing):
            key = dict(zip(its, files))
            return [key[i] for i in listing]
        return list(reversed(files))
    return fn


def package_frame(ex):
    """-> "module.function" of the innermost traceback frame inside the wannierberri package (None if there is none)"""
    pkg = os.path.dirname(os.path.abspath(wb.__file__)) + os.sep
    for f in reversed(traceback.extract_tb(ex.__traceback__)):
        fn = os.path.abspath(f.filename)
        if fn.startswith(pkg):
            return os.path.splitext(fn[len(pkg):])[0].replace(os.sep, ".") + "." + f.name
    return None


def raised_by_package(ex):
    """-> "module.function" if the innermost frame that is neither third-party nor harness is in wannierberri"""
    from .main import raised_by_code_under_test
    return raised_by_code_under_test(ex)


# ---------------------------------------------------------------------------------------------------------


def _attr(obj, name):
    try:
        return getattr(obj, name)
    except AttributeError:
        raise PrivateGone(f"{type(obj).__name__}.{name}")


def _field(f, name):
    try:
        return f[name]
    except KeyError:
        raise PrivateGone(f"hook field {name}")


class World:
    """one directory + one system; run() can be invoked repeatedly; every hook event is projected and recorded"""

    def __init__(self, geo, workdir, priority=None):
        self.geo = geo = geo.fresh()
        self.dir = workdir
        os.makedirs(workdir, exist_ok=True)
        self.kdir = os.path.join(workdir, "klist")
        self.fout = os.path.join(workdir, "res")
        self.system = make_system(geo)
        self.calc = OneHot(geo, priority)
        self.events = []
        self.div_order = []
        self.problems = []        # NonIntegral projections: (event index, text)
        self.errors = []          # exceptions raised by the package: dict(site, type, text)
        self.private_gone = []    # names
        self.soft_missing = set()  # optional private attributes that are gone (storage flags / paths)
        self.paths = {}           # result_storage_path -> number (first seen = 1)
        self.listing = None
        self.restart_iteration = -1
        self.listing_restarts = 0   # restarts with restart_iteration < 0 and more than one factor file
        self.listing_consulted = 0  # ... in which the implementation asked a shimmed listing
        self.ray_fallbacks = 0
        self.last_klist = None
        self._machinery = None
        self._listing_before = []

    # ---- projections (one guarded adapter for the private attributes of KpointBZ)
    def storage_state(self, K):
        try:
            if K.result is not None:
                return "mem"
            if K.res_dumped_flag:
                return "disk"
            if getattr(K, "res_cleared_flag", False):
                return "cleared"
            return "none"
        except AttributeError as ex:
            self.soft_missing.add(str(ex)[:80])
            return "unknown"

    def storage_path_no(self, K):
        try:
            p = K.result_storage_path
        except AttributeError as ex:
            self.soft_missing.add(str(ex)[:80])
            return -1
        if p is None:
            return 0
        return self.paths.setdefault(os.path.abspath(str(p)), len(self.paths) + 1)

    def proj_klist(self, K_list):
        out = []
        for K in K_list:
            cell = self.geo.cell_of(_attr(K, "K"))
            out.append([cell[0], cell[1], int(_attr(K, "refinement_level")), self.geo.weight(_attr(K, "factor")),
                        bool(_attr(K, "was_evaluated_flag")), self.storage_state(K), self.storage_path_no(K)])
        return out

    def proj_result(self, res, K_list):
        """coefficient of each K-point of K_list in the result + total coefficient over all slots"""
        if res is None:
            return None
        try:
            d = res.results["oh"].data
        except (AttributeError, KeyError, TypeError) as ex:
            raise PrivateGone(f"ResultDict.results['oh'].data ({ex})")
        g = self.geo
        coef = []
        used = set()
        for K in K_list:
            cell = g.cell_of(_attr(K, "K"))
            lev = int(_attr(K, "refinement_level"))
            s = g.slot(cell, lev)
            p = self.calc.pri(cell, lev)
            a, b = d[2 * s] / p, d[2 * s + 1] / (2 * p)
            if abs(a - b) > 1e-9:
                raise NonIntegral(f"one-hot rows disagree at slot {s}: {a} {b}")
            coef.append(g.weight(a))
            used.add(s)
        other = 0
        nz = np.nonzero(np.abs(d) > 1e-12)[0]
        for r in nz:
            if (r // 2) not in used:
                other += 1
        return dict(coef=coef, stray=int(other))

    def disk_state(self):
        ff = []
        for f in sorted(_glob.glob(os.path.join(self.kdir, "factors_iter-*.npy"))):
            i = factor_iters([f])
            if i is None:
                continue
            ff.append([i[0], [self.geo.weight(x) for x in np.load(f)]])
        pk = []
        fn = os.path.join(self.kdir, "K_list.pickle")
        if os.path.exists(fn):
            with open(fn, "rb") as fr:
                while True:
                    try:
                        pk += pickle.load(fr)
                    except EOFError:
                        break
        return dict(ffiles=ff, pick=self.proj_klist(pk))

    def disk_state_opt(self):
        """the restart files are a detail of the implementation (strict level only): unreadable -> not reported"""
        if not os.path.isdir(self.kdir):
            return None
        try:
            return self.disk_state()
        except (NonIntegral, PrivateGone):
            raise
        except Exception as ex:
            self.soft_missing.add(f"restart files: {type(ex).__name__}")
            return None

    def saved_file(self, i_iter):
        fn = f"{self.fout}-oh_iter-{i_iter:04d}.npz"
        if not os.path.exists(fn):
            return None
        return EnergyResult.from_npz(fn)

    # ---- summary sink for big worlds: one record with the projected vectors per UpdateIntegral / Return / Returned
    def summary_sink(self, event, f):
        if event == "Return":
            self.last_klist = f.get("K_list")
        if event not in ("UpdateIntegral", "Return", "StartRestart", "Returned"):
            return
        g = self.geo
        try:
            K_list = _field(f, "K_list")
            pr = self.proj_result(_field(f, "result_all"), K_list)
            facs = [g.weight(_attr(K, "factor")) for K in K_list]
            self.events.append(dict(e=event, wtot=g.WTOT, facs=facs, coef=pr["coef"], stray=pr["stray"],
                                    ev=[bool(_attr(K, "was_evaluated_flag")) for K in K_list]))
        except NonIntegral as ex:
            self.events.append(dict(e=event, nonintegral=str(ex)))
            self.problems.append((len(self.events) - 1, str(ex)))
        except PrivateGone as ex:
            self.private_gone.append(str(ex))

    # ---- hook sink
    def sink(self, event, f):
        """never raises into run(): see the failure classes in the module docstring"""
        if self.private_gone or self._machinery is not None:
            return
        try:
            self._sink(event, f)
        except PrivateGone as ex:
            self.private_gone.append(str(ex))
        except Exception as ex:   # a defect of the harness, not of run()
            self._machinery = (ex, traceback.format_exc())

    def _sink(self, event, f):
        g = self.geo
        ev = dict(e=event)
        try:
            if event in ("StartFresh", "StartRestart"):
                ev.update(par=bool(_field(f, "parallel")), dump=bool(_field(f, "dump_results")), allow=bool(_field(f, "allow_restart")),
                          sym=bool(_field(f, "use_irred_kpt")), restart=(event == "StartRestart"), nit=int(_field(f, "adpt_num_iter")),
                          start=int(_field(f, "start_iter")), kl=self.proj_klist(_field(f, "K_list")))
                if "factors" in f:
                    ev["facs"] = [g.weight(x) for x in f["factors"]]
                if event == "StartRestart":
                    ev["coef"] = self.proj_result(_field(f, "result_all"), f["K_list"])
                    lst = self.listing.last_factor_listing if self.listing is not None else None
                    ev["listing"] = list(lst if lst is not None else self._listing_before)
                    ev["ri"] = int(self.restart_iteration)
                if ev["allow"]:
                    ev["disk"] = self.disk_state_opt()
            elif event == "BeginProcess":
                ev.update(kl=self.proj_klist(_field(f, "K_list")))
                if "selK" in f:
                    ev["sel"] = [int(i) + 1 for i in f["selK"]]
                if "parallel" in f:
                    ev["par"] = bool(f["parallel"])
            elif event in ("Eval", "Collect"):
                ev.update(k=int(_field(f, "ik")) + 1, kl=self.proj_klist(_field(f, "K_list")),
                          rsum=self.proj_result(_field(f, "result_sum"), f["K_list"]))
            elif event == "Wait":
                ev.update(ready=[int(i) + 1 for i in np.where(_field(f, "ready"))[0]], old=[int(i) + 1 for i in np.where(_field(f, "old"))[0]])
            elif event == "EndCollect":
                ev.update(old=[int(i) + 1 for i in np.where(_field(f, "old"))[0]])
            elif event == "EndProcess":
                ev.update(kl=self.proj_klist(_field(f, "K_list")), rsum=self.proj_result(_field(f, "result_sum"), f["K_list"]))
            elif event == "AppendPickle":
                ev.update(disk=self.disk_state_opt())
            elif event == "UpdateIntegral":
                ev.update(kl=self.proj_klist(_field(f, "K_list")), coef=self.proj_result(_field(f, "result_all"), f["K_list"]),
                          disk=self.disk_state_opt())
                if "factors" in f:
                    ev["facs"] = [g.weight(x) for x in f["factors"]]
            elif event == "SaveData":
                ev.update(saved=bool(_field(f, "saved")), iter=int(_field(f, "i_iter")))
                if ev["saved"]:
                    r = self.saved_file(ev["iter"])
                    if r is None:
                        ev["file"] = None
                    else:
                        from wannierberri.result import ResultDict
                        ev["file"] = self.proj_result(ResultDict({"oh": r}), _field(f, "K_list"))
            elif event == "Divide":
                self.div_order.append(int(_field(f, "iK")) + 1)
                return
            elif event == "Refine":
                ev.update(ord=list(self.div_order), kl=self.proj_klist(_field(f, "K_list")))
                if "nk_prev" in f:
                    ev["nkprev"] = int(f["nk_prev"])
                self.div_order = []
            elif event == "Return":
                self.last_klist = list(_field(f, "K_list"))
                ev.update(coef=self.proj_result(_field(f, "result_all"), f["K_list"]))
        except NonIntegral as ex:
            ev["nonintegral"] = str(ex)
            self.problems.append((len(self.events), f"{event}: {ex}"))
        self.events.append(ev)

    def emit_env(self, event, fields):
        ev = dict(e=event)
        ev.update({k: (int(v) + 1 if k == "t" else v) for k, v in fields.items()})
        self.events.append(ev)

    # ---- running
    def run(self, nit, parallel=False, dump=False, allow=False, sym=True, restart=False, adpt_fac=1,
            schedule=None, ncpu=2, listing_fn=None, klist_part=10, restart_iteration=-1, summary=False):
        """-> (result or None, error text or None).  error text: the package raised (recorded in self.errors).
        Problems of the harness itself raise MachineryError; vanished private names are recorded in self.private_gone
        (the caller skips what depends on them)."""
        with quiet():
            grid = wb.Grid(system=self.system, NKdiv=[self.geo.N, self.geo.N if self.geo.D == 2 else 1, 1], NKFFT=1)
        self._machinery = None
        self.last_klist = None
        sink = self.summary_sink if summary else self.sink
        self.listing = ListingOrder(listing_fn)
        self.restart_iteration = restart_iteration
        self._listing_before = []
        if restart:
            files = sorted(_glob.glob(os.path.join(self.kdir, "factors_iter-*.npy")))
            self._listing_before = factor_iters(self.listing(files)) or []
            self.listing.consulted = 0
            self.listing.last_factor_listing = None
            if restart_iteration < 0 and len(files) > 1 and listing_fn is not None:
                self.listing_restarts += 1
        patched = []

        def patch(obj, name, value):
            if hasattr(obj, name):
                patched.append((obj, name, getattr(obj, name)))
                setattr(obj, name, value)
        patch(RG, "_verif_sink", sink)
        patch(RG, "_VERIF_ON", True)
        if not hasattr(RG, "_verif_sink"):
            self.private_gone.append("run_grid._verif_sink (hook)")
        patch(RG, "glob", GlobShim(self.listing))
        patch(RG, "os", OsShim(self.listing))
        fake = None
        saved_ray = sys.modules.get("ray")
        if parallel:
            fake = FakeRay(ncpu, schedule or fifo_answer, self.emit_env)
            sys.modules["ray"] = fake
        elif saved_ray is None:
            # serial: process() asks get_ray_cpus_count(), which imports ray (seconds, tens of seconds under load) only
            # to learn that it is not initialised
            fake = FakeRay(1, fifo_answer, self.emit_env)
            fake.is_initialized = lambda *a, **kw: False
            sys.modules["ray"] = fake
        err = None
        res = None
        try:
            with quiet():
                res = RG.run(self.system, grid, {"oh": self.calc}, adpt_num_iter=nit, use_irred_kpt=sym,
                             fout_name=self.fout, file_Klist_path=self.kdir, restart=restart, allow_restart=allow,
                             dump_results=dump, parallel=parallel, adpt_mesh=self.geo.NDIV, adpt_fac=adpt_fac,
                             data_k_class=FakeDataK, Klist_part=klist_part, restart_iteration=restart_iteration,
                             print_progress_step_time=1e9)
        except NonIntegral as ex:     # raised by the one-hot calculator: the K-point is off the lattice
            err = f"NonIntegral: {ex}"
            self.problems.append((len(self.events), f"calculator: {ex}"))
        except Exception as ex:
            site = raised_by_package(ex)
            text = "".join(traceback.format_exception_only(type(ex), ex)).strip()
            if site is None and isinstance(ex, OSError) and self._own_file(ex) and package_frame(ex) is not None:
                # OSError is normally the environment's, but not when run() misses (or cannot write) one of ITS OWN files
                # in the directory of this world: a restart that the specification allows must exist at all
                site = ("run:restart" if restart else "run:fresh")
            if site is not None:
                err = text
                self.errors.append(dict(site=site, type=type(ex).__name__, text=text[:400], at_event=len(self.events),
                                        traceback=traceback.format_exception(type(ex), ex, ex.__traceback__)[-8:]))
            elif isinstance(ex, (TypeError, AttributeError)):
                # keyword of run() renamed, attribute the double lacks, ...: what the harness relies on is gone
                err = text
                self.private_gone.append("run(): " + text[:200])
            else:
                raise MachineryError(f"harness failure while driving run(): {text}\n{traceback.format_exc()[-1500:]}") from ex
        finally:
            for obj, name, old in reversed(patched):
                setattr(obj, name, old)
            if fake is not None:
                self.ray_fallbacks += fake.fallbacks
                if saved_ray is not None:
                    sys.modules["ray"] = saved_ray
                else:
                    sys.modules.pop("ray", None)
        if self._machinery is not None:
            ex, tb = self._machinery
            raise MachineryError(f"harness failure in the hook sink: {type(ex).__name__}: {ex}\n{tb[-1500:]}")
        if restart and restart_iteration < 0 and self.listing.consulted > 0 and len(self._listing_before) > 1 and listing_fn is not None:
            self.listing_consulted += 1
        if err is None and res is not None and not self.private_gone:
            kl = self.last_klist
            if kl is not None:
                if summary:
                    self.summary_sink("Returned", dict(K_list=kl, result_all=res))
                else:
                    ev = dict(e="Returned")
                    try:
                        ev["coef"] = self.proj_result(res, kl)
                    except NonIntegral as ex:
                        ev["nonintegral"] = str(ex)
                        self.problems.append((len(self.events), f"Returned: {ex}"))
                    except PrivateGone as ex:
                        self.private_gone.append(str(ex))
                    self.events.append(ev)
        return res, err

    def _own_file(self, ex):
        names = [str(x) for x in (getattr(ex, "filename", None), getattr(ex, "filename2", None)) if x]
        root = os.path.abspath(self.dir)
        return any(os.path.abspath(n).startswith(root) for n in names)

    def mark(self, name, **kw):
        self.events.append(dict(e=name, **kw))

    def clear_results(self):
        for f in _glob.glob(self.fout + "-oh_iter-*"):
            os.remove(f)


def fifo_schedule(idxs, done, num_returns):
    """everything needed completes in input order (idxs: task numbers of the refs at hand)"""
    newly = [t for t in idxs if t not in done][:max(0, num_returns - len(done))]
    d = sorted(set(done) | set(newly))
    return newly, d[:num_returns]


def fifo_answer(n, done, num_returns, nwait, nbatch=0):
    return fifo_schedule(list(range(n)), done, num_returns)


def scripted_schedule(steps):
    """steps: {batch: list of (newly_completed, ready) per wait call}; FIFO completion afterwards (and whenever the
    scripted answer does not fit the call, see FakeRay.wait)"""
    def sch(n, done, num_returns, nwait, nbatch=0):
        st = steps.get(nbatch, [])
        if nwait < len(st):
            newly, ready = st[nwait]
            return list(newly), list(ready)
        return fifo_answer(n, done, num_returns, nwait)
    return sch


def random_schedule(rng, first_n=False):
    """random completions; returns either the first num_returns ready (input order) or a random subset of that size;
    sometimes 'times out' with fewer ready than requested"""
    def sch(n, done, num_returns, nwait, nbatch=0):
        rest = [t for t in range(n) if t not in done]
        rng.shuffle(rest)
        need = max(0, num_returns - len(done))
        timeout = rng.random() < 0.25 and len(done) + 0 < num_returns
        if timeout:
            k = rng.randint(0, max(0, need - 1))
        else:
            k = rng.randint(need, len(rest))
        newly = rest[:k]
        d = sorted(done | set(newly))
        if len(d) < num_returns:
            return newly, d
        if first_n:
            return newly, d[:num_returns]
        return newly, sorted(rng.sample(d, num_returns))
    return sch
