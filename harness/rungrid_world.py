"""Drives the real wannierberri.run() on tiny exact systems and records ndjson-able traces of abstract events.

Geometry (matches spec/RunGrid.tla): D periodic directions (1 or 2) with N K-points each, refinement mesh NDIV, integer
coordinates modulo U = 2*N*NDIV**LMAX, integer weights in units of 1/WTOT.  The per-K "result" is a one-hot vector
(slot = function of the K-point cell), so the data of the running integral is the coefficient vector.
"""
import os
import sys
import glob as _glob
import types
import pickle
import numpy as np

from .common import quiet

os.environ.setdefault("WANNIERBERRI_VERIF_TRACE", "1")

import wannierberri as wb  # noqa: E402
from wannierberri import run_grid as RG  # noqa: E402
from wannierberri.result import EnergyResult  # noqa: E402
from wannierberri.symmetry.point_symmetry import transform_ident  # noqa: E402

GROUPS = {
    "none": dict(gens=[], mats=[(1, 0, 0, 1)]),
    "inv": dict(gens=["Inversion"], mats=[(1, 0, 0, 1), (-1, 0, 0, -1)]),
    "c4": dict(gens=["C4z"], mats=[(1, 0, 0, 1), (0, -1, 1, 0), (-1, 0, 0, -1), (0, 1, -1, 0)]),
    "mx": dict(gens=["Mx"], mats=[(1, 0, 0, 1), (-1, 0, 0, 1)]),
    "c4v": dict(gens=["C4z", "Mx"], mats=[(1, 0, 0, 1), (0, -1, 1, 0), (-1, 0, 0, -1), (0, 1, -1, 0),
                                          (-1, 0, 0, 1), (1, 0, 0, -1), (0, 1, 1, 0), (0, -1, -1, 0)]),
    # hexagonal lattice (matrices in reduced reciprocal coordinates; cells are not mapped onto cells)
    "h3": dict(gens=["C3z"], hex=True, mats=[(1, 0, 0, 1), (-1, -1, 1, 0), (0, 1, -1, -1)]),
    "h6": dict(gens=["C6z"], hex=True, mats=[]),
    "h3m": dict(gens=["C3z", "Mx"], hex=True, mats=[]),
}
GROUP_TLA = {"none": "GNone", "inv": "GInv1", "c4": "GC4", "mx": "GMx", "c4v": "GC4v", "h3": "GH3", "h6": "GH6", "h3m": "GH3m"}


class Geometry:
    def __init__(self, D, N, NDIV, LMAX, group):
        self.D, self.N, self.NDIV, self.LMAX, self.group = D, N, NDIV, LMAX, group
        self.U = 2 * N * NDIV ** LMAX
        self.W0 = NDIV ** (D * LMAX)
        self.WTOT = N ** D * self.W0
        self.nslots = (LMAX + 2) * self.U ** D
        self.registry = None   # big worlds: slots are handed out on first use instead of by coordinate

    def use_registry(self, capacity):
        self.registry = {}
        self.nslots = capacity
        return self

    def key(self):
        return (self.D, self.N, self.NDIV, self.LMAX, self.group)

    def cell_of(self, K):
        """K (reduced coords in units where the K-grid cell is 1, as KpointBZ.K) -> integer coordinate tuple"""
        c = []
        for d in range(2):
            x = K[d] * self.U
            xi = int(round(x))
            if abs(x - xi) > 1e-6:
                raise NonIntegral(f"K coordinate {K} is not on the integer lattice U={self.U}")
            c.append(xi % self.U if d < self.D else xi)
        return tuple(c)

    def slot(self, cell, lev):
        if lev > self.LMAX + 1:
            raise NonIntegral(f"refinement level {lev} beyond LMAX={self.LMAX}")
        if self.registry is not None:
            s = self.registry.setdefault((tuple(cell), lev), len(self.registry))
            if s >= self.nslots:
                raise NonIntegral("slot registry capacity exceeded")
            return s
        lin = cell[0] + (self.U * cell[1] if self.D == 2 else 0)
        return lev * self.U ** self.D + lin

    def weight(self, f):
        x = f * self.WTOT
        xi = int(round(x))
        if abs(x - xi) > 1e-7:
            raise NonIntegral(f"weight {f} is not a multiple of 1/{self.WTOT}")
        return xi


class NonIntegral(Exception):
    pass


def make_system(geo):
    lat = np.eye(3)
    if GROUPS[geo.group].get("hex"):
        lat = np.array([[1, 0, 0], [-0.5, np.sqrt(3) / 2, 0], [0, 0, 1.]])
    with quiet():
        syst = wb.system.System_R.from_sparse(real_lattice=lat, wannier_centers_red=np.zeros((1, 3)),
                                              matrices={'Ham': {(0, 0, 0): {(0, 0): 1.0}, (1, 0, 0): {(0, 0): 0.5}, (-1, 0, 0): {(0, 0): 0.5}}})
        syst.periodic = np.array([True, geo.D == 2, False])
        syst.set_pointgroup(GROUPS[geo.group]["gens"])
    return syst


class FakeDataK:
    """stands in for Data_K: only carries the K-point to the calculators"""

    def __init__(self, system, dK=None, grid=None, Kpoint=None, **kw):
        self.Kpoint = Kpoint
        self.system = system


class OneHot:
    """calculator: EnergyResult whose data is `priority` at rows 2*slot, 2*slot+1 (x1, x2) of the K-point's cell"""
    comment = "one-hot synthetic calculator"
    allow_path = False
    allow_grid = True

    def __init__(self, geo, priority=None):
        self.geo = geo
        self.priority = priority or {}
        self.E = np.arange(2 * geo.nslots, dtype=float)

    def pri(self, cell, lev):
        return float(self.priority.get((cell, lev), 1.0))

    def __call__(self, data_K):
        Kp = data_K.Kpoint
        cell = self.geo.cell_of(Kp.K)
        lev = Kp.refinement_level
        s = self.geo.slot(cell, lev)
        d = np.zeros(2 * self.geo.nslots)
        p = self.pri(cell, lev)
        d[2 * s] = p
        d[2 * s + 1] = 2 * p
        return EnergyResult([self.E], d, transformTR=transform_ident, transformInv=transform_ident, rank=0,
                            save_mode="bin")


# ---------------------------------------------------------------------------------------------------------
# schedule-controlled ray double


class FakeRef:
    def __init__(self, idx, thunk):
        self.idx = idx
        self.thunk = thunk
        self.value = None
        self.computed = False

    def compute(self):
        if not self.computed:
            self.value = self.thunk()
            self.computed = True
        return self.value


class FakeRay(types.ModuleType):
    """Implements the subset of the ray API used by process()/run().  `schedule` decides, at each wait() call, which
    tasks have completed and which ready subset is returned (within the documented contract of ray.wait):
    schedule(n_tasks, done_so_far(set of idx), num_returns, last_ready) -> (newly_completed list, ready list)"""

    def __init__(self, ncpu, schedule, emit):
        super().__init__("ray")
        self.ncpu = ncpu
        self.schedule = schedule
        self.emit = emit
        self.done = set()
        self.batch = []
        self.nwait = 0
        self.nbatch = -1

    def is_initialized(self):
        return True

    def cluster_resources(self):
        return {"CPU": float(self.ncpu)}

    def put(self, v):
        return v

    def remote(self, f):
        fr = self

        class Remote:
            def remote(self_, *a, **kw):
                ref = FakeRef(len(fr.batch), lambda: f(*a, **kw))
                fr.batch.append(ref)
                return ref
        return Remote()

    def new_batch(self):
        self.batch = []
        self.done = set()
        self.nwait = 0
        self.nbatch += 1

    def wait(self, refs, num_returns=1, timeout=None):
        n = len(refs)
        newly, ready = self.schedule(n, set(self.done), num_returns, self.nwait, self.nbatch)
        self.nwait += 1
        for t in newly:
            assert t not in self.done
            self.done.add(t)
            self.emit("Complete", dict(t=t))
        assert set(ready) <= self.done and len(ready) <= num_returns
        assert len(ready) == num_returns or set(ready) == self.done, "schedule violates the ray.wait contract"
        ready_refs = [r for r in refs if r.idx in set(ready)]
        rest = [r for r in refs if r.idx not in set(ready)]
        return ready_refs, rest

    def get(self, x):
        if isinstance(x, list):
            return [r.compute() for r in x]
        return x.compute()


# ---------------------------------------------------------------------------------------------------------


class GlobShim:
    """replaces run_grid.glob: lists the factor files in a dictated order (a permutation of the real listing)"""

    def __init__(self, order_fn):
        self.order_fn = order_fn
        self.last = None

    def glob(self, pattern):
        files = sorted(_glob.glob(pattern))
        out = self.order_fn(files)
        assert sorted(out) == files
        self.last = [int(f.split("-")[-1].split(".")[0]) for f in out]
        return out


class World:
    """one directory + one system; run() can be invoked repeatedly; every hook event is projected and recorded"""

    def __init__(self, geo, workdir, priority=None):
        self.geo = geo
        self.dir = workdir
        os.makedirs(workdir, exist_ok=True)
        self.kdir = os.path.join(workdir, "klist")
        self.fout = os.path.join(workdir, "res")
        self.system = make_system(geo)
        self.calc = OneHot(geo, priority)
        self.events = []
        self.cur_selK = None
        self.div_order = []
        self.mode = None
        self.last_listing = None
        self.problems = []

    # ---- projections
    def proj_klist(self, K_list):
        out = []
        for K in K_list:
            cell = self.geo.cell_of(K.K)
            if K.result is not None:
                st = "mem"
            elif K.res_dumped_flag:
                st = "disk"
            elif getattr(K, "res_cleared_flag", False):
                st = "cleared"
            else:
                st = "none"
            sp = 0
            if K.result_storage_path is not None:
                sp = int(os.path.basename(K.result_storage_path).split("-")[-1].split(".")[0]) + 1
            out.append([cell[0], cell[1], int(K.refinement_level), self.geo.weight(K.factor), bool(K.was_evaluated_flag), st, sp])
        return out

    def proj_result(self, res, K_list):
        """coefficient of each K-point of K_list in the result + total coefficient over all slots"""
        if res is None:
            return None
        d = res.results["oh"].data
        g = self.geo
        coef = []
        used = set()
        for K in K_list:
            cell = g.cell_of(K.K)
            s = g.slot(cell, K.refinement_level)
            p = self.calc.pri(cell, K.refinement_level)
            a, b = d[2 * s] / p, d[2 * s + 1] / (2 * p)
            if abs(a - b) > 1e-9:
                raise NonIntegral(f"one-hot rows disagree at slot {s}: {a} {b}")
            coef.append(g.weight(a))
            used.add(s)
        other = 0
        nz = np.nonzero(np.abs(d) > 1e-12)[0]
        for r in nz:
            if (r // 2) not in used:
                other += 1
        return dict(coef=coef, stray=int(other))

    def disk_state(self):
        ff = []
        for f in sorted(_glob.glob(os.path.join(self.kdir, "factors_iter-*.npy"))):
            i = int(f.split("-")[-1].split(".")[0])
            ff.append([i, [self.geo.weight(x) for x in np.load(f)]])
        pk = []
        fn = os.path.join(self.kdir, "K_list.pickle")
        if os.path.exists(fn):
            with open(fn, "rb") as fr:
                while True:
                    try:
                        pk += pickle.load(fr)
                    except EOFError:
                        break
        return dict(ffiles=ff, pick=self.proj_klist(pk))

    def saved_file(self, i_iter):
        fn = f"{self.fout}-oh_iter-{i_iter:04d}.npz"
        if not os.path.exists(fn):
            return None
        return EnergyResult.from_npz(fn, void_if_missing=False)

    # ---- summary sink for big worlds: one compact record per UpdateIntegral / Return / SaveData
    def summary_sink(self, event, f):
        if event not in ("UpdateIntegral", "Return", "StartRestart"):
            return
        g = self.geo
        try:
            K_list = f["K_list"]
            pr = self.proj_result(f["result_all"], K_list)
            facs = [g.weight(K.factor) for K in K_list]
            mism = [[i + 1, c, w] for i, (c, w) in enumerate(zip(pr["coef"], facs)) if c != w]
            self.events.append(dict(e=event, nk=len(K_list), wtot=g.WTOT, sumfac=sum(facs), sumcoef=sum(pr["coef"]),
                                    mismatches=mism[:20], nmismatch=len(mism), stray=pr["stray"],
                                    notevaluated=sum(1 for K in K_list if not K.was_evaluated_flag),
                                    minpos=min([w for w in facs if w > 0] or [0])))
        except NonIntegral as ex:
            self.events.append(dict(e=event, nonintegral=str(ex)))
            self.problems.append(str(ex))

    # ---- hook sink
    def sink(self, event, f):
        g = self.geo
        ev = dict(e=event)
        try:
            if event in ("StartFresh", "StartRestart"):
                ev.update(par=bool(f["parallel"]), dump=bool(f["dump_results"]), allow=bool(f["allow_restart"]),
                          sym=bool(f["use_irred_kpt"]), restart=(event == "StartRestart"), nit=int(f["adpt_num_iter"]),
                          start=int(f["start_iter"]), kl=self.proj_klist(f["K_list"]),
                          facs=[g.weight(x) for x in f["factors"]])
                if event == "StartRestart":
                    ev["coef"] = self.proj_result(f["result_all"], f["K_list"])
                    ev["listing"] = list(self.last_listing) if self.last_listing is not None else None
                    ev["ri"] = int(self.restart_iteration)
                if ev["allow"]:
                    ev["disk"] = self.disk_state()
            elif event == "BeginProcess":
                self.cur_selK = list(f["selK"])
                ev.update(sel=[int(i) + 1 for i in f["selK"]], par=bool(f["parallel"]), kl=self.proj_klist(f["K_list"]))
            elif event in ("Eval", "Collect"):
                ev.update(k=int(f["ik"]) + 1, kl=self.proj_klist(f["K_list"]),
                          rsum=self.proj_result(f["result_sum"], f["K_list"]))
            elif event == "Wait":
                ev.update(ready=[int(i) + 1 for i in np.where(f["ready"])[0]], old=[int(i) + 1 for i in np.where(f["old"])[0]])
            elif event == "EndCollect":
                ev.update(old=[int(i) + 1 for i in np.where(f["old"])[0]])
            elif event == "EndProcess":
                ev.update(kl=self.proj_klist(f["K_list"]), rsum=self.proj_result(f["result_sum"], f["K_list"]))
            elif event == "AppendPickle":
                ev.update(disk=self.disk_state() if os.path.isdir(self.kdir) else None)
            elif event == "UpdateIntegral":
                ev.update(kl=self.proj_klist(f["K_list"]), coef=self.proj_result(f["result_all"], f["K_list"]),
                          facs=[g.weight(x) for x in f["factors"]],
                          disk=self.disk_state() if os.path.isdir(self.kdir) else None)
            elif event == "SaveData":
                ev.update(saved=bool(f["saved"]), iter=int(f["i_iter"]))
                if f["saved"]:
                    r = self.saved_file(int(f["i_iter"]))
                    if r is None:
                        ev["file"] = None
                    else:
                        from wannierberri.result import ResultDict
                        ev["file"] = self.proj_result(ResultDict({"oh": r}), f["K_list"])
            elif event == "Divide":
                self.div_order.append(int(f["iK"]) + 1)
                return
            elif event == "Refine":
                ev.update(ord=list(self.div_order), kl=self.proj_klist(f["K_list"]), nkprev=int(f["nk_prev"]))
                self.div_order = []
            elif event == "Return":
                ev.update(coef=self.proj_result(f["result_all"], f["K_list"]))
        except NonIntegral as ex:
            ev["nonintegral"] = str(ex)
            self.problems.append(str(ex))
        self.events.append(ev)

    def emit_env(self, event, fields):
        ev = dict(e=event)
        ev.update({k: (int(v) + 1 if k == "t" else v) for k, v in fields.items()})
        self.events.append(ev)

    # ---- running
    def run(self, nit, parallel=False, dump=False, allow=False, sym=True, restart=False, adpt_fac=1,
            schedule=None, ncpu=2, listing_fn=None, klist_part=10, restart_iteration=-1, real_ray=False, summary=False):
        with quiet():
            grid = wb.Grid(system=self.system, NKdiv=[self.geo.N, self.geo.N if self.geo.D == 2 else 1, 1], NKFFT=1)
        RG._verif_sink = self.summary_sink if summary else self.sink
        RG._VERIF_ON = True
        old_glob = RG.glob
        shim = GlobShim(listing_fn or (lambda files: files))
        RG.glob = shim
        self.last_listing = None
        self.restart_iteration = restart_iteration
        if restart:
            # the listing is consulted inside read_factors before the StartRestart event is emitted
            files = sorted(_glob.glob(os.path.join(self.kdir, "factors_iter-*.npy")))
            self.last_listing = [int(f.split("-")[-1].split(".")[0]) for f in shim.order_fn(files)]
        fake = None
        saved_ray = sys.modules.get("ray")
        if parallel and not real_ray:
            fake = FakeRay(ncpu, schedule or fifo_schedule, self.emit_env)
            sys.modules["ray"] = fake
            orig_process = RG.process

            def process_wrapper(*a, **kw):
                fake.new_batch()
                return orig_process(*a, **kw)
            RG.process = process_wrapper
        err = None
        res = None
        try:
            with quiet():
                res = RG.run(self.system, grid, {"oh": self.calc}, adpt_num_iter=nit, use_irred_kpt=sym,
                             fout_name=self.fout, file_Klist_path=self.kdir, restart=restart, allow_restart=allow,
                             dump_results=dump, parallel=parallel, adpt_mesh=self.geo.NDIV, adpt_fac=adpt_fac,
                             data_k_class=FakeDataK, Klist_part=klist_part, restart_iteration=restart_iteration,
                             print_progress_step_time=1e9)
        except Exception as ex:  # the trace records it; validation decides
            import traceback
            err = "".join(traceback.format_exception_only(type(ex), ex)).strip()
            self.events.append(dict(e="Exception", what=err[:300]))
        finally:
            RG.glob = old_glob
            RG._verif_sink = None
            if fake is not None:
                RG.process = orig_process
                if saved_ray is not None:
                    sys.modules["ray"] = saved_ray
                else:
                    sys.modules.pop("ray", None)
        return res, err

    def mark(self, name, **kw):
        self.events.append(dict(e=name, **kw))

    def clear_results(self):
        for f in _glob.glob(self.fout + "-oh_iter-*"):
            os.remove(f)


def fifo_schedule(n, done, num_returns, nwait, nbatch=0):
    """everything needed completes in input order"""
    newly = [t for t in range(n) if t not in done][:max(0, num_returns - len(done))]
    d = sorted(done | set(newly))
    return newly, d[:num_returns]


def scripted_schedule(steps):
    """steps: {batch: list of (newly_completed, ready) per wait call}; falls back to FIFO completion afterwards"""
    def sch(n, done, num_returns, nwait, nbatch=0):
        st = steps.get(nbatch, [])
        if nwait < len(st):
            newly, ready = st[nwait]
            return list(newly), list(ready)
        return fifo_schedule(n, done, num_returns, nwait)
    return sch


def random_schedule(rng, first_n=False):
    """random completions; returns either the first num_returns ready (input order) or a random subset of that size;
    sometimes 'times out' with fewer ready than requested"""
    def sch(n, done, num_returns, nwait, nbatch=0):
        rest = [t for t in range(n) if t not in done]
        rng.shuffle(rest)
        need = max(0, num_returns - len(done))
        timeout = rng.random() < 0.25 and len(done) + 0 < num_returns
        if timeout:
            k = rng.randint(0, max(0, need - 1))
        else:
            k = rng.randint(need, len(rest))
        newly = rest[:k]
        d = sorted(done | set(newly))
        if len(d) < num_returns:
            return newly, d
        if first_n:
            return newly, d[:num_returns]
        return newly, sorted(rng.sample(d, num_returns))
    return sch
