"""Shared helpers for all checks: paths, seeds, evidence writing, VIOLATION / KNOWN-FINDING reporting."""
import json
import os
import sys
import time
import shutil
import hashlib

VERIF = os.path.dirname(os.path.dirname(os.path.abspath(__file__)))
REPO = os.environ.get("VERIF_REPO", "/repo")
SPEC = os.path.join(VERIF, "spec")
EVID = os.path.join(VERIF, "evidence")
WORK = os.path.join(VERIF, ".work")
GUARD = "WANNIERBERRI_VERIF_TRACE"
FINISHED_WITH = None


def seed():
    try:
        return int(os.environ.get("VERIF_SEED", "0"))
    except ValueError:
        return 0


def workdir(name, clean=True):
    d = os.path.join(WORK, name)
    if clean and os.path.isdir(d):
        shutil.rmtree(d, ignore_errors=True)
    os.makedirs(d, exist_ok=True)
    return d


class MachineryError(Exception):
    """Raised when the machinery itself fails (exit 2, never a VIOLATION)."""


def load_known_findings():
    p = os.path.join(VERIF, "known_findings.json")
    if not os.path.exists(p):
        return {"findings": [], "fixed": []}
    with open(p) as f:
        return json.load(f)


class Report:
    """Collects what one check run covered and writes the evidence file.

    A violation is identified by a `key` (stable string naming the failing site/input class). If the key is listed in
    known_findings.json under "findings" for this property it is printed as KNOWN-FINDING and does not fail the check.
    """

    def __init__(self, pid, tier, level):
        self.pid = pid
        self.tier = tier
        self.level = level
        self.t0 = time.time()
        self.cov = dict(states=0, transitions=0, traces_validated_against_impl=0, evaluations=0,
                        distinct_nontrivial=0, samples=[], rule="", exhaustive=False)
        self.assumptions = []
        self.violations = []
        self.known_hits = {}
        self.parts = {}
        self._distinct = set()
        import glob as _g
        for f in _g.glob(os.path.join(EVID, "replay", f"{pid}_*.json")):
            os.remove(f)
        kf = load_known_findings()
        self.known = {f["key"]: f for f in kf.get("findings", []) if f.get("property") == pid}

    # ---- coverage accounting
    def add_tlc(self, name, stats):
        self.cov["states"] += int(stats.get("distinct", 0))
        self.cov["transitions"] += int(stats.get("generated", 0))
        self.parts[name] = {k: stats[k] for k in stats if k in ("distinct", "generated", "depth", "wall_s", "mode", "coverage", "constants")}

    def add_traces(self, n):
        self.cov["traces_validated_against_impl"] += int(n)

    def case(self, case_key=None, nontrivial=True):
        """count one evaluation on the implementation; case_key: hashable identity for distinct counting"""
        self.cov["evaluations"] += 1
        if nontrivial and case_key is not None:
            h = hashlib.md5(repr(case_key).encode()).hexdigest()[:16]
            self._distinct.add(h)

    def sample(self, obj, limit=6):
        if len(self.cov["samples"]) < limit:
            self.cov["samples"].append(obj)

    def rule(self, text):
        self.cov["rule"] = (self.cov["rule"] + " " + text).strip()

    def assume(self, text):
        if text not in self.assumptions:
            self.assumptions.append(text)

    def part(self, name, **kw):
        self.parts.setdefault(name, {}).update(kw)

    # ---- violations
    def violation(self, key, detail):
        """key: stable id of the failing site/input class; detail: json-serialisable replay information"""
        if key in self.known:
            if key not in self.known_hits:
                self.known_hits[key] = detail
            return False
        self.violations.append((key, detail))
        return True

    def finish(self):
        self.cov["distinct_nontrivial"] = len(self._distinct)
        wall = time.time() - self.t0
        os.makedirs(EVID, exist_ok=True)
        rc = 0
        for key, det in self.known_hits.items():
            print(f"KNOWN-FINDING: property={self.pid} {key}: {self.known[key].get('what', '')}")
        if self.violations:
            from collections import Counter
            print("violation keys:", dict(Counter(k for k, _ in self.violations)))
            rdir = os.path.join(EVID, "replay")
            os.makedirs(rdir, exist_ok=True)
            seen = set()
            for i, (key, det) in enumerate(self.violations[:20]):
                if key in seen:
                    continue
                seen.add(key)
                path = os.path.join(rdir, f"{self.pid}_{len(seen)}.json")
                with open(path, "w") as f:
                    json.dump({"property": self.pid, "key": key, "detail": det}, f, indent=1, default=str)
                print(f"VIOLATION property={self.pid} replay={path}")
                print(f"  key={key}")
                try:
                    print("  " + json.dumps(det, default=str)[:600])
                except Exception:
                    pass
            rc = 1
        cov = dict(self.cov)
        cov["parts"] = self.parts
        cov["known_findings_hit"] = sorted(self.known_hits)
        if not cov["samples"]:
            cov["samples"] = ["(no sample recorded)"]
        if self.level == "model_checking" and (cov["states"] < 1 or cov["transitions"] < 1):
            # cannot honestly claim model_checking without TLC numbers
            raise MachineryError("model_checking evidence without TLC states")
        ev = dict(property_id=self.pid, tier=self.tier, seed=seed(), level=self.level, coverage=cov,
                  assumptions=self.assumptions, wall_s=round(wall, 2), violations=len(self.violations))
        with open(os.path.join(EVID, f"{self.pid}.json"), "w") as f:
            json.dump(ev, f, indent=1, default=str)
        print(f"[{self.pid}] tier={self.tier} level={self.level} states={cov['states']} transitions={cov['transitions']} "
              f"traces={cov['traces_validated_against_impl']} evaluations={cov['evaluations']} "
              f"distinct={cov['distinct_nontrivial']} violations={len(self.violations)} known={len(self.known_hits)} wall={wall:.1f}s")
        global FINISHED_WITH
        FINISHED_WITH = rc          # main.py: a check that printed violations exits 1 even if it stops with an exception afterwards
        return rc


def approx_eq(a, b, tol):
    import numpy as np
    a = np.asarray(a)
    b = np.asarray(b)
    if a.shape != b.shape:
        return False
    if a.size == 0:
        return True
    return bool(np.max(np.abs(a - b)) <= tol)


def maxdiff(a, b):
    import numpy as np
    a = np.asarray(a)
    b = np.asarray(b)
    if a.shape != b.shape:
        return float("inf")
    if a.size == 0:
        return 0.0
    return float(np.max(np.abs(a - b)))


class quiet:
    """context manager silencing stdout of the library under test (it prints a lot)"""

    def __enter__(self):
        self._old = sys.stdout
        self._f = open(os.devnull, "w")
        sys.stdout = self._f
        return self

    def __exit__(self, *a):
        sys.stdout = self._old
        self._f.close()
        return False
