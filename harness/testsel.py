"""Select the repository tests that can observe a patch:  /venv/bin/python -m harness.testsel <patch.diff> [<coverage db>]

The coverage database is produced once per /repo HEAD by running the complete suite with
`--cov=wannierberri --cov-context=test` (contexts = test ids). A test that never executes any line touched by the patch
(lines removed/changed, or the neighbours of pure insertions) cannot be affected by it; module-level lines (executed at
import, context "") select every test. Prints the selected test ids, one per line."""
import re
import sqlite3
import sys

DB = "/verif/.work/coverage_contexts.db"


def patch_lines(patch):
    """{file: set(line numbers in the ORIGINAL file that the patch removes/changes or next to which it inserts)}"""
    res = {}
    cur = None
    old = 0
    for line in open(patch):
        if line.startswith("--- "):
            m = re.match(r"--- a/(.*)", line.strip())
            cur = m.group(1) if m else None
        elif line.startswith("+++ "):
            continue
        elif line.startswith("@@"):
            m = re.match(r"@@ -(\d+)(?:,(\d+))? \+(\d+)", line)
            old = int(m.group(1))
        elif cur is not None:
            if line.startswith("-"):
                res.setdefault(cur, set()).add(old)
                old += 1
            elif line.startswith("+"):
                res.setdefault(cur, set()).update({old - 1, old})
            else:
                old += 1
    return res


def numbits_to_lines(blob):
    out = []
    for i, byte in enumerate(blob):
        for b in range(8):
            if byte & (1 << b):
                out.append(i * 8 + b)
    return out


def select(patch, db=DB):
    """-> (sorted test ids, touched lines, import_time_only lines)"""
    con = sqlite3.connect(db)
    files = {path: fid for fid, path in con.execute("select id, path from file")}
    ctx = dict(con.execute("select id, context from context"))
    sel = set()
    touched = patch_lines(patch)
    import_only = {}
    for f, lines in touched.items():
        fid = next((i for p, i in files.items() if p.endswith("/" + f)), None)
        if fid is None:
            continue
        by_test, at_import = set(), set()
        for cid, blob in con.execute("select context_id, numbits from line_bits where file_id=?", (fid,)):
            hit = lines & set(numbits_to_lines(blob))
            if not hit:
                continue
            if ctx[cid] == "":
                at_import |= hit
            else:
                by_test |= hit
                sel.add(ctx[cid].split("|")[0])
        if at_import - by_test:
            import_only[f] = sorted(at_import - by_test)      # module-level code: every test imports it
    return sorted(sel), touched, import_only


if __name__ == "__main__":
    tests, touched, import_only = select(sys.argv[1], sys.argv[2] if len(sys.argv) > 2 else DB)
    print("# touched:", {k: sorted(v) for k, v in touched.items()}, file=sys.stderr)
    if import_only:
        print("# WARNING lines executed only at import time (run the complete suite):", import_only, file=sys.stderr)
    for t in tests:
        print(t)
