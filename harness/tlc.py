"""Run TLC / SANY and parse what they say."""
import os
import re
import subprocess
import shutil
import time
import json

from .common import SPEC, WORK, MachineryError

JAR = "/opt/veriftools/tla/tla2tools.jar"
CM = "/opt/veriftools/tla/CommunityModules-deps.jar"


# ---- machine-wide throttle: the JVMs of all checks running on this box share TOKENS worker slots, so that several
# checks started at once (or one check that starts many models concurrently) queue instead of thrashing the machine and
# running into their time-outs. Waiting for slots is not counted against the TLC time-out.
TOKENS = int(os.environ.get("VERIF_TLC_TOKENS", "24"))
_LOCKDIR = os.path.join(WORK, "locks")


def _acquire_slots(n):
    import fcntl
    import random
    n = max(1, min(int(n), TOKENS))
    os.makedirs(_LOCKDIR, exist_ok=True)
    mutex = os.open(os.path.join(_LOCKDIR, "mutex"), os.O_CREAT | os.O_RDWR)
    try:
        while True:
            fcntl.flock(mutex, fcntl.LOCK_EX)
            got = []
            try:
                for i in range(TOKENS):
                    fd = os.open(os.path.join(_LOCKDIR, f"slot_{i}"), os.O_CREAT | os.O_RDWR)
                    try:
                        fcntl.flock(fd, fcntl.LOCK_EX | fcntl.LOCK_NB)
                        got.append(fd)
                    except OSError:
                        os.close(fd)
                    if len(got) == n:
                        return got
                for fd in got:
                    os.close(fd)
            finally:
                fcntl.flock(mutex, fcntl.LOCK_UN)
            time.sleep(0.3 + random.random())
    finally:
        os.close(mutex)


def _java(args, cwd, env=None, timeout=1800, dfs=False, heap="8g", slots=1):
    e = dict(os.environ)
    if env:
        e.update({k: str(v) for k, v in env.items()})
    cmd = ["java", "-XX:+UseParallelGC", "-XX:ParallelGCThreads=2", "-XX:CICompilerCount=2", "-Xss64m", f"-Xmx{heap}", f"-DTLA-Library={SPEC}"]  # -Xss: deep (non-tail) TLA+ recursions; a too small stack makes TLC hang or fail depending on JIT timing
    if dfs:
        cmd.append("-Dtlc2.tool.queue.IStateQueue=StateDeque")
    cmd += ["-cp", f"{JAR}:{CM}"] + args
    held = _acquire_slots(slots)
    t0 = time.time()
    try:
        try:
            p = subprocess.run(cmd, cwd=cwd, env=e, stdout=subprocess.PIPE, stderr=subprocess.STDOUT, timeout=timeout, text=True)
        except subprocess.TimeoutExpired as ex:
            out = ex.stdout if isinstance(ex.stdout, str) else (ex.stdout or b"").decode(errors="replace")
            return -9, out, time.time() - t0
        return p.returncode, p.stdout, time.time() - t0
    finally:
        for fd in held:
            os.close(fd)


def sany(module_path):
    rc, out, _ = _java(["tla2sany.SANY", os.path.basename(module_path)], cwd=os.path.dirname(module_path), timeout=120)
    ok = rc == 0 and "Semantic errors" not in out and "***Parse Error***" not in out and "Fatal errors" not in out and "Could not" not in out
    return ok, out


_RE_STATES = re.compile(r"(\d+) states generated, (\d+) distinct states found, (\d+) states left on queue")
_RE_DEPTH = re.compile(r"The depth of the complete state graph search is (\d+)")
_RE_COV = re.compile(r"^<(\w+) line (\d+), col \d+ to line \d+, col \d+ of module (\w+)>: (\d+):(\d+)", re.M)
_RE_INV = re.compile(r"Error: Invariant (\w+) is violated")
_RE_ACTPROP = re.compile(r"Error: Action property (\w+) is violated")


def parse_output(out):
    st = {"generated": 0, "distinct": 0, "queue": 0, "depth": 0}
    ms = _RE_STATES.findall(out)
    if ms:
        g, d, q = ms[-1]
        st.update(generated=int(g), distinct=int(d), queue=int(q))
    m = _RE_DEPTH.search(out)
    if m:
        st["depth"] = int(m.group(1))
    cov = {}
    for name, line, mod, dist, gen in _RE_COV.findall(out):
        k = name
        c = cov.setdefault(k, [0, 0])
        c[0] += int(dist)
        c[1] += int(gen)
    st["coverage"] = {k: {"distinct": v[0], "generated": v[1]} for k, v in cov.items()}
    viol = None
    m = _RE_INV.search(out)
    if m:
        viol = ("invariant", m.group(1))
    m = _RE_ACTPROP.search(out)
    if m:
        viol = ("action_property", m.group(1))
    if "Error: Deadlock reached" in out:
        viol = ("deadlock", "deadlock")
    if "Temporal properties were violated" in out:
        viol = ("temporal", "temporal")
    if "Error: Assumption" in out:
        viol = ("assumption", "assumption")
    m = re.search(r"Error: Postcondition (\w+)? ?.*violated", out)
    if m:
        viol = ("postcondition", m.group(1) or "postcondition")
    st["violation"] = viol
    st["finished"] = "Model checking completed" in out or "Finished in" in out
    st["error"] = None
    if viol is None and ("Error:" in out or "error:" in out.lower() and "0 error" not in out.lower()):
        # an evaluation error, parse error, etc.
        m = re.search(r"(?s)Error: (.{0,600})", out)
        if m and "Invariant" not in m.group(1)[:20]:
            st["error"] = m.group(1)
    return st


def run_tlc(module, cfg, name, workers=16, dump=False, coverage=True, timeout=1800, env=None, simulate=None,
            depth=None, seed=None, dfs=False, deadlock=False, extra=None, keep_out=True, heap="8g", workroot=None):
    """module: module file name relative to /verif/spec (e.g. 'MC_RunGrid.tla') or absolute path.
    cfg: path (relative to the module's dir or absolute) or literal cfg text (contains a newline).
    Returns stats dict (+ 'output', 'dump_path', 'wall_s', 'meta')."""
    mod_path = module if os.path.isabs(module) else os.path.join(SPEC, module)
    mod_dir = os.path.dirname(mod_path)
    meta = os.path.join(workroot or WORK, "tlc", name)
    if os.path.isdir(meta):
        shutil.rmtree(meta, ignore_errors=True)
    os.makedirs(meta, exist_ok=True)
    if "\n" in cfg:
        cfg_path = os.path.join(meta, "model.cfg")
        with open(cfg_path, "w") as f:
            f.write(cfg)
    else:
        cfg_path = cfg if os.path.isabs(cfg) else os.path.join(mod_dir, cfg)
    args = ["tlc2.TLC", "-workers", str(workers), "-metadir", os.path.join(meta, "md"), "-noGenerateSpecTE",
            "-config", cfg_path]
    if coverage:
        args += ["-coverage", "1"]
    if not deadlock:
        args += ["-deadlock"]
    dump_path = None
    if dump:
        dump_path = os.path.join(meta, "states")
        args += ["-dump", dump_path]
        dump_path += ".dump"
    if simulate:
        args += ["-simulate", simulate]
    if depth:
        args += ["-depth", str(depth)]
    if seed is not None:
        args += ["-seed", str(seed)]
    if extra:
        args += extra
    args.append(os.path.basename(mod_path))
    rc, out, wall = _java(args, cwd=mod_dir, env=env, timeout=timeout, dfs=dfs, heap=heap, slots=workers)
    st = parse_output(out)
    st.update(rc=rc, wall_s=round(wall, 2), dump_path=dump_path, meta=meta, mode="simulate" if simulate else "exhaustive")
    if keep_out:
        st["output"] = out
        with open(os.path.join(meta, "tlc.out"), "w") as f:
            f.write(out)
    if rc == -9:
        st["timeout"] = True
    return st


def require_ok(st, what, allow_timeout=False):
    """Raise MachineryError unless TLC ran cleanly to completion without violation. Returns st."""
    if st.get("timeout") and allow_timeout:
        return st
    if st.get("error") and not st.get("violation"):
        raise MachineryError(f"TLC failed for {what}: {st['error'][:500]}\n(see {st['meta']}/tlc.out)")
    if st["distinct"] == 0 and not st.get("violation"):
        raise MachineryError(f"TLC produced no states for {what} (see {st['meta']}/tlc.out)\n{st.get('output', '')[-1500:]}")
    return st


def check_not_vacuous(st, actions, what):
    cov = st.get("coverage", {})
    missing = [a for a in actions if cov.get(a, {}).get("generated", 0) == 0]
    if missing:
        raise MachineryError(f"vacuous model {what}: actions never taken: {missing}")


def printed(out, tag):
    """lines printed with PrintT(<<"tag", ...>>) -> list of the raw text after the tag"""
    res = []
    pat = re.compile(r'^<<"' + re.escape(tag) + r'",\s*(.*)>>\s*$', re.M)
    for m in pat.finditer(out):
        res.append(m.group(1))
    return res


def cfg_text(spec="Spec", init=None, next_=None, constants=None, invariants=(), properties=(), constraint=None,
             action_constraint=None, view=None, postcondition=None, deadlock=None, symmetry=None):
    lines = []
    if init:
        lines += [f"INIT {init}", f"NEXT {next_}"]
    else:
        lines.append(f"SPECIFICATION {spec}")
    if constants:
        lines.append("CONSTANTS")
        for k, v in constants.items():
            lines.append(f"  {k} = {v}" if not str(v).startswith("<-") else f"  {k} {v}")
    for i in invariants:
        lines.append(f"INVARIANT {i}")
    for p in properties:
        lines.append(f"PROPERTY {p}")
    if constraint:
        lines.append(f"CONSTRAINT {constraint}")
    if action_constraint:
        lines.append(f"ACTION_CONSTRAINT {action_constraint}")
    if view:
        lines.append(f"VIEW {view}")
    if postcondition:
        lines.append(f"POSTCONDITION {postcondition}")
    if deadlock is not None:
        lines.append(f"CHECK_DEADLOCK {'TRUE' if deadlock else 'FALSE'}")
    return "\n".join(lines) + "\n"


def tla_value(v):
    """Python value -> TLA+ literal (ints, bools, str, list/tuple -> sequence, set -> set, dict -> record/function)"""
    if isinstance(v, bool):
        return "TRUE" if v else "FALSE"
    if isinstance(v, int):
        return str(v)
    if isinstance(v, str):
        return json.dumps(v)
    if isinstance(v, (list, tuple)):
        return "<<" + ", ".join(tla_value(x) for x in v) + ">>"
    if isinstance(v, (set, frozenset)):
        return "{" + ", ".join(tla_value(x) for x in sorted(v, key=repr)) + "}"
    if isinstance(v, dict):
        if all(isinstance(k, str) for k in v):
            return "[" + ", ".join(f"{k} |-> {tla_value(x)}" for k, x in v.items()) + "]"
        return "(" + " @@ ".join(f"{tla_value(k)} :> {tla_value(x)}" for k, x in v.items()) + ")"
    raise TypeError(type(v))
